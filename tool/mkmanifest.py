#!/usr/bin/env python3
"""Regenerates MANIFEST.json from the rule modules that exist (rules/cNN.py) and
spec/not_applicable.json.  Run after adding a property's rules."""
import importlib
import json
import os
import sys

VERIF = os.path.dirname(os.path.dirname(os.path.abspath(__file__)))
sys.path.insert(0, VERIF)
ids = [json.loads(l)["id"] for l in open(os.path.join(VERIF, "properties.jsonl"))]
na = json.load(open(os.path.join(VERIF, "spec", "not_applicable.json")))
checks, not_app = [], []
for i in ids:
    path = os.path.join(VERIF, "rules", i.lower() + ".py")
    if os.path.exists(path) and i not in na["never"]:
        m = importlib.import_module("rules." + i.lower())
        checks.append({
            "property_id": i,
            "quick_cmd": "./vcheck %s --tier quick" % i,
            "thorough_cmd": "./vcheck %s --tier thorough" % i,
            "evidence_file": "evidence/%s.json" % i,
            "replay_cmd_template": "./vcheck --explain {path}",
            "engine": "scpifacts+sa",
            "level_claimed": {"category": "other", "text": m.LEVEL_TEXT, "design_ref": m.DESIGN_REF},
            "level_note": m.LEVEL_NOTE,
            "technique": m.TECHNIQUE,
        })
    else:
        not_app.append({"property_id": i, "reason": na["never"].get(i) or na["pending"]})
man = {
    "version": 1,
    "setup_cmd": "./tool/build.sh",
    "hooks": {"guard": "SCPI_PARSER_VERIF",
              "enable": "none: the analysis reads the source as it is, no hook is compiled in",
              "baseline_off_cmd": "make -C /repo/libscpi clean test",
              "source_commits": [], "add_only": True},
    "engines": [{"name": "scpifacts+sa", "path": "tool/scpifacts.cc, sa/, rules/, vcheck",
                 "serves_properties": [c["property_id"] for c in checks],
                 "kind_free_text": "clang libTooling fact extractor (AST node tables, CFG with every sub-expression, "
                                   "evaluated tables) run on /repo's working tree in up to five build configurations; "
                                   "repository-specific static rules in Python (dataflow, must-pass, who-may-call, "
                                   "decision tables, truth tables, typestate, bounds) on top"}],
    "checks": checks,
    "not_applicable": not_app,
    "notes": "Static analysis only. Exit 0 held / 1 VIOLATION / 2 analysis broken (lost anchor, rule below its "
             "instance floor, new undecided site). known_findings.json lists recorded and fixed defects.",
}
json.dump(man, open(os.path.join(VERIF, "MANIFEST.json"), "w"), indent=1)
print("claimed:", [c["property_id"] for c in checks])
