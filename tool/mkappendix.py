#!/usr/bin/env python3
"""tool/mkappendix.py : regenerate the rule table of DESIGN.md, Appendix R, from the RULES dictionaries of rules/cNN.py."""
import importlib
import os
import re
import sys

V = os.path.dirname(os.path.dirname(os.path.abspath(__file__)))
sys.path.insert(0, V)


def main():
    rows = []
    for i in range(1, 21):
        mod = importlib.import_module("rules.c%02d" % i)
        for rid, text in sorted(getattr(mod, "RULES", {}).items(), key=lambda kv: [int(t) if t.isdigit() else t for t in re.split(r"(\d+)", kv[0])]):
            rows.append("| %s | %s |" % (rid, " ".join(str(text).split()).replace("|", "\\|")))
    p = os.path.join(V, "DESIGN.md")
    s = open(p).read()
    head = "| rule | statement (as registered in rules/cNN.py; evidence/<id>.json lists the instances per run) |\n|---|---|\n"
    a = s.index(head) + len(head)
    b = s.index("\n\n", a)
    s = s[:a] + "\n".join(rows) + s[b:]
    open(p, "w").write(s)
    print("%d rules" % len(rows))


if __name__ == "__main__":
    main()
