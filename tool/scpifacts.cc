// scpifacts: libTooling fact extractor for the scpi-parser verification rules.
//
// For one translation unit (compiled with the real flags given after "--") it writes one
// JSON document with
//   functions[]  every function defined in the main file: parameters, the full statement
//                tree as a node table (resolved decls, types, folded constants, cast
//                kinds, member paths, macro/spelling locations) and the clang CFG built
//                with setAllAlwaysAdd() (every sub-expression is an element, in
//                evaluation order; short-circuit operators get their own blocks)
//   globals[]    file-scope variables with evaluated initialisers
//   static_locals[], enums{}, records{}, typedefs{}
// Rules are written in Python on top of these facts (sa/*.py). Nothing here decides a
// property.
#include "clang/AST/ASTConsumer.h"
#include "clang/AST/ASTContext.h"
#include "clang/AST/Decl.h"
#include "clang/AST/Expr.h"
#include "clang/AST/RecursiveASTVisitor.h"
#include "clang/AST/Stmt.h"
#include "clang/Analysis/CFG.h"
#include "clang/Frontend/CompilerInstance.h"
#include "clang/Frontend/FrontendAction.h"
#include "clang/Lex/Lexer.h"
#include "clang/Tooling/CommonOptionsParser.h"
#include "clang/Tooling/Tooling.h"
#include "llvm/Support/CommandLine.h"
#include "llvm/Support/JSON.h"
#include "llvm/Support/raw_ostream.h"
#include <map>
#include <string>

using namespace clang;
using namespace clang::tooling;
namespace json = llvm::json;

static llvm::cl::OptionCategory Cat("scpifacts options");
static llvm::cl::opt<std::string> OutFile("o", llvm::cl::desc("output json"),
                                          llvm::cl::Required, llvm::cl::cat(Cat));

namespace {

struct Extractor {
  ASTContext &Ctx;
  SourceManager &SM;
  const LangOptions &LO;
  std::map<const Decl *, int> DeclIds;
  int NextDecl = 1;

  explicit Extractor(ASTContext &C)
      : Ctx(C), SM(C.getSourceManager()), LO(C.getLangOpts()) {}

  int declId(const Decl *D) {
    D = D->getCanonicalDecl();
    auto It = DeclIds.find(D);
    if (It != DeclIds.end())
      return It->second;
    return DeclIds[D] = NextDecl++;
  }

  std::string fileOf(SourceLocation L) {
    L = SM.getExpansionLoc(L);
    return SM.getFilename(L).str();
  }
  unsigned lineOf(SourceLocation L) {
    return SM.getExpansionLineNumber(L);
  }

  json::Object typeInfo(QualType T) {
    json::Object O;
    O["t"] = T.getAsString();
    QualType CT = T.getCanonicalType();
    O["ct"] = CT.getAsString();
    if (CT->isBooleanType())
      O["tk"] = "bool";
    else if (CT->isEnumeralType()) {
      O["tk"] = "enum";
      O["signed"] = CT->isSignedIntegerOrEnumerationType();
    }
    else if (CT->isIntegerType()) {
      O["tk"] = "int";
      O["signed"] = CT->isSignedIntegerType();
    } else if (CT->isFloatingType())
      O["tk"] = "float";
    else if (CT->isPointerType())
      O["tk"] = "ptr";
    else if (CT->isArrayType())
      O["tk"] = "array";
    else if (CT->isRecordType())
      O["tk"] = "record";
    else if (CT->isVoidType())
      O["tk"] = "void";
    else if (CT->isFunctionType())
      O["tk"] = "func";
    else
      O["tk"] = "other";
    if (!CT->isIncompleteType() && !CT->isFunctionType() && !CT->isVoidType() &&
        !CT->isDependentType() && !CT->isPlaceholderType() &&
        !CT->isVariablyModifiedType())
      O["bits"] = (int64_t)Ctx.getTypeSize(CT);
    if (const auto *AT = Ctx.getAsConstantArrayType(CT))
      O["n"] = (int64_t)AT->getSize().getZExtValue();
    return O;
  }

  std::string srcText(SourceRange R, unsigned Max = 160) {
    if (R.isInvalid())
      return "";
    CharSourceRange CR = CharSourceRange::getTokenRange(
        SM.getExpansionLoc(R.getBegin()), SM.getExpansionLoc(R.getEnd()));
    // when the range is in a macro, getExpansionRange is more useful
    if (R.getBegin().isMacroID() || R.getEnd().isMacroID())
      CR = SM.getExpansionRange(R);
    bool Invalid = false;
    StringRef S = Lexer::getSourceText(CR, SM, LO, &Invalid);
    if (Invalid)
      return "";
    std::string Out;
    bool Sp = false;
    for (char C : S) {
      if (C == '\n' || C == '\t' || C == '\r' || C == ' ') {
        if (!Sp && !Out.empty())
          Out.push_back(' ');
        Sp = true;
      } else {
        Out.push_back(C);
        Sp = false;
      }
      if (Out.size() >= Max) {
        Out += "...";
        break;
      }
    }
    return Out;
  }

  // spelled (post-expansion) text of an expression via the pretty printer
  std::string pretty(const Stmt *S) {
    std::string Buf;
    llvm::raw_string_ostream OS(Buf);
    PrintingPolicy PP(LO);
    PP.SuppressImplicitBase = true;
    S->printPretty(OS, nullptr, PP);
    OS.flush();
    std::string Out;
    bool Sp = false;
    for (char C : Buf) {
      if (C == '\n' || C == '\t' || C == ' ') {
        if (!Sp && !Out.empty())
          Out.push_back(' ');
        Sp = true;
      } else {
        Out.push_back(C);
        Sp = false;
      }
      if (Out.size() >= 200) {
        Out += "...";
        break;
      }
    }
    while (!Out.empty() && Out.back() == ' ')
      Out.pop_back();
    return Out;
  }

  // structural access path of an lvalue-ish expression; "" when not a simple path
  std::string pathOf(const Expr *E) {
    E = E->IgnoreParens();
    if (const auto *ICE = dyn_cast<ImplicitCastExpr>(E)) {
      switch (ICE->getCastKind()) {
      case CK_LValueToRValue:
      case CK_NoOp:
      case CK_ArrayToPointerDecay:
      case CK_FunctionToPointerDecay:
      case CK_BitCast:
        return pathOf(ICE->getSubExpr());
      default:
        return "";
      }
    }
    if (const auto *DRE = dyn_cast<DeclRefExpr>(E))
      return DRE->getDecl()->getNameAsString();
    if (const auto *ME = dyn_cast<MemberExpr>(E)) {
      std::string B = pathOf(ME->getBase());
      if (B.empty())
        return "";
      // (&x)->f is x.f ; (*p).f is p->f
      if (ME->isArrow() && B[0] == '&')
        return B.substr(1) + "." + ME->getMemberDecl()->getNameAsString();
      if (!ME->isArrow() && B[0] == '*')
        return B.substr(1) + "->" + ME->getMemberDecl()->getNameAsString();
      return B + (ME->isArrow() ? "->" : ".") +
             ME->getMemberDecl()->getNameAsString();
    }
    if (const auto *AS = dyn_cast<ArraySubscriptExpr>(E)) {
      std::string B = pathOf(AS->getBase());
      if (B.empty())
        return "";
      Expr::EvalResult R;
      if (!AS->getIdx()->isValueDependent() &&
          AS->getIdx()->EvaluateAsInt(R, Ctx, Expr::SE_NoSideEffects))
        return B + "[" + llvm::toString(R.Val.getInt(), 10) + "]";
      std::string I = pathOf(AS->getIdx());
      return B + "[" + (I.empty() ? "*" : I) + "]";
    }
    if (const auto *UO = dyn_cast<UnaryOperator>(E)) {
      if (UO->getOpcode() == UO_Deref) {
        std::string B = pathOf(UO->getSubExpr());
        return B.empty() ? "" : "*" + B;
      }
      if (UO->getOpcode() == UO_AddrOf) {
        std::string B = pathOf(UO->getSubExpr());
        return B.empty() ? "" : "&" + B;
      }
    }
    return "";
  }

  json::Value evalInit(const Expr *E) {
    if (!E)
      return nullptr;
    if (const auto *ILE = dyn_cast<InitListExpr>(E)) {
      if (ILE->isSemanticForm() == false && ILE->getSemanticForm())
        ILE = ILE->getSemanticForm();
      QualType T = ILE->getType().getCanonicalType();
      if (const auto *RT = T->getAs<RecordType>()) {
        json::Object O;
        const RecordDecl *RD = RT->getDecl();
        unsigned I = 0;
        if (RD->isUnion()) {
          if (const FieldDecl *FD = ILE->getInitializedFieldInUnion()) {
            if (ILE->getNumInits() > 0)
              O[FD->getNameAsString()] = evalInit(ILE->getInit(0));
          }
          return std::move(O);
        }
        for (const FieldDecl *FD : RD->fields()) {
          if (FD->isUnnamedBitfield())
            continue;
          if (I < ILE->getNumInits())
            O[FD->getNameAsString()] = evalInit(ILE->getInit(I));
          else
            O[FD->getNameAsString()] = nullptr;
          ++I;
        }
        return std::move(O);
      }
      json::Array A;
      for (unsigned I = 0; I < ILE->getNumInits(); ++I)
        A.push_back(evalInit(ILE->getInit(I)));
      if (ILE->hasArrayFiller()) {
        if (const auto *AT = Ctx.getAsConstantArrayType(ILE->getType())) {
          uint64_t N = AT->getSize().getZExtValue();
          for (uint64_t I = ILE->getNumInits(); I < N && I < 100000; ++I)
            A.push_back(json::Object{{"filler", true}});
        }
      }
      return std::move(A);
    }
    if (isa<ImplicitValueInitExpr>(E))
      return json::Object{{"zero", true}};
    const Expr *S = E->IgnoreParenImpCasts();
    if (const auto *SL = dyn_cast<StringLiteral>(S)) {
      if (SL->getCharByteWidth() == 1)
        return json::Object{{"str", SL->getString().str()}};
    }
    Expr::EvalResult R;
    if (E->getType()->isIntegralOrEnumerationType() &&
        E->EvaluateAsInt(R, Ctx, Expr::SE_NoSideEffects))
      return (int64_t)R.Val.getInt().getExtValue();
    if (E->getType()->isFloatingType()) {
      llvm::APFloat F(0.0);
      if (E->EvaluateAsFloat(F, Ctx, Expr::SE_NoSideEffects)) {
        bool Lost;
        F.convert(llvm::APFloat::IEEEdouble(), llvm::APFloat::rmNearestTiesToEven,
                  &Lost);
        double D = F.convertToDouble();
        if (D != D)
          return json::Object{{"float", "nan"}};
        if (D > 1e308 || D < -1e308)
          return json::Object{{"float", D > 0 ? "inf" : "-inf"}};
        return json::Object{{"f", D}, {"text", pretty(E)}};
      }
    }
    if (E->getType()->isPointerType()) {
      if (E->isNullPointerConstant(Ctx, Expr::NPC_ValueDependentIsNotNull))
        return nullptr;
      if (const auto *CE = dyn_cast<CastExpr>(E->IgnoreParens())) {
        const Expr *Sub = CE->getSubExpr()->IgnoreParenCasts();
        Expr::EvalResult R2;
        if (Sub->getType()->isIntegralOrEnumerationType() &&
            Sub->EvaluateAsInt(R2, Ctx, Expr::SE_NoSideEffects) &&
            R2.Val.getInt() == 0)
          return nullptr;
      }
      std::string P = pathOf(S);
      if (!P.empty())
        return json::Object{{"ref", P}};
    }
    return json::Object{{"expr", pretty(E)}};
  }

  // ---- per-function statement table ----
  struct FnState {
    std::map<const Stmt *, int> Ids;
    json::Object Nodes;
    int Next = 1;
  };

  void locInfo(json::Object &N, const Stmt *S) {
    SourceLocation B = S->getBeginLoc();
    if (B.isInvalid())
      return;
    N["line"] = (int64_t)SM.getExpansionLineNumber(B);
    N["col"] = (int64_t)SM.getExpansionColumnNumber(B);
    if (B.isMacroID()) {
      N["macro"] = Lexer::getImmediateMacroName(B, SM, LO).str();
      // outermost macro at the expansion site
      SourceLocation L = B;
      while (L.isMacroID()) {
        SourceLocation Up = SM.getImmediateMacroCallerLoc(L);
        if (!Up.isMacroID()) {
          N["omacro"] = Lexer::getImmediateMacroName(L, SM, LO).str();
          break;
        }
        L = Up;
      }
      SourceLocation Sp = SM.getSpellingLoc(B);
      N["sline"] = (int64_t)SM.getSpellingLineNumber(Sp);
      N["sfile"] = SM.getFilename(Sp).str();
    }
  }

  json::Object declRef(const ValueDecl *D) {
    json::Object O;
    O["name"] = D->getNameAsString();
    O["id"] = declId(D);
    if (isa<ParmVarDecl>(D))
      O["kind"] = "param";
    else if (const auto *VD = dyn_cast<VarDecl>(D)) {
      if (VD->isLocalVarDecl())
        O["kind"] = VD->isStaticLocal() ? "static_local" : "local";
      else
        O["kind"] = "global";
    } else if (isa<FunctionDecl>(D))
      O["kind"] = "function";
    else if (const auto *EC = dyn_cast<EnumConstantDecl>(D)) {
      O["kind"] = "enumconst";
      O["val"] = (int64_t)EC->getInitVal().getExtValue();
    } else
      O["kind"] = "other";
    return O;
  }

  int visit(FnState &F, const Stmt *S) {
    if (!S)
      return 0;
    auto It = F.Ids.find(S);
    if (It != F.Ids.end())
      return It->second;
    int Id = F.Next++;
    F.Ids[S] = Id;
    json::Object N;
    N["k"] = S->getStmtClassName();
    locInfo(N, S);
    json::Array Ch;
    if (const auto *E = dyn_cast<Expr>(S)) {
      json::Object TI = typeInfo(E->getType());
      for (auto &KV : TI)
        N[KV.first] = std::move(KV.second);
      if (E->isLValue())
        N["lv"] = true;
      if (!E->isValueDependent() && E->isPRValue() &&
          E->getType()->isIntegralOrEnumerationType()) {
        Expr::EvalResult R;
        if (E->EvaluateAsInt(R, Ctx, Expr::SE_NoSideEffects))
          N["cv"] = (int64_t)R.Val.getInt().getExtValue();
      }
      std::string P = pathOf(E);
      if (!P.empty())
        N["path"] = P;
    }
    if (const auto *BO = dyn_cast<BinaryOperator>(S)) {
      N["op"] = BO->getOpcodeStr().str();
      if (const auto *CAO = dyn_cast<CompoundAssignOperator>(S)) {
        N["comp_t"] = CAO->getComputationResultType().getAsString();
      }
    } else if (const auto *UO = dyn_cast<UnaryOperator>(S)) {
      N["op"] = UnaryOperator::getOpcodeStr(UO->getOpcode()).str();
      N["postfix"] = UO->isPostfix();
    } else if (const auto *DRE = dyn_cast<DeclRefExpr>(S)) {
      N["decl"] = declRef(DRE->getDecl());
    } else if (const auto *ME = dyn_cast<MemberExpr>(S)) {
      N["member"] = ME->getMemberDecl()->getNameAsString();
      N["arrow"] = ME->isArrow();
      if (const auto *FD = dyn_cast<FieldDecl>(ME->getMemberDecl()))
        N["record"] = FD->getParent()->getNameAsString();
    } else if (const auto *IL = dyn_cast<IntegerLiteral>(S)) {
      N["val"] = (int64_t)IL->getValue().getLimitedValue();
    } else if (const auto *CL = dyn_cast<CharacterLiteral>(S)) {
      N["val"] = (int64_t)CL->getValue();
    } else if (const auto *FL = dyn_cast<FloatingLiteral>(S)) {
      N["fval"] = FL->getValueAsApproximateDouble();
    } else if (const auto *SL = dyn_cast<StringLiteral>(S)) {
      if (SL->getCharByteWidth() == 1)
        N["str"] = SL->getString().str();
    } else if (const auto *CE = dyn_cast<CastExpr>(S)) {
      N["ck"] = CE->getCastKindName();
      N["implicit"] = isa<ImplicitCastExpr>(CE);
    } else if (const auto *Call = dyn_cast<CallExpr>(S)) {
      if (const FunctionDecl *FD = Call->getDirectCallee()) {
        N["callee"] = FD->getNameAsString();
        N["callee_id"] = declId(FD);
      } else {
        N["callee"] = nullptr;
        N["callee_path"] = pathOf(Call->getCallee());
      }
      N["nargs"] = (int64_t)Call->getNumArgs();
    } else if (const auto *UE = dyn_cast<UnaryExprOrTypeTraitExpr>(S)) {
      N["trait"] = UE->getKind() == UETT_SizeOf ? "sizeof" : "other";
      if (UE->isArgumentType())
        N["argtype"] = UE->getArgumentType().getAsString();
    } else if (const auto *DS = dyn_cast<DeclStmt>(S)) {
      json::Array Ds;
      for (const Decl *D : DS->decls()) {
        if (const auto *VD = dyn_cast<VarDecl>(D)) {
          json::Object V;
          V["name"] = VD->getNameAsString();
          V["id"] = declId(VD);
          json::Object TI = typeInfo(VD->getType());
          V["type"] = std::move(TI);
          V["static"] = VD->isStaticLocal();
          if (VD->hasInit())
            V["init"] = visit(F, VD->getInit());
          Ds.push_back(std::move(V));
        }
      }
      N["decls"] = std::move(Ds);
    } else if (const auto *CS = dyn_cast<CaseStmt>(S)) {
      Expr::EvalResult R;
      if (CS->getLHS()->EvaluateAsInt(R, Ctx))
        N["case_lo"] = (int64_t)R.Val.getInt().getExtValue();
      if (CS->getRHS() && CS->getRHS()->EvaluateAsInt(R, Ctx))
        N["case_hi"] = (int64_t)R.Val.getInt().getExtValue();
      N["case_text"] = pretty(CS->getLHS());
    }
    for (const Stmt *C : S->children())
      if (C)
        Ch.push_back(visit(F, C));
    N["ch"] = std::move(Ch);
    if (isa<Expr>(S)) {
      N["src"] = pretty(S);
    }
    F.Nodes[std::to_string(Id)] = std::move(N);
    return Id;
  }

  json::Object doFunction(const FunctionDecl *FD) {
    json::Object O;
    O["name"] = FD->getNameAsString();
    O["id"] = declId(FD);
    O["file"] = fileOf(FD->getLocation());
    O["line"] = (int64_t)lineOf(FD->getBeginLoc());
    O["endline"] = (int64_t)lineOf(FD->getEndLoc());
    O["static"] = FD->getStorageClass() == SC_Static;
    O["ret"] = typeInfo(FD->getReturnType());
    if (FD->getBeginLoc().isMacroID())
      O["macro"] = Lexer::getImmediateMacroName(FD->getBeginLoc(), SM, LO).str();
    json::Array Ps;
    for (const ParmVarDecl *P : FD->parameters()) {
      json::Object PO;
      PO["name"] = P->getNameAsString();
      PO["id"] = declId(P);
      PO["type"] = typeInfo(P->getType());
      Ps.push_back(std::move(PO));
    }
    O["params"] = std::move(Ps);

    FnState F;
    const Stmt *Body = FD->getBody();
    O["body"] = visit(F, Body);

    CFG::BuildOptions BO;
    BO.setAllAlwaysAdd();
    BO.PruneTriviallyFalseEdges = true;
    std::unique_ptr<CFG> G = CFG::buildCFG(FD, const_cast<Stmt *>(Body), &Ctx, BO);
    json::Object CJ;
    if (G) {
      CJ["entry"] = (int64_t)G->getEntry().getBlockID();
      CJ["exit"] = (int64_t)G->getExit().getBlockID();
      json::Array Bs;
      for (const CFGBlock *B : *G) {
        json::Object BJ;
        BJ["id"] = (int64_t)B->getBlockID();
        json::Array Els;
        for (const CFGElement &El : *B) {
          if (auto CS = El.getAs<CFGStmt>()) {
            Els.push_back(visit(F, CS->getStmt()));
          }
        }
        BJ["elems"] = std::move(Els);
        if (const Stmt *T = B->getTerminatorStmt()) {
          json::Object TJ;
          TJ["k"] = T->getStmtClassName();
          TJ["node"] = visit(F, T);
          if (const Stmt *C = B->getTerminatorCondition())
            TJ["cond"] = visit(F, C);
          TJ["line"] = (int64_t)lineOf(T->getBeginLoc());
          if (const auto *BOp = dyn_cast<BinaryOperator>(T))
            TJ["op"] = BOp->getOpcodeStr().str();
          BJ["term"] = std::move(TJ);
        }
        if (const Stmt *L = B->getLabel()) {
          json::Object LJ;
          LJ["k"] = L->getStmtClassName();
          LJ["node"] = visit(F, L);
          if (const auto *CS = dyn_cast<CaseStmt>(L)) {
            Expr::EvalResult R;
            if (CS->getLHS()->EvaluateAsInt(R, Ctx))
              LJ["lo"] = (int64_t)R.Val.getInt().getExtValue();
            if (CS->getRHS() && CS->getRHS()->EvaluateAsInt(R, Ctx))
              LJ["hi"] = (int64_t)R.Val.getInt().getExtValue();
            LJ["text"] = pretty(CS->getLHS());
          }
          BJ["label"] = std::move(LJ);
        }
        if (const Stmt *LT = B->getLoopTarget())
          BJ["loop_target"] = visit(F, LT);
        json::Array Ss;
        for (auto SI = B->succ_begin(); SI != B->succ_end(); ++SI) {
          json::Object SJ;
          const CFGBlock *R = SI->getReachableBlock();
          const CFGBlock *U = SI->getPossiblyUnreachableBlock();
          if (R)
            SJ["to"] = (int64_t)R->getBlockID();
          else
            SJ["to"] = nullptr;
          if (!R && U)
            SJ["unreachable_to"] = (int64_t)U->getBlockID();
          Ss.push_back(std::move(SJ));
        }
        BJ["succs"] = std::move(Ss);
        Bs.push_back(std::move(BJ));
      }
      CJ["blocks"] = std::move(Bs);
    }
    O["cfg"] = std::move(CJ);
    O["nodes"] = std::move(F.Nodes);
    return O;
  }
};

class Consumer : public ASTConsumer {
public:
  void HandleTranslationUnit(ASTContext &Ctx) override {
    Extractor X(Ctx);
    SourceManager &SM = Ctx.getSourceManager();
    json::Object Root;
    json::Array Fns, Globals, StaticLocals;
    json::Object Enums, Records, Typedefs;
    const FileEntry *Main = SM.getFileEntryForID(SM.getMainFileID());
    Root["main_file"] = Main ? Main->getName().str() : "";

    struct V : RecursiveASTVisitor<V> {
      Extractor &X;
      json::Array &SL;
      V(Extractor &X, json::Array &SL) : X(X), SL(SL) {}
      bool VisitVarDecl(VarDecl *VD) {
        if (VD->isStaticLocal()) {
          json::Object O;
          O["name"] = VD->getNameAsString();
          O["file"] = X.fileOf(VD->getLocation());
          O["line"] = (int64_t)X.lineOf(VD->getLocation());
          {
            QualType ET = VD->getType();
            while (const auto *AT = X.Ctx.getAsArrayType(ET))
              ET = AT->getElementType();
            O["const"] = VD->getType().isConstQualified() || ET.isConstQualified();
          }
          O["type"] = X.typeInfo(VD->getType());
          if (VD->hasInit())
            O["init"] = X.evalInit(VD->getInit());
          if (const auto *FD = dyn_cast<FunctionDecl>(VD->getDeclContext()))
            O["function"] = FD->getNameAsString();
          SL.push_back(std::move(O));
        }
        return true;
      }
    } SLV(X, StaticLocals);

    for (const Decl *D : Ctx.getTranslationUnitDecl()->decls()) {
      SourceLocation L = SM.getExpansionLoc(D->getLocation());
      bool InSystem = SM.isInSystemHeader(L);
      if (const auto *FD = dyn_cast<FunctionDecl>(D)) {
        if (FD->doesThisDeclarationHaveABody() && !InSystem) {
          Fns.push_back(X.doFunction(FD));
          SLV.TraverseDecl(const_cast<FunctionDecl *>(FD));
        }
      } else if (const auto *VD = dyn_cast<VarDecl>(D)) {
        if (InSystem)
          continue;
        json::Object O;
        O["name"] = VD->getNameAsString();
        O["id"] = X.declId(VD);
        O["file"] = X.fileOf(VD->getLocation());
        O["line"] = (int64_t)X.lineOf(VD->getLocation());
        O["type"] = X.typeInfo(VD->getType());
        QualType ET = VD->getType();
        while (const auto *AT = Ctx.getAsArrayType(ET))
          ET = AT->getElementType();
        O["const"] = VD->getType().isConstQualified() || ET.isConstQualified();
        O["static"] = VD->getStorageClass() == SC_Static;
        O["extern"] = VD->getStorageClass() == SC_Extern;
        O["definition"] =
            VD->isThisDeclarationADefinition() != VarDecl::DeclarationOnly;
        if (VD->hasInit())
          O["init"] = X.evalInit(VD->getInit());
        Globals.push_back(std::move(O));
      } else if (const auto *ED = dyn_cast<EnumDecl>(D)) {
        if (InSystem || !ED->isThisDeclarationADefinition())
          continue;
        json::Object Cs;
        json::Array Order;
        for (const EnumConstantDecl *EC : ED->enumerators()) {
          Cs[EC->getNameAsString()] = (int64_t)EC->getInitVal().getExtValue();
          Order.push_back(EC->getNameAsString());
        }
        std::string Name = ED->getNameAsString();
        if (Name.empty()) {
          if (const TypedefNameDecl *TD = ED->getTypedefNameForAnonDecl())
            Name = TD->getNameAsString();
          else
            Name = "anon@" + X.fileOf(ED->getLocation()) + ":" +
                   std::to_string(X.lineOf(ED->getLocation()));
        }
        Enums[Name] = json::Object{{"consts", std::move(Cs)},
                                   {"order", std::move(Order)}};
      } else if (const auto *RD = dyn_cast<RecordDecl>(D)) {
        if (InSystem || !RD->isThisDeclarationADefinition())
          continue;
        json::Array Fs;
        for (const FieldDecl *FD : RD->fields()) {
          json::Object FO;
          FO["name"] = FD->getNameAsString();
          FO["type"] = X.typeInfo(FD->getType());
          Fs.push_back(std::move(FO));
        }
        std::string Name = RD->getNameAsString();
        if (Name.empty())
          if (const TypedefNameDecl *TD = RD->getTypedefNameForAnonDecl())
            Name = TD->getNameAsString();
        Records[Name] = json::Object{{"fields", std::move(Fs)},
                                     {"union", RD->isUnion()},
                                     {"file", X.fileOf(RD->getLocation())},
                                     {"line", (int64_t)X.lineOf(RD->getLocation())}};
      } else if (const auto *TD = dyn_cast<TypedefNameDecl>(D)) {
        if (InSystem)
          continue;
        Typedefs[TD->getNameAsString()] = X.typeInfo(TD->getUnderlyingType());
      }
    }
    Root["functions"] = std::move(Fns);
    Root["globals"] = std::move(Globals);
    Root["static_locals"] = std::move(StaticLocals);
    Root["enums"] = std::move(Enums);
    Root["records"] = std::move(Records);
    Root["typedefs"] = std::move(Typedefs);
    std::error_code EC;
    llvm::raw_fd_ostream OS(OutFile, EC);
    if (EC) {
      llvm::errs() << "cannot open " << OutFile << ": " << EC.message() << "\n";
      exit(3);
    }
    OS << json::Value(std::move(Root)) << "\n";
  }
};

class Action : public ASTFrontendAction {
public:
  std::unique_ptr<ASTConsumer> CreateASTConsumer(CompilerInstance &,
                                                 StringRef) override {
    return std::make_unique<Consumer>();
  }
};

} // namespace

int main(int argc, const char **argv) {
  auto Opts = CommonOptionsParser::create(argc, argv, Cat);
  if (!Opts) {
    llvm::errs() << llvm::toString(Opts.takeError()) << "\n";
    return 2;
  }
  ClangTool Tool(Opts->getCompilations(), Opts->getSourcePathList());
  return Tool.run(newFrontendActionFactory<Action>().get());
}
