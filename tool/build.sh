#!/bin/sh
# Builds the libTooling fact extractor from files on disk (offline). ~20 s.
set -e
here=$(cd "$(dirname "$0")" && pwd)
out="$here/../build"
mkdir -p "$out"
if [ "$out/scpifacts" -nt "$here/scpifacts.cc" ]; then exit 0; fi
clang++ $(llvm-config-14 --cxxflags) -fno-rtti -O1 "$here/scpifacts.cc" -o "$out/scpifacts.tmp" \
  /usr/lib/llvm-14/lib/libclang-cpp.so.14 /usr/lib/llvm-14/lib/libLLVM-14.so
mv "$out/scpifacts.tmp" "$out/scpifacts"
