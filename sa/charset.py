"""Exact character sets of pure single-character predicates (DESIGN.md C13-T4).

The predicates of the lexer compare one character with constants; their accepted set is
computed exactly by evaluating the predicate's expression tree over the whole 8-bit domain
(256 values) - abstract interpretation with the concrete powerset domain of a byte."""
import re

CTYPE = {
    "isdigit": lambda c: 48 <= c <= 57,
    "isalpha": lambda c: 65 <= c <= 90 or 97 <= c <= 122,
    "isalnum": lambda c: 48 <= c <= 57 or 65 <= c <= 90 or 97 <= c <= 122,
    "isxdigit": lambda c: 48 <= c <= 57 or 65 <= c <= 70 or 97 <= c <= 102,
    "isspace": lambda c: c in (32, 9, 10, 11, 12, 13),
    "islower": lambda c: 97 <= c <= 122,
    "isupper": lambda c: 65 <= c <= 90,
}


CFUN = {
    "tolower": lambda c: c + 32 if 65 <= c <= 90 else c,
    "toupper": lambda c: c - 32 if 97 <= c <= 122 else c,
}


class CannotEvaluate(Exception):
    pass


def parse_class(expr, q=None):
    """'alpha', 'digit', 'alnum', 'xdigit', quoted literal chars, 0xNN, 0xNN-0xMM ranges, + and -"""
    toks = re.findall(r"'(?:[^'])*'|0x[0-9a-fA-F]+-0x[0-9a-fA-F]+|0x[0-9a-fA-F]+|alpha|digit|alnum|xdigit|Q|[+-]", expr)
    cur = set()
    op = "+"
    for t in toks:
        if t in "+-":
            op = t
            continue
        if t.startswith("'"):
            s = {ord(ch) for ch in t[1:-1]}
        elif "-" in t and t.startswith("0x"):
            lo, hi = t.split("-")
            s = set(range(int(lo, 16), int(hi, 16) + 1))
        elif t.startswith("0x"):
            s = {int(t, 16)}
        elif t == "Q":
            if q is None:
                raise CannotEvaluate("Q without a quote value")
            s = {q}
        else:
            s = {c for c in range(256) if CTYPE["is" + t](c)}
        cur = cur | s if op == "+" else cur - s
    return cur


def ceval(n, env, prog=None, depth=0):
    """concrete value of a side-effect-free integer expression"""
    s = n
    k = s.k
    if "$expr" in env and k in ("ArraySubscriptExpr", "UnaryOperator", "MemberExpr") and \
            s.src.replace(" ", "") in env["$expr"]:
        return env["$expr"][s.src.replace(" ", "")]
    if k in ("ParenExpr",):
        return ceval(s.child(0), env, prog, depth)
    if k in ("ImplicitCastExpr", "CStyleCastExpr"):
        v = ceval(s.child(0), env, prog, depth)
        if s.get("tk") in ("int", "bool") and s.get("bits") and isinstance(v, int):
            bits = s["bits"]
            if s.get("tk") == "bool":
                return int(bool(v))
            v &= (1 << bits) - 1
            if s.get("signed") and v >= 1 << (bits - 1):
                v -= 1 << bits
        return v
    if "cv" in s and k != "DeclRefExpr":
        return s["cv"]
    if k in ("IntegerLiteral", "CharacterLiteral"):
        return s["val"]
    if k == "DeclRefExpr":
        name = s["decl"]["name"]
        if s["decl"]["kind"] == "enumconst":
            return s["decl"]["val"]
        if name in env:
            return env[name]
        raise CannotEvaluate("free variable %s" % name)
    if k == "UnaryOperator" and s.get("op") == "*":
        q = s.child(0).strip_all_casts()
        if q.k == "UnaryOperator" and q.get("op") in ("++", "--") and q.get("postfix"):
            q = q.child(0).strip_all_casts()
        if q.k == "DeclRefExpr" and ("*" + q["decl"]["name"]) in env:
            return env["*" + q["decl"]["name"]]
        if "$c" in env and (s.child(0).strip().get("path") or "").endswith("pos"):
            return env["$c"]
        raise CannotEvaluate("dereference")
    if k == "UnaryOperator":
        v = ceval(s.child(0), env, prog, depth)
        return {"!": lambda x: int(not x), "-": lambda x: -x, "~": lambda x: ~x, "+": lambda x: x}[s["op"]](v)
    if k == "BinaryOperator" and s.get("op") == "&":
        # glibc's classification macros: (*__ctype_b_loc())[(int)(c)] & (unsigned short) _ISxxx - identified by the macro name
        # or, when another macro wraps the use, by the mask enumerator itself
        name = s.get("omacro") if s.get("omacro") in CTYPE else (s.get("macro") if s.get("macro") in CTYPE else None)
        if name is None:
            m_ = s.child(1).strip_all_casts()
            if m_.k == "DeclRefExpr" and m_.get("decl", {}).get("kind") == "enumconst" and m_["decl"]["name"].startswith("_IS"):
                cand = "is" + m_["decl"]["name"][3:]
                if cand in CTYPE:
                    name = cand
        arr = s.child(0).strip_all_casts()
        if name and arr.k == "ArraySubscriptExpr" and any(x.get("callee") == "__ctype_b_loc" for x in arr.child(0).walk()):
            c = ceval(arr.child(1), env, prog, depth)
            if not (-1 <= c <= 255):
                return 0
            return int(CTYPE[name](c))
    if k == "BinaryOperator":
        op = s["op"]
        if op == "&&":
            return int(bool(ceval(s.child(0), env, prog, depth)) and bool(ceval(s.child(1), env, prog, depth)))
        if op == "||":
            return int(bool(ceval(s.child(0), env, prog, depth)) or bool(ceval(s.child(1), env, prog, depth)))
        a, b = ceval(s.child(0), env, prog, depth), ceval(s.child(1), env, prog, depth)
        f = {"==": lambda: int(a == b), "!=": lambda: int(a != b), "<": lambda: int(a < b), "<=": lambda: int(a <= b),
             ">": lambda: int(a > b), ">=": lambda: int(a >= b), "+": lambda: a + b, "-": lambda: a - b,
             "&": lambda: a & b, "|": lambda: a | b, "^": lambda: a ^ b, "*": lambda: a * b}.get(op)
        if f is None:
            raise CannotEvaluate("operator %s" % op)
        return f()
    if k in ("ArraySubscriptExpr",) and "$str" in env:
        b0 = s.child(0).strip_all_casts()
        if b0.k == "DeclRefExpr" and b0["decl"]["name"] in env["$str"]:
            data = env["$str"][b0["decl"]["name"]]
            i_ = ceval(s.child(1), env, prog, depth)
            if not isinstance(i_, int) or i_ < 0:
                raise CannotEvaluate("index")
            v_ = data[i_] if i_ < len(data) else 0
            return v_ if v_ < 128 else v_ - 256            # read through plain (signed) char
    if k in ("ArraySubscriptExpr",) and "$c" in env and (s.get("path") or "").endswith("pos[0]"):
        return env["$c"]
    if k == "UnaryOperator" and s.get("op") == "*" and "$c" in env and (s.child(0).strip().get("path") or "").endswith("pos"):
        return env["$c"]
    if k == "ConditionalOperator":
        return ceval(s.child(1), env, prog, depth) if ceval(s.child(0), env, prog, depth) else ceval(s.child(2), env, prog, depth)
    if k == "CallExpr":
        name = s.get("callee")
        args = []
        for a in s.ch[1:]:
            try:
                args.append(ceval(a, env, prog, depth))
            except CannotEvaluate:
                args.append(None)   # e.g. the cursor pointer itself
        if name in ("strncasecmp", "OUR_strncasecmp", "strnicmp", "_strnicmp", "strncmp") and "$str" in env and len(s.ch) >= 4:
            # comparison of two string parameters of the function under evaluation
            ops = []
            for a_ in s.ch[1:3]:
                x_ = a_.strip_all_casts()
                if x_.k == "DeclRefExpr" and x_["decl"]["name"] in env["$str"]:
                    ops.append(env["$str"][x_["decl"]["name"]])
                else:
                    raise CannotEvaluate("string argument of %s" % name)
            n_ = args[2]
            if n_ is None:
                raise CannotEvaluate("length argument of %s" % name)
            fold = CFUN["tolower"] if name != "strncmp" else (lambda c: c)
            for i_ in range(n_):
                c1 = ops[0][i_] if i_ < len(ops[0]) else 0
                c2 = ops[1][i_] if i_ < len(ops[1]) else 0
                if fold(c1) != fold(c2):
                    return fold(c1) - fold(c2)
                if c1 == 0:
                    return 0
            return 0
        if name in CFUN and args and args[0] is not None:
            return CFUN[name](args[0]) if 0 <= args[0] <= 255 else args[0]
        if name in CTYPE:
            c = args[0]
            if not (-1 <= c <= 255):
                # outside the domain of <ctype.h>: undefined; C01-U1 reports it. Treat as false.
                return 0
            return int(CTYPE[name](c))
        if prog is not None and name and depth < 4:
            f = prog.fn(name)
            if f is not None:
                return run_function(f, args, prog, depth + 1, env.get("$c"))
        raise CannotEvaluate("call %s" % name)
    raise CannotEvaluate(k)


def run_function(f, args, prog=None, depth=0, cur_char=None):
    """interpret a small pure function (the predicates) on concrete arguments; predicates with loops, locals or const
    tables go to the general interpreter (sa/interp.py)"""
    try:
        return _run_simple(f, args, prog, depth, cur_char)
    except CannotEvaluate as e:
        if prog is None or any(a is None for a in args):
            raise
        from . import interp as I
        try:
            v = I.Machine(prog).run(f, list(args))
        except I.Stuck as e2:
            raise CannotEvaluate("%s; %s" % (e, e2))
        if isinstance(v, I.Ptr):
            return 1
        if not isinstance(v, int):
            raise CannotEvaluate("non-integer result of %s" % f.name)
        return v


def _run_simple(f, args, prog=None, depth=0, cur_char=None):
    env = {p["name"]: a for p, a in zip(f.params, args) if a is not None}
    if cur_char is not None:
        env["$c"] = cur_char
    b = f.entry
    steps = 0
    while True:
        steps += 1
        if steps > 200:
            raise CannotEvaluate("loop in %s" % f.name)
        for e in b.elems:
            if e.k == "ReturnStmt":
                return ceval(e.child(0), env, prog, depth) if e.ch else 0
            if e.k in ("BinaryOperator", "CompoundAssignOperator", "UnaryOperator") and \
                    (e.get("op") in ("=", "+=", "-=", "++", "--")):
                raise CannotEvaluate("store in predicate %s" % f.name)
        live = [(i, s) for i, s in enumerate(b.succs) if s is not None]
        if not live:
            raise CannotEvaluate("fell off %s" % f.name)
        if len(b.succs) == 2 and b.cond is not None and b.term_kind != "SwitchStmt":
            v = ceval(b.cond, env, prog, depth)
            nxt = b.succs[0] if v else b.succs[1]
            if nxt is None:
                raise CannotEvaluate("pruned edge taken in %s" % f.name)
            b = nxt
        else:
            b = live[0][1]


def byte_as_char(b):
    """value of a byte read through plain (signed) char and promoted to int"""
    return b if b < 128 else b - 256


def predicate_set(f, prog, signed_char=True, extra_args=()):
    out = set()
    for b in range(256):
        c = byte_as_char(b) if signed_char else b
        if run_function(f, [c] + list(extra_args), prog):
            out.add(b)
    return out


def run_to_branch(f, start, env, target, prog=None, limit=400):
    """interpret straight-line code with stores to scalar locals from block `start` under the concrete
    environment `env` until the branch whose condition node is `target`; returns the condition's value.
    Domain: one concrete value per scalar - used only over exhaustively enumerated byte inputs."""
    env = dict(env)
    b = start
    steps = 0
    while True:
        steps += 1
        if steps > limit:
            raise CannotEvaluate("loop in %s" % f.name)
        for e in b.elems:
            op = e.get("op")
            if e.k in ("BinaryOperator", "CompoundAssignOperator") and op in ("=", "+=", "-=", "|=", "&=", "^="):
                t = e.child(0).strip()
                if t.k != "DeclRefExpr" or t.get("tk") == "ptr":
                    if t.get("tk") == "ptr":
                        continue
                    raise CannotEvaluate("store to %s" % t.src)
                name = t["decl"]["name"]
                r = ceval(e.child(1), env, prog)
                if op != "=":
                    cur = env.get(name)
                    if cur is None:
                        raise CannotEvaluate("compound store to unknown %s" % name)
                    r = {"+=": cur + r, "-=": cur - r, "|=": cur | r, "&=": cur & r, "^=": cur ^ r}[op]
                bits, sg = t.get("bits"), t.get("signed")
                if bits and isinstance(r, int):
                    r &= (1 << bits) - 1
                    if sg and r >= 1 << (bits - 1):
                        r -= 1 << bits
                env[name] = r
            elif e.k == "UnaryOperator" and op in ("++", "--"):
                t = e.child(0).strip()
                if t.get("tk") == "ptr":
                    continue
                if t.k == "DeclRefExpr" and t["decl"]["name"] in env:
                    env[t["decl"]["name"]] += 1 if op == "++" else -1
            elif e.k == "DeclStmt":
                for d in e.get("decls", []):
                    if "init" in d and d["type"].get("tk") in ("int", "bool", "enum"):
                        env[d["name"]] = ceval(f.nodes[d["init"]], env, prog)
            elif e.k == "ReturnStmt":
                raise CannotEvaluate("returned before the comparison")
        if b.cond is not None and len(b.succs) == 2 and b.term_kind != "SwitchStmt":
            c = b.cond
            if c is target or any(x is target for x in c.walk()):
                return ceval(target, env, prog)
            v = ceval(c, env, prog)
            b = b.succs[0] if v else b.succs[1]
            if b is None:
                raise CannotEvaluate("pruned edge")
        else:
            live = [s_ for s_ in b.succs if s_ is not None]
            if not live:
                raise CannotEvaluate("fell off %s" % f.name)
            b = live[0]


def run_with_strings(f, args, strings, prog=None, limit=2000):
    """evaluate a small function (loops, stores to scalar locals, reads of its string parameters) on one point of an
    exhaustively enumerated finite input domain: `strings` maps parameter names to byte sequences (bytes beyond the end read
    as 0), `args` gives the scalar arguments by name.  Returns the value returned."""
    env = dict(args)
    env["$str"] = strings
    b = f.entry
    steps = 0
    while True:
        steps += 1
        if steps > limit:
            raise CannotEvaluate("no termination within %d blocks in %s" % (limit, f.name))
        for e in b.elems:
            op = e.get("op")
            if e.k == "ReturnStmt":
                return ceval(e.child(0), env, prog) if e.ch else 0
            if e.k in ("BinaryOperator", "CompoundAssignOperator") and op in ("=", "+=", "-="):
                t = e.child(0).strip()
                if t.k != "DeclRefExpr" or t.get("tk") == "ptr":
                    raise CannotEvaluate("store to %s" % t.src)
                r = ceval(e.child(1), env, prog)
                name = t["decl"]["name"]
                if op != "=":
                    r = env[name] + r if op == "+=" else env[name] - r
                env[name] = r
            elif e.k == "UnaryOperator" and op in ("++", "--"):
                t = e.child(0).strip()
                if t.k != "DeclRefExpr" or t.get("tk") == "ptr" or t["decl"]["name"] not in env:
                    raise CannotEvaluate("step of %s" % t.src)
                env[t["decl"]["name"]] += 1 if op == "++" else -1
            elif e.k == "DeclStmt":
                for d in e.get("decls", []):
                    if "init" in d and d["type"].get("tk") in ("int", "bool", "enum"):
                        env[d["name"]] = ceval(f.nodes[d["init"]], env, prog)
        if b.cond is not None and len(b.succs) == 2 and b.term_kind != "SwitchStmt":
            v = ceval(b.cond, env, prog)
            b = b.succs[0] if v else b.succs[1]
            if b is None:
                raise CannotEvaluate("pruned edge")
        else:
            live = [s_ for s_ in b.succs if s_ is not None]
            if not live:
                raise CannotEvaluate("fell off %s" % f.name)
            b = live[0]
