"""Alias-resolved access paths into the context structure and must-stored analysis."""
import re

from .cfg import store_target, call_args, PointGraph

_IDX = re.compile(r"\[[^\]]*\]")


def norm(path):
    """drop array indices, unify -> and ."""
    return _IDX.sub("[]", path)


def aliases(fn):
    """local pointer variables that hold the address of a sub-object of a parameter (or of another
    alias): {local name: full path of the object pointed to}; None value = assigned ambiguously"""
    al = {}

    def resolve(p):
        # p is a path possibly starting with an alias root
        m = re.match(r"(\w+)(->|\.)?(.*)", p)
        root = m.group(1)
        if root in al and al[root]:
            rest = m.group(3)
            if m.group(2) == "->":
                return al[root] + "." + rest
        return p

    cands = []
    for n in fn.nodes.values():
        if n.k == "DeclStmt":
            for d in n.get("decls", []):
                if "init" in d and d["type"].get("tk") == "ptr":
                    cands.append((d["name"], fn.nodes[d["init"]], n))
        elif n.k == "BinaryOperator" and n.get("op") == "=":
            t = n.child(0).strip()
            if t.k == "DeclRefExpr" and t["decl"]["kind"] == "local" and t.get("tk") == "ptr":
                cands.append((t["decl"]["name"], n.child(1), n))
    cands.sort(key=lambda c: (c[2].get("line", 0), c[2].get("col", 0)))
    for name, init, n in cands:
        p = init.strip_all_casts().get("path")
        if p and p.startswith("&") and ("->" in p or "." in p or "[" in p):
            full = resolve(p[1:])
            if name in al and al[name] != full:
                al[name] = None
            else:
                al[name] = full
        else:
            if name in al:
                al[name] = None
    return {k: v for k, v in al.items() if v}, resolve


def full_path(fn, node, resolve=None):
    p = node.get("path")
    if not p:
        return None
    if resolve is None:
        _, resolve = aliases(fn)
    return norm(resolve(p))


def accesses(fn):
    """(node, full path, kind) for every maximal member-access chain; kind in 'read', 'write',
    'rw', 'addr'"""
    al, resolve = aliases(fn)
    out = []
    for n in fn.nodes.values():
        if n.k not in ("MemberExpr",):
            continue
        par = fn.parent_of(n)
        # maximal chain: parent is not a MemberExpr/ArraySubscript continuing the path
        cur = n
        while par is not None and par.k in ("ParenExpr",):
            cur, par = par, fn.parent_of(par)
        if par is not None and par.k == "MemberExpr":
            continue
        p = n.get("path")
        if not p:
            continue
        top = cur
        while par is not None and par.k in ("ImplicitCastExpr", "ParenExpr", "ArraySubscriptExpr") and \
                (par.k != "ImplicitCastExpr" or par.get("ck") in ("ArrayToPointerDecay", "NoOp")):
            if par.k == "ArraySubscriptExpr" and par.child(0).strip().id != top.strip().id and \
                    par.child(0).id != top.id:
                break
            top, par = par, fn.parent_of(par)
        kind = "read"
        if par is not None:
            t = store_target(par)
            if t is not None and t.id == top.strip().id:
                kind = "write" if par.get("op") == "=" else "rw"
            elif par.k == "UnaryOperator" and par.get("op") == "&":
                kind = "addr"
        out.append((n, norm(resolve(p)), kind))
    return out


def covers(required, stored):
    for s in stored:
        if required == s or required.startswith(s + ".") or required.startswith(s + "->") or \
                required.startswith(s + "[]"):
            return True
    return False


def return_stores(fn):
    """{True: set, False: set}: full paths stored on every path to a `return <nonzero const>` /
    `return <zero const>` of fn (None when no such return exists)"""
    pg, st = must_stored(fn)
    out = {True: None, False: None}
    for n in fn.nodes.values():
        if n.k == "ReturnStmt" and n.ch:
            v = n.child(0).get("cv", n.child(0).strip_all_casts().get("cv"))
            if v is None:
                continue
            key = bool(v)
            p = pg.before(n)
            if p is None or p not in st:
                continue
            cur = {x for x in st[p] if "->" in x or "." in x}
            out[key] = cur if out[key] is None else (out[key] & cur)
    return out


_EXIT_STORES = {}


def translate(path, params, args, resolve):
    """path over callee parameter names -> path in the caller, or None"""
    import re as _re
    m = _re.match(r"(\*?)(\w+)(.*)", path)
    if not m:
        return None
    star, root, rest = m.groups()
    if root not in params:
        return None
    a = args[params.index(root)] if params.index(root) < len(args) else None
    if a is None:
        return None
    ap = a.strip_all_casts().get("path")
    if not ap:
        return None
    if star:
        base = ap[1:] if ap.startswith("&") else "*" + ap
        return norm(resolve(base + rest)) if not rest.startswith("->") else None
    if not rest:
        return None
    if rest.startswith("->"):
        if ap.startswith("&"):
            return norm(resolve(ap[1:] + "." + rest[2:]))
        return norm(resolve(ap + rest))
    return None


def exit_stores(prog, g, stack=()):
    """paths (over g's parameter names) stored on EVERY path of g from entry to exit"""
    key = (id(prog), g.name)
    if key in _EXIT_STORES:
        return _EXIT_STORES[key]
    if g.name in stack:
        return set()
    pg, st = must_stored(g, prog=prog, _stack=stack + (g.name,))
    out = set(st.get(pg.exit, frozenset()))
    _EXIT_STORES[key] = out
    return out


def must_stored(fn, reset_calls=(), addr_counts=False, callee_summaries=None, prog=None, _stack=()):
    """forward must-analysis of 'full path was stored'; `reset_calls`: callee names at which the
    set is emptied (start of an iteration); addr_counts: passing &path to a call counts as a
    store (the callee fills the object)."""
    al, resolve = aliases(fn)
    pg = PointGraph(fn)

    def transfer(state, e):
        if e.kind != "elem":
            lab = e.label
            if callee_summaries and lab and lab[0] in ("true", "false") and lab[1] is not None:
                from .cfg import cond_facts
                add = set()
                for atom, pol in cond_facts(lab[1], lab[0] == "true"):
                    if atom.k == "CallExpr" and atom.get("callee") in callee_summaries:
                        a = call_args(atom)
                        if a and a[0].strip_all_casts().get("path") == "context":
                            got = callee_summaries[atom["callee"]].get(bool(pol))
                            if got:
                                add |= got
                if add:
                    return state | frozenset(add)
            return state
        n = e.node
        if n.k == "CallExpr":
            if n.get("callee") in reset_calls:
                return frozenset()
            if prog is not None and n.get("callee"):
                g = prog.fn(n["callee"])
                if g is not None and g.static and g.name != fn.name:
                    es = exit_stores(prog, g, _stack + (fn.name,))
                    params = [p_["name"] for p_ in g.params]
                    add = set()
                    for q in es:
                        t_ = translate(q, params, call_args(n), resolve)
                        if t_:
                            add.add(t_)
                    if add:
                        state = state | frozenset(add)
            if addr_counts:
                add = set()
                for a in call_args(n):
                    p = a.strip_all_casts().get("path")
                    if p and p.startswith("&"):
                        add.add(norm(resolve(p[1:])))
                if add:
                    return state | frozenset(add)
            return state
        if n.k == "DeclStmt":
            add = {d["name"] for d in n.get("decls", []) if "init" in d}
            return state | frozenset(add) if add else state
        t = store_target(n)
        if t is not None and n.get("op") == "=":
            p = t.get("path")
            if p:
                q = norm(resolve(p))
                state = state | frozenset({q})
                # a record all of whose fields have been stored has been stored (token invalidated field by field)
                if prog is not None and t.k == "MemberExpr" and t.get("record"):
                    rec = prog.records.get(t["record"])
                    fld = t.get("member")
                    if rec and fld and (q.endswith("." + fld) or q.endswith("->" + fld)):
                        base = q[:-(len(fld) + (1 if q.endswith("." + fld) else 2))]
                        sep = "." if q.endswith("." + fld) else "->"
                        if all((base + sep + g["name"]) in state for g in rec["fields"]):
                            state = state | frozenset({base})
                return state
        return state

    return pg, pg.must(transfer)
