"""Bounds engine (DESIGN.md 3.3): for every write site of a function (array/pointer store, call
with a known write extent) decide `0 <= offset` and `offset + extent <= capacity` from linear
facts that hold on every path to the site.

Paths are enumerated over the CFG; integer variables are tracked as linear expressions over
entry symbols, branch conditions become linear constraints, loops are summarised by havocking
the variables they modify and assuming candidate invariants that were verified inductive
(Houdini).  Entailment is Fourier-Motzkin over Q (sa/linear.py).  Facts the engine cannot
interpret are DROPPED (sound: fewer facts prove less).  A violation is reported only with a
small integer model of the path's facts and the negated obligation on a path where every
fact was understood and no summarised loop is involved; otherwise the site is undecided."""
from . import cfg as C
from .linear import Lin, le, lt, entails, fm_infeasible, find_model

INT_TK = ("int", "bool", "enum")


class Site:
    def __init__(self, node, kind, what):
        self.node, self.kind, self.what = node, kind, what
        self.results = []   # (proved, complete, involves_havoc, obligation text, facts, witness)

    def verdict(self):
        if not self.results:
            return "UNREACHED", None
        if all(r[0] for r in self.results):
            return "HOLDS", None
        for r in self.results:
            if not r[0] and r[5] is not None:
                return "VIOLATED", r
        bad = [r for r in self.results if not r[0]]
        return "UNDECIDED", bad[0]


class State:
    def __init__(self):
        self.env = {}        # scalar path -> Lin
        self.cons = []       # Lin <= 0
        self.slen = {}       # buffer key -> Lin | None
        self.ptr = {}        # pointer variable path -> (buffer key, Lin offset)
        self.vals = {}       # node id -> Lin (value of an evaluated expression element)
        self.pvals = {}      # node id -> (buffer key, offset) of an evaluated pointer expression
        self.decisions = {}  # cond node id -> bool
        self.complete = True
        self.dropped = set()   # symbols mentioned by facts that could not be interpreted
        self.neq = []          # linear expressions known to be non-zero (kept for witness search only)
        self.havoc = set()
        self.nonneg = set()
        self.visits = {}
        self.trace = []

    def clone(self):
        s = State()
        s.env = dict(self.env)
        s.cons = list(self.cons)
        s.slen = dict(self.slen)
        s.ptr = dict(self.ptr)
        s.vals = dict(self.vals)
        s.pvals = dict(self.pvals)
        s.decisions = dict(self.decisions)
        s.complete = self.complete
        s.dropped = set(self.dropped)
        s.neq = list(self.neq)
        s.havoc = set(self.havoc)
        s.nonneg = set(self.nonneg)
        s.visits = dict(self.visits)
        s.trace = list(self.trace)
        if hasattr(self, "pending"):
            s.pending = dict(self.pending)
        if hasattr(self, "nullptr"):
            s.nullptr = set(self.nullptr)
        if hasattr(self, "nonempty"):
            s.nonempty = set(self.nonempty)
        if hasattr(self, "nullcase"):
            s.nullcase = dict(self.nullcase)
        if hasattr(self, "nothing_written"):
            s.nothing_written = dict(self.nothing_written)
        if hasattr(self, "prechecked"):
            s.prechecked = dict(self.prechecked)
        return s


class Analysis:
    def __init__(self, prog, fn, caps, contracts, assume=None, max_paths=4000, loads=True, elem_scalars=False,
                 ghost=None, nowrap=False, ptr_assume=None, exit_obligations=None):
        """caps: {buffer key: capacity (parameter/field path, or int)} for pointer parameters and fields;
        local arrays are discovered.  contracts: callee -> dict (see spec/bounds_contracts.json).
        assume: list of (path, op, value) preconditions, e.g. ('fifo->size', '>=', 1)."""
        self.prog, self.fn = prog, fn
        self.caps = dict(caps)
        self.contracts = contracts
        self.assume = assume or []
        self.ptr_assume = ptr_assume or {}
        self.exit_obligations = exit_obligations or []
        self.elem_scalars = elem_scalars
        self.symbolic_bases = elem_scalars
        self.ghost = ghost or {}
        self.nowrap = nowrap
        self.loads = loads
        self.sites = {}
        self.fresh = 0
        self.max_paths = max_paths
        self.npaths = 0
        self.loops = {h.id: body for h, body in C.loops(fn)}
        self.loop_mod = {}
        self.unsigned = {}
        for n in fn.nodes.values():
            if n.k == "DeclStmt":
                for d in n.get("decls", []):
                    if d["type"].get("tk") == "array" and d["type"].get("n") is not None:
                        self.caps[d["name"]] = d["type"]["n"]
        for hid, body in self.loops.items():
            mods = set()
            pmods = set()
            bufw = set()
            for bid in body:
                for e in fn.blocks[bid].elems:
                    t = C.store_target(e)
                    if t is not None and t.get("path"):
                        if t.get("tk") == "ptr":
                            pmods.add(t["path"])
                        else:
                            mods.add(t["path"])
                    if e.k == "DeclStmt":
                        for d in e.get("decls", []):
                            mods.add(d["name"])
                    if e.k == "CallExpr":
                        for a in C.call_args(e):
                            p = a.strip_all_casts().get("path") or ""
                            if p.startswith("&"):
                                mods.add(p[1:])
                            elif a.strip_all_casts().get("tk") in ("ptr", "array") and p:
                                bufw.add(p)
            self.loop_mod[hid] = (mods, pmods, bufw)
        self.invariants = {}
        self.infer_depth = 0
        self.debug = False
        self.call_lb = {}
        self.inv_cache = {}
        self.related = set()
        for n in fn.nodes.values():
            if n.k in ("BinaryOperator", "CompoundAssignOperator") and n.get("op") in (
                    "<", "<=", ">", ">=", "==", "!=", "=", "+=", "-="):
                ps = set()
                for side in (n.child(0), n.child(1)):
                    for x in side.walk():
                        if x.get("path") and x.k in ("DeclRefExpr", "MemberExpr", "ArraySubscriptExpr") and x.get("tk") in INT_TK:
                            ps.add(x["path"])
                for a in ps:
                    for b in ps:
                        if a != b:
                            self.related.add((a, b))

    # ---- helpers ------------------------------------------------------------------------
    def opaque(self, st, base, nonneg=False):
        """value of something the engine does not model (division, unknown call): never part of a witness"""
        return self.new_sym(st, base, havoc=True, nonneg=nonneg)

    def new_sym(self, st, base, havoc=False, nonneg=False):
        self.fresh += 1
        s = "%s#%d" % (base, self.fresh)
        if havoc:
            st.havoc.add(s)
        if nonneg:
            st.cons.append(Lin.sym(s).scale(-1))
            st.nonneg.add(s)
        return Lin.sym(s)

    def is_unsigned(self, n):
        return n.get("tk") in ("int", "bool", "enum") and n.get("signed") is False

    def var(self, st, n):
        """Lin value of a scalar lvalue read"""
        p = n.get("path")
        if p is None:
            return None
        if p in st.env:
            return st.env[p]
        s = p + "@0"
        if "[" in p:
            # an array element addressed by a variable whose value is a known constant here (an unrolled counting loop): the
            # entry symbol names the element, not the expression - `len[i]` is len[0] in one iteration and len[1] in the next
            import re as _re

            def conc(m):
                cur = st.env.get(m.group(1))
                return "[%d]" % cur.k if cur is not None and cur.is_const() else m.group(0)
            s = _re.sub(r"\[([A-Za-z_]\w*)\]", conc, p) + "@0"
        v = Lin.sym(s)
        st.env[p] = v
        if self.is_unsigned(n) and s not in st.nonneg:
            st.cons.append(v.scale(-1))
            st.nonneg.add(s)
        return v

    def value(self, st, n):
        """Lin value of an integer expression node (children already evaluated as elements)"""
        if n.id in st.vals:
            return st.vals[n.id]
        s = n
        while s.k in ("ParenExpr",) or (s.k in ("ImplicitCastExpr", "CStyleCastExpr") and
                                        s.get("ck") in ("LValueToRValue", "NoOp", "IntegralCast", "IntegralToBoolean")):
            if s.k != "ParenExpr" and s.get("ck") == "IntegralCast":
                inner = s.child(0)
                # narrowing or sign-changing casts are not linear unless the operand is known to fit
                ib, ob = inner.get("bits") or 0, s.get("bits") or 0
                if ob < ib and ob < 32:
                    return None
                isg, osg = inner.get("signed"), s.get("signed")
                if inner.get("tk") == "int" and s.get("tk") == "int" and isg is not None and osg is not None and isg != osg:
                    if isg and not osg:
                        # signed -> unsigned: identity only for non-negative operands
                        v0 = self.value(st, inner)
                        if v0 is None or not entails(st.cons, v0.scale(-1)):
                            return None
                        return v0
                    if not isg and osg and ob <= ib:
                        # unsigned -> signed of the same or smaller width: may become negative
                        return None
            s = s.child(0)
            if s.id in st.vals:
                return st.vals[s.id]
        c = C.const_of(s)
        if c is not None and s.k not in ("DeclRefExpr", "MemberExpr"):
            return Lin.const(c)
        if s.k in ("IntegerLiteral", "CharacterLiteral"):
            return Lin.const(s["val"])
        if s.k == "DeclRefExpr":
            if s["decl"]["kind"] == "enumconst":
                return Lin.const(s["decl"]["val"])
            if s.get("tk") in INT_TK:
                return self.var(st, s)
            return None
        if s.k == "MemberExpr" and s.get("tk") in INT_TK and "[" not in (s.get("path") or "["):
            return self.var(st, s)
        if s.k == "ArraySubscriptExpr" and s.get("tk") in INT_TK and s.get("path") and self.elem_scalars:
            # element of a local array addressed by an unmodified index: tracked like a scalar
            return self.var(st, s)
        if s.k == "UnaryOperator" and s.get("op") == "*" and s.get("tk") in INT_TK and s.get("path"):
            return self.var(st, s)
        if s.k == "UnaryExprOrTypeTraitExpr" and "cv" in s:
            return Lin.const(s["cv"])
        if s.k == "BinaryOperator" and s.get("op") == "-" and s.child(0).strip_all_casts().get("tk") in ("ptr", "array") \
                and s.child(1).strip_all_casts().get("tk") in ("ptr", "array"):
            pa, pb = self.pointer(st, s.child(0)), self.pointer(st, s.child(1))
            if pa is not None and pb is not None and pa[0] == pb[0]:
                return pa[1] - pb[1]
            return None
        if s.k == "BinaryOperator" and s.get("op") in ("+", "-"):
            a, b = self.value(st, s.child(0)), self.value(st, s.child(1))
            if a is None or b is None:
                return None
            if s["op"] == "+":
                return a + b
            r = a - b
            if self.is_unsigned(s) and (s.get("bits") or 0) >= 32:
                # unsigned subtraction wraps unless minuend >= subtrahend is known
                if not entails(st.cons, le(b, a)):
                    st.complete = False
                    self.last_wrap = s
                    return None
            return r
        if s.k in ("BinaryOperator", "CompoundAssignOperator") and s.get("op") in ("%", "%=") and self.is_unsigned(s) and \
                (s.get("bits") or 0) >= 32 and s.id not in getattr(st, "modseen", ()):
            # ring arithmetic: `(a - b) % m` on unsigned operands is the mathematical (a - b) mod m only if a - b does not
            # wrap (or m divides 2^bits); a wrapped difference is off by 2^bits mod m
            st.modseen = set(getattr(st, "modseen", ())) | {s.id}
            wit = None
            mval = self.value(st, s.child(1)) if len(s.ch) > 1 else None
            if mval is not None and not mval.is_const():
                q3 = st.clone()
                q3.cons.append(le(mval, Lin.const(3)))
                q3.cons.append(le(Lin.const(3), mval))          # a modulus that does not divide 2^bits
                if not fm_infeasible(q3.cons):
                    wit = self.wrap_witness(q3, s.child(0))
            elif mval is not None and mval.is_const() and mval.k > 0 and (mval.k & (mval.k - 1)) == 0:
                wit = None                                       # constant power of two: wrapping is harmless
                mval = "pow2"
            if wit is None and mval != "pow2":
                wit = self.wrap_witness(st, s.child(0))
            if wit is not None:
                site = self.sites.setdefault(s.id, Site(s, "arith", s.src))
                site.results.append((False, True, False,
                                     "the dividend of this modulo contains an unsigned subtraction that can wrap: the remainder is then "
                                     "off by 2^%d mod the modulus (right only when the modulus is a power of two)" % s["bits"], None, wit))
        if s.k == "BinaryOperator" and s.get("op") == "*":
            a, b = self.value(st, s.child(0)), self.value(st, s.child(1))
            if a is not None and b is not None:
                if a.is_const():
                    return b.scale(a.k)
                if b.is_const():
                    return a.scale(b.k)
            return None
        if s.k == "UnaryOperator" and s.get("op") == "-":
            a = self.value(st, s.child(0))
            if a is None or self.is_unsigned(s):
                return None
            return a.scale(-1)
        if s.k == "ConditionalOperator":
            d = st.decisions.get(eff_cond(s.child(0)).id)
            if d is True:
                return self.value(st, s.child(1))
            if d is False:
                return self.value(st, s.child(2))
            return None
        if s.k == "BinaryOperator" and s.get("op") == "=":
            return self.value(st, s.child(1))
        return None

    def pointer(self, st, n):
        """(buffer key, offset Lin) of a pointer-valued expression"""
        if n.id in st.pvals:
            return st.pvals[n.id]
        s = n
        while s.k in ("ParenExpr", "ImplicitCastExpr", "CStyleCastExpr"):
            s = s.child(0)
            if s.id in st.pvals:
                return st.pvals[s.id]
        p = s.get("path")
        if s.k == "BinaryOperator" and s.get("op") == "=" and s.get("tk") == "ptr":
            lp = s.child(0).strip().get("path")
            if lp in st.ptr:
                return st.ptr[lp]
            return self.pointer(st, s.child(1))
        if s.k in ("DeclRefExpr", "MemberExpr", "ArraySubscriptExpr") and p and s.get("tk") in ("ptr", "array"):
            if p in st.ptr:
                return st.ptr[p]
            if p in self.caps:
                return (p, Lin.const(0))
            if self.symbolic_bases:
                st.ptr[p] = (p + "@base", Lin.const(0))
                return st.ptr[p]
            return None
        if s.k == "UnaryOperator" and s.get("op") == "*" and p and p in st.ptr:
            return st.ptr[p]
        if s.k == "BinaryOperator" and s.get("op") in ("+", "-"):
            a = self.pointer(st, s.child(0))
            b = self.value(st, s.child(1))
            if a is None and s["op"] == "+":
                a = self.pointer(st, s.child(1))
                b = self.value(st, s.child(0))
            if a is None or b is None:
                return None
            return (a[0], a[1] + b if s["op"] == "+" else a[1] - b)
        if s.k == "UnaryOperator" and s.get("op") == "&":
            inner = s.child(0).strip_all_casts()
            if inner.k == "ArraySubscriptExpr":
                a = self.pointer(st, inner.child(0))
                b = self.value(st, inner.child(1))
                if a is not None and b is not None:
                    return (a[0], a[1] + b)
            return None
        return None

    def cap_of(self, st, key):
        c = self.caps.get(key)
        if c is None:
            return None
        if isinstance(c, int):
            return Lin.const(c)
        if c in st.env:
            return st.env[c]
        v = Lin.sym(c + "@0")
        st.env[c] = v
        if (c + "@0") not in st.nonneg:
            st.cons.append(v.scale(-1))
            st.nonneg.add(c + "@0")
        return v

    # ---- obligations ----------------------------------------------------------------------
    _SIZES = {"char": 1, "signed char": 1, "unsigned char": 1, "void": 1, "short": 2, "unsigned short": 2, "int": 4,
              "unsigned int": 4, "long": 8, "unsigned long": 8, "long long": 8, "unsigned long long": 8, "float": 4, "double": 8}

    def literal_lengths(self, arg):
        """lengths of the string literals a source argument can be: a literal, a conditional of literals, or a local
        pointer that is only ever assigned such expressions; None when anything else can reach it"""
        def of(e, depth=0):
            e = e.strip_all_casts()
            while e.k == "ParenExpr":
                e = e.child(0).strip_all_casts()
            if e.k == "StringLiteral":
                return {len(e.get("str", ""))}
            if e.k == "ConditionalOperator":
                a, b = of(e.child(1), depth), of(e.child(2), depth)
                return (a | b) if a and b else None
            if e.k == "DeclRefExpr" and e.get("decl", {}).get("kind") == "local" and depth < 2:
                name = e["decl"]["name"]
                out = set()
                for nn, t in C.stores(self.fn):
                    if t.get("path") == name:
                        if nn.get("op") != "=":
                            return None
                        r = of(nn.child(1), depth + 1)
                        if not r:
                            return None
                        out |= r
                for dn in self.fn.nodes.values():
                    if dn.k == "DeclStmt":
                        for dd in dn.get("decls", []):
                            if dd["name"] == name and "init" in dd:
                                r = of(self.fn.nodes[dd["init"]], depth + 1)
                                if not r:
                                    return None
                                out |= r
                return out or None
            return None
        return of(arg)

    def elem_bytes(self, arg):
        """size in bytes of what a pointer argument points to (1 when unknown: capacities then count bytes)"""
        x = arg
        while x.k in ("ImplicitCastExpr", "CStyleCastExpr", "ParenExpr") and x.ch:
            if x.get("ck") in ("BitCast",) and x.k == "ImplicitCastExpr":
                x = x.child(0)          # the conversion to void * at the call: look at the original pointer
                continue
            if x.k == "CStyleCastExpr":
                break
            x = x.child(0)
        ct = (x.get("ct") or "").replace("const ", "").replace("volatile ", "").strip()
        if ct.endswith("*"):
            ct = ct[:-1].strip()
        elif "[" in ct:
            ct = ct[:ct.index("[")].strip()
        else:
            return 1
        return self._SIZES.get(ct, 1)

    def oblige(self, st, node, kind, key, offset, extent, text, scale=1):
        """0 <= offset and offset + extent <= cap(key)"""
        site = self.sites.setdefault(node.id, Site(node, kind, text))
        cap = self.cap_of(st, key)
        if cap is None or offset is None or extent is None:
            if cap is not None and node.k == "CallExpr":
                # the amount (or the place) is an unsigned difference that can wrap: with the witness the callee is told it may
                # write about 2^bits bytes
                for a_ in C.call_args(node):
                    wit = self.wrap_witness(st, a_)
                    if wit is not None:
                        site.results.append((False, True, False,
                                             "the argument `%s` is an unsigned difference that wraps: the callee is handed a bound of "
                                             "about 2^%d and writes as if the buffer were endless" % (a_.src, a_.strip_all_casts().get("bits") or 64),
                                             None, wit))
                        return
            site.results.append((False, False, True, "capacity/offset/extent of `%s` not expressible" % text,
                                 None, None))
            return
        if scale and scale > 1:
            cap, offset = cap.scale(scale), offset.scale(scale)
        goals = [("offset >= 0", offset.scale(-1)), ("offset + extent <= capacity", le(offset + extent, cap))]
        for gtxt, g in goals:
            if entails(st.cons, g):
                site.results.append((True, st.complete, False, gtxt, None, None))
                continue
            syms = g.syms()
            hv = bool(syms & st.havoc) or any((c.syms() & st.havoc) and (c.syms() & syms) for c in st.cons)
            wit = None
            if not hv:
                neg = Lin.const(1) - g
                allsyms = set(neg.syms())
                rel = [neg]
                # constraints connected to the obligation
                changed = True
                pool = list(st.cons)
                while changed:
                    changed = False
                    for c in list(pool):
                        if c.syms() & allsyms:
                            rel.append(c)
                            allsyms |= c.syms()
                            pool.remove(c)
                            changed = True
                m = None
                if st.complete or not (allsyms & st.dropped):
                    m = find_model(rel, allsyms, neq=[q_ for q_ in st.neq if q_.syms() & allsyms])
                if m is not None:
                    wit = {k.replace("@0", ""): int(v) for k, v in m.items()}
            site.results.append((False, st.complete, hv, "%s  [offset=%r extent=%r capacity=%r]" % (gtxt, offset, extent, cap),
                                 [repr(c) + " <= 0" for c in st.cons][:12], wit))

    # ---- element semantics -----------------------------------------------------------------
    def do_elem(self, st, n):
        fn = self.fn
        k = n.k
        if k == "DeclStmt":
            for d in n.get("decls", []):
                name = d["name"]
                tk = d["type"].get("tk")
                if "init" in d:
                    init = fn.nodes[d["init"]]
                    if tk in INT_TK:
                        v = self.value(st, init)
                        st.env[name] = v if v is not None else self.opaque(st, name, nonneg=d["type"].get("signed") is False)
                    elif tk == "ptr":
                        pv = self.pointer(st, init)
                        if pv is not None:
                            st.ptr[name] = pv
                        else:
                            st.ptr.pop(name, None)
                else:
                    if tk in INT_TK:
                        st.env[name] = self.new_sym(st, name, nonneg=d["type"].get("signed") is False)
            return
        if k == "CallExpr":
            self.do_call(st, n)
            return
        if k == "UnaryOperator" and n.get("op") in ("++", "--"):
            t = n.child(0).strip()
            d = 1 if n["op"] == "++" else -1
            p = t.get("path")
            if t.get("tk") == "ptr" and p:
                old = st.ptr.get(p) or ((p, Lin.const(0)) if p in self.caps else None)
                if old is not None:
                    new = (old[0], old[1] + Lin.const(d))
                    st.ptr[p] = new
                    st.pvals[n.id] = old if n.get("postfix") else new
                return
            if p and t.get("tk") in INT_TK:
                old = self.var(st, t)
                new = old + Lin.const(d)
                st.env[p] = new
                st.vals[n.id] = old if n.get("postfix") else new
                for key in list(st.env):
                    if "[" + p + "]" in key:
                        del st.env[key]
                for key in list(st.ptr):
                    if "[" + p + "]" in key:
                        del st.ptr[key]
            return
        if k in ("BinaryOperator", "CompoundAssignOperator") and n.get("op") in C.ASSIGN_OPS:
            t = n.child(0).strip()
            op = n["op"]
            # out-parameter scalars and pointers (*len1 = ..., *s2 = ...)
            if t.k == "UnaryOperator" and t.get("op") == "*" and t.get("path") and self.pointer(st, t.child(0)) is None:
                if t.get("tk") in INT_TK:
                    self.scalar_store(st, n, t, op)
                    return
                if t.get("tk") == "ptr" and op == "=":
                    if C.is_null(n.child(1)):
                        st.ptr.pop(t["path"], None)
                        st.nullptr = set(getattr(st, "nullptr", set())) | {t["path"]}
                    else:
                        pv = self.pointer(st, n.child(1))
                        st.nullptr = set(getattr(st, "nullptr", set())) - {t["path"]}
                        if pv is not None:
                            st.ptr[t["path"]] = pv
                        else:
                            st.ptr.pop(t["path"], None)
                    return
            # memory store through pointer / array
            if n.get("idiom_covered"):
                # the element store of a recognised copy / fill loop: its extent is the obligation of the synthetic
                # memcpy / memset in the loop's pre-header (sa/idioms.py); what is known about the string length is gone
                b_ = self.pointer(st, t.child(0)) if t.k == "ArraySubscriptExpr" else None
                if b_ is not None:
                    st.slen.pop(b_[0], None)
                return
            if t.k == "ArraySubscriptExpr" or (t.k == "UnaryOperator" and t.get("op") == "*"):
                if t.k == "ArraySubscriptExpr":
                    base = self.pointer(st, t.child(0))
                    idx = self.value(st, t.child(1))
                else:
                    base = self.pointer(st, t.child(0))
                    idx = Lin.const(0)
                if base is not None and idx is None and t.k == "ArraySubscriptExpr":
                    w = self.wrap_witness(st, t.child(1))
                    if w is not None:
                        site = self.sites.setdefault(n.id, Site(n, "store", n.src))
                        site.results.append((False, True, False,
                                             "the index `%s` is a size_t subtraction that wraps below zero" % t.child(1).src,
                                             [repr(c) + " <= 0" for c in st.cons][:12], w))
                        return
                if self.elem_scalars and t.k == "ArraySubscriptExpr" and t.get("path") and t.get("tk") in INT_TK:
                    self.scalar_store(st, n, t, op)
                if base is not None:
                    self.oblige(st, n, "store", base[0], (base[1] + idx) if idx is not None else None, Lin.const(1), n.src)
                    # writing a NUL at a known index bounds the string length
                    if C.const_of(n.child(1)) == 0 and idx is not None and op == "=":
                        st.slen[base[0]] = ("le", base[1] + idx)
                    elif op == "=":
                        st.slen.pop(base[0], None)
                elif t.k == "ArraySubscriptExpr":
                    bk = t.child(0).strip_all_casts()
                    site = self.sites.setdefault(n.id, Site(n, "store", n.src))
                    site.results.append((False, False, True, "store through `%s`: no capacity known" % bk.src, None, None))
                return
            p = t.get("path")
            if t.get("tk") == "ptr" and p:
                if op == "=":
                    pv = self.pointer(st, n.child(1))
                    if pv is not None:
                        st.ptr[p] = pv
                    else:
                        st.ptr.pop(p, None)
                elif op in ("+=", "-="):
                    old = st.ptr.get(p) or ((p, Lin.const(0)) if p in self.caps else None)
                    d = self.value(st, n.child(1))
                    if old is not None and d is not None:
                        st.ptr[p] = (old[0], old[1] + d if op == "+=" else old[1] - d)
                    else:
                        st.ptr.pop(p, None)
                return
            if p and t.get("tk") in INT_TK:
                self.scalar_store(st, n, t, op)
            return
        if k == "ArraySubscriptExpr" and self.loads and not n.get("idiom_covered"):
            par = fn.parent_of(n)
            is_store_target = par is not None and C.store_target(par) is not None and C.store_target(par).id == n.id
            is_addr = par is not None and par.k == "UnaryOperator" and par.get("op") == "&"
            if not is_store_target and not is_addr:
                base = self.pointer(st, n.child(0))
                idx = self.value(st, n.child(1))
                if base is not None:
                    self.oblige(st, n, "load", base[0], (base[1] + idx) if idx is not None else None, Lin.const(1), n.src)
        if isinstance(n.get("tk"), str) and n.get("tk") in INT_TK and k not in ("DeclRefExpr", "IntegerLiteral"):
            v = self.value(st, n)
            if v is not None:
                st.vals[n.id] = v

    def scalar_store(self, st, n, t, op):
        p = t["path"]
        rhs = self.value(st, n.child(1))
        if op == "=":
            new = rhs
        elif op in ("+=", "-=") and rhs is not None:
            old = self.var(st, t)
            new = old + rhs if op == "+=" else old - rhs
            if op == "-=" and self.is_unsigned(t):
                if self.nowrap:
                    self.oblige_fact(st, n, "arith", le(rhs, old),
                                     "`%s`: the unsigned counter must not be decreased below zero" % n.src)
                if not entails(st.cons, le(rhs, old)):
                    new = None
                    st.complete = False
        else:
            new = None
        if new is None:
            new = self.opaque(st, p, nonneg=self.is_unsigned(t))
        st.env[p] = new
        st.vals[n.id] = new
        # an index variable changed: forget array elements addressed through it
        for key in list(st.env):
            if "[" + p + "]" in key:
                del st.env[key]
        for key in list(st.ptr):
            if "[" + p + "]" in key:
                del st.ptr[key]

    def oblige_fact(self, st, node, kind, goal, text, key=None):
        if key is None:
            key = node.id if kind != "exit" else (node.id, text)
        site = self.sites.setdefault(key, Site(node, kind, text))
        if entails(st.cons, goal):
            site.results.append((True, st.complete, False, text, None, None))
            return
        syms = set(goal.syms())
        hv = bool(syms & st.havoc)
        wit = None
        neg = Lin.const(1) - goal
        rel = [neg]
        pool = list(st.cons)
        changed = True
        while changed:
            changed = False
            for c in list(pool):
                if c.syms() & syms:
                    rel.append(c)
                    syms |= c.syms()
                    pool.remove(c)
                    changed = True
        if not (syms & st.dropped) and not (syms & st.havoc):
            m = find_model(rel, syms, neq=[q_ for q_ in st.neq if q_.syms() & syms])
            if m is not None:
                wit = {k.replace("@0", "").split("#")[0]: int(v) for k, v in m.items()}
        site.results.append((False, st.complete, hv, text, [repr(c) + " <= 0" for c in st.cons][:14], wit))

    def loop_vars(self):
        out = set()
        for mods, pmods, bufw in self.loop_mod.values():
            out |= mods
        return out

    def do_call(self, st, n):
        name = n.get("callee")
        if name in self.ghost:
            self.ghost[name](self, st, n)
        args = C.call_args(n)
        ct = self.contracts.get(name or "")
        if ct is None:
            # what is known about integer arguments at this call site (used when the callee is analysed with
            # the caller's (buffer, capacity) pair: preconditions established by the caller carry over)
            rec = self.call_lb.setdefault(n.id, {})
            for i_, a_ in enumerate(args):
                v_ = self.value(st, a_)
                if v_ is not None:
                    rec.setdefault(i_, []).append(bool(entails(st.cons, le(Lin.const(1), v_))))
            # unknown callee: out-parameters become unknown
            for a in args:
                p = a.strip_all_casts().get("path") or ""
                if p.startswith("&"):
                    st.env[p[1:]] = self.opaque(st, p[1:])
            if n.get("tk") in INT_TK:
                st.vals[n.id] = self.opaque(st, name or "call", nonneg=self.is_unsigned(n))
            return

        def aval(i):
            return self.value(st, args[i]) if i < len(args) else None

        def aptr(i):
            return self.pointer(st, args[i]) if i < len(args) else None

        def src_len(i):
            """string length of a source argument: literal or tracked"""
            s = args[i].strip_all_casts()
            if s.k == "StringLiteral":
                return Lin.const(len(s.get("str", "")))
            return None
        kind = ct["kind"]
        ret = None
        if kind in ("memcpy", "memset"):          # writes arg[n] BYTES at arg[d]
            d = aptr(ct.get("dst", 0))
            ext = aval(ct.get("len", 2))
            if d is not None:
                # capacities are counted in elements: for a destination of wider elements offset and capacity are scaled
                esz = self.elem_bytes(args[ct.get("dst", 0)])
                self.oblige(st, n, "call", d[0], d[1], ext, n.src, scale=esz)
                st.slen.pop(d[0], None)
            elif self.tracked_dest(args[ct.get("dst", 0)]):
                self.unknown_dest(n, args[ct.get("dst", 0)])
        elif kind == "out1":                      # callee stores one element through arg[dst]
            d = aptr(ct["dst"])
            if d is not None:
                self.oblige(st, n, "call", d[0], d[1], Lin.const(1), n.src)
        elif kind == "strncpy":
            d = aptr(0)
            ext = aval(2)
            if d is not None:
                self.oblige(st, n, "call", d[0], d[1], ext, n.src)
                st.slen.pop(d[0], None)
                # strncpy terminates the copy only when the source is shorter than the count: with a source that is one of
                # a few literals the result is a string iff the longest of them is; otherwise some count leaves no NUL
                lens = self.literal_lengths(args[1])
                if lens and ext is not None:
                    if entails(st.cons, le(Lin.const(max(lens) + 1), ext)):
                        st.slen[d[0]] = ("le", d[1] + Lin.const(max(lens)))
                    else:
                        st.unterm_copy = dict(getattr(st, "unterm_copy", {}))
                        st.unterm_copy[d[0]] = (ext, n, min(lens))
            elif self.tracked_dest(args[0]):
                self.unknown_dest(n, args[0])
        elif kind == "strcpy":
            d = aptr(0)
            sl = src_len(1)
            if sl is None and args[1].strip_all_casts().k == "ConditionalOperator":
                co = args[1].strip_all_casts()
                a, b = co.child(1).strip_all_casts(), co.child(2).strip_all_casts()
                if a.k == b.k == "StringLiteral":
                    sl = Lin.const(max(len(a.get("str", "")), len(b.get("str", ""))))
            if d is not None:
                self.oblige(st, n, "call", d[0], d[1], (sl + Lin.const(1)) if sl is not None else None, n.src)
                if sl is not None:
                    st.slen[d[0]] = ("eq", d[1] + sl)
        elif kind == "strncat":
            d = aptr(0)
            nn = aval(2)
            if d is not None:
                cur = st.slen.get(d[0])
                sl = src_len(1)
                if cur is not None and cur[0] == "le" and entails(st.cons, le(cur[1], d[1])) and entails(st.cons, le(d[1], cur[1])):
                    cur = ("eq", d[1])        # a NUL is known exactly where the destination starts: it is the empty string
                if cur is None or cur[0] != "eq" or nn is None:
                    self.oblige(st, n, "call", d[0], None, None, n.src + "  (length of the destination string unknown)")
                else:
                    # appended = min(n, strlen(src)) <= n ; with a literal source and n >= len it is len
                    app = nn
                    if sl is not None and entails(st.cons, le(sl, nn)):
                        app = sl
                    elif sl is not None and entails(st.cons, le(nn, sl)):
                        app = nn
                    # n itself must not have wrapped below zero (size_t): n >= 0 is implicit; the
                    # linear value of n is only available when its subtraction was proved not to wrap
                    self.oblige(st, n, "call", d[0], cur[1], app + Lin.const(1), n.src)
                    if sl is not None and app is sl:
                        st.slen[d[0]] = ("eq", cur[1] + sl)
                    else:
                        st.slen[d[0]] = ("le", cur[1] + app)
            elif self.tracked_dest(args[0]):
                self.unknown_dest(n, args[0])
        elif kind == "bounded_formatter":          # f(..., buf, len, ...) writes <= len, NUL-terminates when len >= 1
            bi, li = ct["buf"], ct["len"]
            d = aptr(bi)
            ext = aval(li)
            if d is not None:
                self.oblige(st, n, "call", d[0], d[1], ext, n.src)
                if ct.get("terminates") and ext is not None:
                    if entails(st.cons, le(Lin.const(1), ext)):
                        if ct.get("returns") == "strlen":
                            ret = self.new_sym(st, "ret_" + (name or ""), nonneg=True)
                            st.cons.append(le(ret, ext - Lin.const(1)))
                            st.slen[d[0]] = ("eq", d[1] + ret)
                        else:
                            st.slen[d[0]] = ("le", d[1] + ext - Lin.const(1))
                    else:
                        st.slen.pop(d[0], None)
                        st.nothing_written = getattr(st, "nothing_written", {})
                        st.nothing_written[d[0]] = (ext, n)
                if ct.get("returns") == "count" and ext is not None:
                    ret = self.new_sym(st, "ret_" + (name or ""), nonneg=True)
                    st.cons.append(le(ret, ext))
                    mc = ct.get("max_count")
                    if mc:
                        # integer formatter: at most `digits` characters for this width and radix (the largest power of the
                        # radix below 2^bits, which C14-T1 checks against the divisor table), and the NUL is stored whenever
                        # the characters leave room (C14-B1).  With a window of more than `digits` bytes the text is
                        # terminated inside it; with a smaller window some value fills it completely.
                        bv = aval(mc["base"]) if mc.get("base") is not None and mc["base"] < len(args) else None
                        radix = bv.k if bv is not None and bv.is_const() else mc.get("radix")
                        if radix is None and mc.get("base") is not None and mc["base"] < len(args):
                            radix = C.const_of(args[mc["base"]])       # a literal narrowed to the int8_t parameter
                            bv = Lin.const(radix) if radix is not None else bv
                        digits = {2: mc["bits"], 8: (mc["bits"] + 2) // 3, 10: len(str(2 ** mc["bits"] - 1)),
                                  16: mc["bits"] // 4}.get(radix if radix in (2, 8, 16) else 10)
                        if radix not in (2, 8, 10, 16) and not (bv is not None and bv.is_const()):
                            digits = mc["bits"]            # radix unknown: the longest of all
                        vv = aval(mc.get("val", 0)) if mc.get("val", 0) < len(args) else None
                        if vv is not None and (radix in (2, 8, 16)) is False:
                            # a known upper bound of the value shortens the decimal text
                            for kk in range(1, digits):
                                if entails(st.cons, le(vv, Lin.const(10 ** kk - 1))):
                                    digits = kk
                                    break
                        digits += 1 if mc.get("sign") else 0
                        st.cons.append(le(ret, Lin.const(digits)))
                        if entails(st.cons, le(Lin.const(digits + 1), ext)):
                            st.slen[d[0]] = ("le", d[1] + Lin.const(digits))
                        else:
                            st.slen.pop(d[0], None)
                            st.unterminated = dict(getattr(st, "unterminated", {}))
                            st.unterminated[d[0]] = (ext, n, digits, radix if radix in (2, 8, 16) else 10, mc.get("val", 0))
            elif self.tracked_dest(args[bi]):
                self.unknown_dest(n, args[bi])
        elif kind == "strlen":
            d = aptr(0)
            if d is not None:
                cur = st.slen.get(d[0])
                site = self.sites.setdefault(n.id, Site(n, "read", n.src))
                if cur is None and self.cap_of(st, d[0]) is None:
                    # a C string handed in by the caller / a literal: not one of the tracked buffers
                    ret = self.new_sym(st, "strlen", nonneg=True)
                    st.vals[n.id] = ret
                    self.sites.pop(n.id, None) if not self.sites.get(n.id) or not self.sites[n.id].results else None
                    return
                if cur is None:
                    wit = None
                    nw = getattr(st, "nothing_written", {}).get(d[0])
                    text = "strlen(%s): no NUL is known to lie inside the buffer" % args[0].src
                    uc = getattr(st, "unterm_copy", {}).get(d[0])
                    if uc is not None and nw is None:
                        ext_, call_, shortest = uc
                        syms_ = set(ext_.syms())
                        if not (syms_ & st.havoc) and not (syms_ & st.dropped):
                            rel_ = [le(ext_, Lin.const(shortest)), le(Lin.const(1), ext_)] + [c for c in st.cons if c.syms() & syms_]
                            m_ = find_model(rel_, syms_ | set().union(*[c.syms() for c in rel_]))
                            if m_ is not None:
                                wit = {k.replace("@0", ""): int(v) for k, v in m_.items()}
                                text = ("strlen(%s) after `%s`: strncpy stores no NUL when the source (%d characters or more) does not "
                                        "fit the count, the scan runs past the buffer" % (args[0].src, call_.src[:50], shortest))
                    ut = getattr(st, "unterminated", {}).get(d[0])
                    if ut is not None and nw is None:
                        ext, call, digits, radix, vi = ut
                        # the value argument is an unconstrained parameter (possibly cast): pick the smallest value with as
                        # many digits as the window has bytes
                        va = C.call_args(call)[vi].strip_all_casts() if vi < len(C.call_args(call)) else None
                        free = va is not None and va.k == "DeclRefExpr" and va["decl"]["kind"] == "param"
                        if free:
                            for c in st.cons:
                                for sname in c.syms():
                                    if sname.split("@")[0] == va["decl"]["name"] and not \
                                            (len(c.c) == 1 and list(c.c.values())[0] < 0 and c.k <= 0):
                                        free = False        # anything but `value >= 0` constrains the witness
                        if ext.is_const() and 1 <= ext.k <= digits and free:
                            wit = {va["decl"]["name"]: radix ** (ext.k - 1)}
                            text = ("strlen(%s) after `%s`: a value with %d digits fills the %d-byte window completely, the "
                                    "formatter stores no NUL, and the scan runs past the buffer" % (args[0].src, call.src[:60], ext.k, ext.k))
                    if nw is not None:
                        ext, call = nw
                        goal = ext           # ext <= 0 : the formatter wrote nothing, not even a NUL
                        syms = set(goal.syms())
                        if not (syms & st.havoc) and not (syms & st.dropped):
                            rel = [goal] + [c for c in st.cons if c.syms() & syms]
                            m = find_model(rel, syms | set().union(*[c.syms() for c in rel]) if rel else syms)
                            if m is not None:
                                wit = {k.replace("@0", ""): int(v) for k, v in m.items()}
                                text = ("strlen(%s) after `%s`, which writes nothing (not even a NUL) when its length "
                                        "argument is 0: the caller's memory is scanned for a NUL" % (args[0].src, call.src[:50]))
                    site.results.append((False, st.complete, wit is None, text, None, wit))
                    ret = self.new_sym(st, "strlen", nonneg=True)
                else:
                    cap = self.cap_of(st, d[0])
                    okk = cap is not None and entails(st.cons, lt(cur[1], cap))
                    site.results.append((okk, st.complete, False, "NUL at or before offset %r < capacity" % (cur[1],), None, None))
                    if cur[0] == "eq":
                        ret = cur[1] - d[1]
                    else:
                        ret = self.new_sym(st, "strlen", nonneg=True)
                        st.cons.append(le(ret, cur[1] - d[1]))
                    st.slen[d[0]] = ("eq", d[1] + ret)
            else:
                ret = self.new_sym(st, "strlen", nonneg=True)
        elif kind == "find_in":                   # returns NULL or a pointer into [arg0, arg0 + arg1)
            d = aptr(0)
            nn = aval(1)
            if d is not None:
                off = self.new_sym(st, "found", nonneg=True)
                st.pvals[n.id] = (d[0], d[1] + off)
                st.pending = dict(getattr(st, "pending", {}))
                if nn is not None:
                    st.pending[list(off.syms())[0]] = [le(off, nn - Lin.const(1))]
            return
        elif kind == "strnlen":
            ret = self.new_sym(st, "strnlen", nonneg=True)
            nn = aval(1)
            if nn is not None:
                st.cons.append(le(ret, nn))
                sp = args[0].strip_all_casts().get("path")
                if sp in getattr(st, "nonempty", set()) and entails(st.cons, le(Lin.const(1), nn)):
                    st.cons.append(le(Lin.const(1), ret))
        elif kind == "get_parts":                 # scpiheap_get_parts(heap, s, &l1, &s2, &l2)
            sp = aptr(1)
            cap = self.cap_of(st, "heap->data")
            l1 = self.new_sym(st, "len1", nonneg=True)
            l2 = self.new_sym(st, "len2", nonneg=True)

            def outpath(i):
                p_ = args[i].strip_all_casts().get("path") or ""
                if p_.startswith("&"):
                    return p_[1:]
                if p_.startswith("(") or not p_:
                    # (const char **)&data_add
                    for x in args[i].walk():
                        if x.get("path", "").startswith("&"):
                            return x["path"][1:]
                return "*" + p_
            p1, p2, p3 = outpath(2), outpath(3), outpath(4)
            st.env[p1] = l1
            st.env[p3] = l2
            if sp is not None and cap is not None:
                st.cons.append(le(sp[1] + l1, cap))                   # (A) first part ends inside the heap
                st.cons.append(le(l2, cap - Lin.const(1)))            # (C') the wrapped part is NUL-terminated inside the heap
                st.cons.append(le(Lin.const(1), l1))                  # a stored text is not empty
                st.cons.append(le(l1 + l2 + Lin.const(1), cap))       # (D) a stored text with its terminator fits the heap
                st.ptr[p2] = ("heap->data", Lin.const(0))
                st.nullcase = dict(getattr(st, "nullcase", {}))
                eqs = [le(sp[1] + l1, cap), le(cap, sp[1] + l1)]      # (B1) wrapped: first part ends exactly at the end
                st.nullcase[p2] = (eqs, [lt(sp[1] + l1, cap), l2, l2.scale(-1)])   # (B2) not wrapped: NUL inside, len2 = 0
            ret = self.new_sym(st, "get_parts", nonneg=True)
        elif kind == "lexer":                     # token recogniser: returns the number of bytes it consumed (>= 0) and,
            ret = self.new_sym(st, name, nonneg=True)   # where the contract says so, stores the same number in token->len
            cur = st.env.get("$consumed", Lin.const(0))
            st.env["$consumed"] = cur + ret
            ti = ct.get("token")
            if ti is not None and ti < len(args) and ct.get("len_is_ret", True):
                tp = args[ti].strip_all_casts().get("path")
                if tp:
                    tp = tp[1:] + ".len" if tp.startswith("&") else tp + "->len"
                    st.env[tp] = ret
        elif kind == "alloc":                     # returns NULL or a fresh object of arg[size] elements
            sz = aval(ct.get("size", 0))
            key = "alloc@%d" % n.id
            cname = key + "$cap"
            self.caps[key] = cname
            if sz is not None:
                st.env[cname] = sz
            st.pvals[n.id] = (key, Lin.const(0))
            return
        elif kind == "pure":
            pass
        if ret is None and n.get("tk") in INT_TK:
            ret = self.opaque(st, name or "call", nonneg=self.is_unsigned(n))
        if ret is not None:
            st.vals[n.id] = ret

    def tracked_dest(self, arg):
        return False

    def unknown_dest(self, n, arg):
        site = self.sites.setdefault(n.id, Site(n, "call", n.src))
        site.results.append((False, False, True, "destination `%s` is not a tracked buffer" % arg.src, None, None))

    def wrap_witness(self, st, expr):
        """integer model in which an unsigned subtraction inside `expr` wraps (minuend < subtrahend)"""
        for x in expr.walk():
            if x.k == "BinaryOperator" and x.get("op") == "-" and self.is_unsigned(x) and (x.get("bits") or 0) >= 32:
                saved = st.complete
                a, b = self.value(st, x.child(0)), self.value(st, x.child(1))
                if a is None or b is None:
                    continue
                if entails(st.cons, le(b, a)):
                    continue
                goal = lt(a, b)
                syms = set(goal.syms())
                if syms & st.havoc or (syms & st.dropped):
                    continue
                rel = [goal]
                pool = list(st.cons)
                changed = True
                while changed:
                    changed = False
                    for c in list(pool):
                        if c.syms() & syms:
                            rel.append(c)
                            syms |= c.syms()
                            pool.remove(c)
                            changed = True
                if syms & st.havoc:
                    continue
                m = find_model(rel, syms)
                if m is not None:
                    return {k.replace("@0", ""): int(v) for k, v in m.items()}
        return None

    def split_wrap(self, st, cond):
        """an unsigned subtraction inside a branch condition whose operands are linear but for which
        minuend >= subtrahend is not known: follow both the non-wrapping and the wrapping case"""
        for x in cond.walk():
            if x.k == "BinaryOperator" and x.get("op") == "-" and self.is_unsigned(x) and (x.get("bits") or 0) >= 32 \
                    and x.id not in st.vals:
                a, b = self.value(st, x.child(0)), self.value(st, x.child(1))
                if a is None or b is None:
                    continue
                if entails(st.cons, le(b, a)):
                    continue
                q1, q2 = st.clone(), st.clone()
                q1.cons.append(le(b, a))
                q1.vals[x.id] = a - b
                q2.cons.append(lt(a, b))
                q2.vals[x.id] = a - b + Lin.const(1 << x["bits"])
                return [q for q in (q1, q2) if not fm_infeasible(q.cons)]
        return [st]

    def drop(self, st, atom):
        """a fact could not be interpreted: remember which symbols it talks about"""
        st.complete = False
        for x in atom.walk():
            p = x.get("path")
            if p and x.k in ("DeclRefExpr", "MemberExpr"):
                st.dropped.add(p + "@0")
                if p in st.env and st.env[p] is not None:
                    st.dropped |= st.env[p].syms()
            if x.k == "CallExpr":
                st.dropped.add("*call*")

    # ---- branch facts ----------------------------------------------------------------------
    def assume_atom(self, st, atom, pol):
        a = atom.strip_all_casts()
        # first character of a string: *p == 0 is false / *p is true  =>  the string is not empty
        tgt, pl = None, None
        if a.k == "BinaryOperator" and a.get("op") in ("==", "!=") and C.const_of(a.child(1)) == 0:
            d0 = a.child(0).strip_all_casts()
            if d0.k == "UnaryOperator" and d0.get("op") == "*" and d0.get("ct") in ("char", "const char"):
                tgt, pl = d0.child(0).strip_all_casts().get("path"), (pol if a["op"] == "!=" else not pol)
        if a.k == "UnaryOperator" and a.get("op") == "*" and a.get("ct") in ("char", "const char"):
            tgt, pl = a.child(0).strip_all_casts().get("path"), pol
        if tgt is not None:
            if pl:
                st.nonempty = set(getattr(st, "nonempty", set())) | {tgt}
            return
        # a test of a character read from memory against a constant says nothing linear about the
        # integer variables (memory contents are an unconstrained input of the function)
        def char_read(x):
            x = x.strip_all_casts()
            return x.k in ("ArraySubscriptExpr",) and (x.get("ct") or "").replace("const ", "") in ("char", "unsigned char", "signed char")
        if a.k == "BinaryOperator" and a.get("op") in ("==", "!=", "<", ">", "<=", ">=") and \
                ((char_read(a.child(0)) and C.const_of(a.child(1)) is not None) or
                 (char_read(a.child(1)) and C.const_of(a.child(0)) is not None)):
            return
        if char_read(a):
            return
        # nullness of a pointer that a contract tied to arithmetic facts
        if a.k == "BinaryOperator" and a.get("op") in ("==", "!=") and getattr(st, "nullcase", None):
            l0, r0 = a.child(0).strip_all_casts(), a.child(1).strip_all_casts()
            for x_, y_ in ((l0, a.child(1)), (r0, a.child(0))):
                if x_.get("path") in st.nullcase and C.is_null(y_):
                    nonnull = pol if a["op"] == "!=" else not pol
                    nn, nu = st.nullcase[x_["path"]]
                    st.cons += (nn if nonnull else nu)
                    return
        if a.get("tk") == "ptr" and a.get("path") in getattr(st, "nullcase", {}):
            nn, nu = st.nullcase[a["path"]]
            st.cons += (nn if pol else nu)
            return
        if a.k == "BinaryOperator" and a.get("op") in ("<", "<=", ">", ">=", "==", "!="):
            l, r = self.value(st, a.child(0)), self.value(st, a.child(1))
            if l is None or r is None:
                lt_, rt_ = a.child(0).strip_all_casts(), a.child(1).strip_all_casts()
                if lt_.get("tk") in ("ptr",) or rt_.get("tk") in ("ptr",):
                    pa, pb = self.pointer(st, a.child(0)), self.pointer(st, a.child(1))
                    if pa is not None and pb is not None and pa[0] == pb[0]:
                        l, r = pa[1], pb[1]      # same object: compare the offsets
                    else:
                        return   # unrelated pointers carry no arithmetic fact
            if l is None or r is None:
                lt_, rt_ = a.child(0).strip_all_casts(), a.child(1).strip_all_casts()
                if lt_.get("tk") in ("ptr",) or rt_.get("tk") in ("ptr",):
                    return
                self.drop(st, atom)
                return
            op = a["op"]
            if not pol:
                op = {"<": ">=", "<=": ">", ">": "<=", ">=": "<", "==": "!=", "!=": "=="}[op]
            if op == "<":
                st.cons.append(lt(l, r))
            elif op == "<=":
                st.cons.append(le(l, r))
            elif op == ">":
                st.cons.append(lt(r, l))
            elif op == ">=":
                st.cons.append(le(r, l))
            elif op == "==":
                st.cons += [le(l, r), le(r, l)]
            else:
                # != : usable when one side is a bound of the other
                if entails(st.cons, le(r, l)):
                    st.cons.append(lt(r, l))
                elif entails(st.cons, le(l, r)):
                    st.cons.append(lt(l, r))
                else:
                    st.neq.append(l - r)          # a disequality: no linear fact, but every witness must respect it
            return
        if a.get("tk") in INT_TK and a.k in ("DeclRefExpr", "MemberExpr", "CallExpr", "ImplicitCastExpr"):
            v = self.value(st, a)
            if v is not None:
                if pol:
                    if entails(st.cons, v.scale(-1)):
                        st.cons.append(lt(Lin.const(0), v))
                    else:
                        st.neq.append(v)
                else:
                    st.cons += [v, v.scale(-1)]
            return
        if a.get("tk") == "ptr":
            if pol:
                pv = self.pointer(st, a)
                if pv is not None:
                    for sy in pv[1].syms():
                        for c in getattr(st, "pending", {}).get(sy, []):
                            st.cons.append(c)
            return
        if a.k in ("UnaryOperator",):
            return
        if a.k == "BinaryOperator" and a.get("op") in ("&&", "||"):
            return
        self.drop(st, atom)

    # ---- path walk -------------------------------------------------------------------------
    def run(self):
        st = State()
        def entry_sym(path):
            if path in st.env:
                return st.env[path]
            v = Lin.sym(path + "@0")
            st.env[path] = v
            if self.unsigned_path(path) and (path + "@0") not in st.nonneg:
                st.cons.append(v.scale(-1))
                st.nonneg.add(path + "@0")
            return v
        for path, op, val in self.assume:
            v = entry_sym(path)
            c = Lin.const(val) if isinstance(val, int) else entry_sym(val)
            if op == ">=":
                st.cons.append(le(c, v))
            elif op == "<=":
                st.cons.append(le(v, c))
            elif op == "<":
                st.cons.append(lt(v, c))
            elif op == ">":
                st.cons.append(lt(c, v))
        for pvar, base in self.ptr_assume.items():
            off = Lin.sym(pvar + ".off@0")
            st.cons.append(off.scale(-1))
            st.nonneg.add(pvar + ".off@0")
            st.ptr[pvar] = (base, off)
            cap = self.cap_of(st, base)
            if cap is not None:
                st.cons.append(lt(off, cap))     # points at a byte of the buffer
        # candidate invariants first (they need the entry state of each loop: computed lazily)
        self.walk(self.fn.entry, st, None)
        return self.sites

    def unrollable(self, st, head):
        """loop `for (i = c0; i < N [&& ...]; i++)` with N a constant <= 4, i a local scalar whose current value is a known
        constant, stepped only by ++ / += 1 inside the loop"""
        cache = self.__dict__.setdefault("_unroll", {})
        info = cache.get(head.id)
        if info is None:
            info = False
            for bid in self.loops[head.id]:
                blk = self.fn.blocks[bid]
                cnd = blk.cond
                if cnd is None or cnd.k != "BinaryOperator" or cnd.get("op") != "<":
                    continue
                l_ = cnd.child(0).strip_all_casts()
                n_ = C.const_of(cnd.child(1))
                if l_.k != "DeclRefExpr" or l_["decl"]["kind"] != "local" or n_ is None or not (0 < n_ <= 4):
                    continue
                v = l_["decl"]["name"]
                # the test must leave the loop when false (its false edge goes outside the body)
                if len(blk.succs) != 2 or blk.succs[1] is None or blk.succs[1].id in self.loops[head.id]:
                    continue
                inside = [nn for nn, t in C.stores(self.fn) if t.get("path") == v and self.fn.where.get(nn.id) and
                          self.fn.where[nn.id][0].id in self.loops[head.id]]
                incs = [nn for nn in inside if (nn.k == "UnaryOperator" and nn.get("op") == "++") or
                        (nn.get("op") == "+=" and C.const_of(nn.child(1)) == 1)]
                addr = any(x.k == "UnaryOperator" and x.get("op") == "&" and x.child(0).strip_all_casts().get("path") == v
                           for x in self.fn.nodes.values())
                if incs and len(incs) == len(inside) and not addr:
                    info = (v, n_)
                    break
            cache[head.id] = info
        if not info:
            return False
        cur = st.env.get(info[0])
        return cur is not None and cur.is_const() and 0 <= cur.k <= info[1]

    def split_cast(self, st, e):
        """an assignment / initialisation whose right-hand side is a signed expression converted to an unsigned type of at
        least 32 bits, the sign of which is not known: follow both the non-negative case (identity) and the negative case
        (value + 2^bits) - the same treatment as an unsigned subtraction that may wrap.  Only the outermost conversion of
        the stored value is split (`i_to = param.len - 2`)."""
        rhs = None
        if e.k == "BinaryOperator" and e.get("op") == "=" and len(e.ch) > 1:
            rhs = e.child(1)
        elif e.k == "DeclStmt":
            for d in e.get("decls", []):
                if "init" in d:
                    rhs = self.fn.nodes[d["init"]]
        if rhs is None:
            return [st]
        x = rhs
        while x.k == "ParenExpr":
            x = x.child(0)
        if x.k not in ("ImplicitCastExpr", "CStyleCastExpr") or x.get("ck") != "IntegralCast" or x.id in st.vals:
            return [st]
        inner = x.child(0)
        if not (inner.get("tk") == "int" and x.get("tk") == "int" and inner.get("signed") and x.get("signed") is False
                and (x.get("bits") or 0) >= 32):
            return [st]
        v0 = self.value(st, inner)
        if v0 is None or v0.is_const() or entails(st.cons, v0.scale(-1)):
            return [st]
        q1, q2 = st.clone(), st.clone()
        q1.cons.append(v0.scale(-1))                       # v0 >= 0
        q1.vals[x.id] = v0
        q2.cons.append(lt(v0, Lin.const(0)))
        q2.vals[x.id] = v0 + Lin.const(1 << x["bits"])
        return [q for q in (q1, q2) if not fm_infeasible(q.cons)]

    def walk(self, b, st, stop_head, collect=None, i0=0):
        """DFS over blocks. stop_head: when reaching this loop head again, record the state in
        `collect` and stop (used by the invariant check)"""
        fn = self.fn
        self.npaths += 0
        if i0 == 0 and b.id in self.loops and self.unrollable(st, b):
            # a counting loop with a small constant bound whose counter is a known constant here: executed iteration by
            # iteration (no summary, no invariant), so that every path through it stays concrete enough for a witness
            st.vals = {}          # values of expression nodes evaluated in the previous iteration are stale
            st.pvals = {}
            for h in self.loops[b.id]:
                if h != b.id and h in self.loops:
                    st.visits.pop(h, None)      # inner loops start afresh: their invariants are established per iteration
        elif i0 == 0 and b.id in self.loops:
            cnt = st.visits.get(b.id, 0)
            if stop_head is not None and b.id == stop_head and cnt >= 1:
                collect.append(st)
                return
            if cnt >= 2:
                return
            if cnt == 1:
                self.havoc_loop(st, b)
                # a new iteration of this loop executes its inner loops afresh: their invariants must be established
                # again from the entry state of that execution, not inherited from the previous iteration's run
                for h in self.loops[b.id]:
                    if h != b.id and h in self.loops:
                        st.visits.pop(h, None)
            elif cnt == 0 and b.id != stop_head and self.infer_depth < 2:
                self.infer_depth += 1
                try:
                    self.infer_invariants(st, b)
                finally:
                    self.infer_depth -= 1
            st.visits[b.id] = cnt + 1
        for idx in range(i0, len(b.elems)):
            e = b.elems[idx]
            forks = self.split_cast(st, e) if self.infer_depth == 0 else [st]
            if len(forks) > 1:
                for fq in forks:
                    self.walk(b, fq, stop_head, collect, i0=idx)
                return
            self.do_elem(st, e)
        if b.id == fn.exit.id:
            self.npaths += 1
            for text, mk in self.exit_obligations:
                goals = mk(self, st)
                for g in goals or []:
                    self.oblige_fact(st, self.exit_node(), "exit", g, text)
            return
        live = [(i, s) for i, s in enumerate(b.succs) if s is not None]
        for i, s in live:
            q = st.clone() if len(live) > 1 else st
            lab = fn.edge_label(b, i)
            if lab[0] in ("true", "false") and lab[1] is not None:
                pol = lab[0] == "true"
                q.decisions[lab[1].strip().id] = pol
                q.decisions[lab[1].id] = pol
                forks = self.split_wrap(q, lab[1])
                if len(forks) > 1:
                    for fq in forks:
                        for atom, apol in C.cond_facts(lab[1], pol):
                            self.assume_atom(fq, atom, apol)
                        if fm_infeasible(fq.cons):
                            continue
                        if self.npaths > self.max_paths:
                            return
                        if stop_head is not None and s.id not in self.loops[stop_head]:
                            continue
                        self.walk(s, fq, stop_head, collect)
                    continue
                for atom, apol in C.cond_facts(lab[1], pol):
                    self.assume_atom(q, atom, apol)
                if fm_infeasible(q.cons):
                    continue
            elif lab[0] == "case":
                sw = b.cond
                v = self.value(q, sw) if sw is not None else None
                if v is not None:
                    if lab[1] == lab[2]:
                        q.cons += [le(v, Lin.const(lab[1])), le(Lin.const(lab[1]), v)]
                    else:
                        q.cons += [le(Lin.const(lab[1]), v), le(v, Lin.const(lab[2]))]
                    if fm_infeasible(q.cons):
                        continue
            if self.npaths > self.max_paths:
                return
            if stop_head is not None and s.id not in self.loops[stop_head]:
                continue      # the inductive check follows only paths that stay inside the loop
            self.walk(s, q, stop_head, collect)

    def exit_node(self):
        return self.fn.body

    def cur(self, st, path):
        """current value of a scalar path (entry symbol if untouched)"""
        if path in st.env:
            return st.env[path]
        v = Lin.sym(path + "@0")
        st.env[path] = v
        if self.unsigned_path(path) and (path + "@0") not in st.nonneg:
            st.cons.append(v.scale(-1))
            st.nonneg.add(path + "@0")
        return v

    def havoc_loop(self, st, head):
        mods, pmods, bufw = self.loop_mod[head.id]
        for p in mods:
            st.env[p] = self.new_sym(st, p, havoc=True, nonneg=self.unsigned_path(p))
        for p in pmods:
            old = st.ptr.get(p)
            if old is not None:
                st.ptr[p] = (old[0], self.new_sym(st, p + ".off", havoc=True))
        # what is known about the length of a string survives a loop that neither stores into that buffer nor hands it
        # (or a pointer into it) to a call
        touched = set(bufw)
        for bid in self.loops[head.id]:
            for e in self.fn.blocks[bid].elems:
                t = C.store_target(e)
                if t is not None and t.k in ("ArraySubscriptExpr", "UnaryOperator"):
                    b0 = t.child(0).strip_all_casts().get("path") if t.ch else None
                    if b0:
                        touched.add(b0)
                        pv = st.ptr.get(b0)
                        if pv:
                            touched.add(pv[0])
        for p_ in list(touched):
            pv = st.ptr.get(p_)
            if pv:
                touched.add(pv[0])
        for k in list(st.slen):
            if k in touched or not isinstance(k, str):
                st.slen.pop(k)
        for inv in self.invariants.get(head.id, []):
            st.cons.append(inv.subst({v: st.env[v] for v in inv.syms() if v in st.env}))
        # forget cached expression values
        st.vals = {}
        st.pvals = {}

    def unsigned_path(self, p):
        u = self.unsigned.get(p)
        if u is None:
            u = False
            for n in self.fn.nodes.values():
                if n.get("path") == p and n.k in ("DeclRefExpr", "MemberExpr") and n.get("tk") in INT_TK:
                    u = n.get("signed") is False
                    break
            self.unsigned[p] = u
        return u

    def infer_invariants(self, st, head):
        """Houdini over difference and bound templates on the loop's integer variables"""
        mods, pmods, bufw = self.loop_mod[head.id]
        vars_ = sorted(p for p in mods if p in st.env and st.env[p] is not None)
        tagged = []     # (template tag, constraint)
        for v in vars_:
            v0 = st.env[v]
            tagged.append((("ge0", v), le(v0, Lin.sym(v))))        # v >= v0
            tagged.append((("le0", v), le(Lin.sym(v), v0)))        # v <= v0
        for i, a in enumerate(vars_):
            for b in vars_[i + 1:]:
                if (a, b) not in self.related and not (a.startswith("$") or b.startswith("$")):
                    continue
                d = st.env[a] - st.env[b]
                tagged.append((("dle", a, b), le(Lin.sym(a) - Lin.sym(b), d)))   # a - b <= a0 - b0
                tagged.append((("dge", a, b), le(d, Lin.sym(a) - Lin.sym(b))))   # a - b >= a0 - b0
                sm = st.env[a] + st.env[b]
                tagged.append((("sum", a, b), le(Lin.sym(a) + Lin.sym(b), sm)))  # a + b <= a0 + b0  (conservation)
                for x, y in ((a, b), (b, a)):
                    for tg, c0 in ((("ole", x, y), le(Lin.sym(x), Lin.sym(y))), (("olt", x, y), lt(Lin.sym(x), Lin.sym(y)))):
                        inst = c0.subst({x: st.env[x], y: st.env[y]})
                        if entails(st.cons, inst):
                            tagged.append((tg, c0))
        # a counter that is compared with a bound the loop does not change: counter <= bound is the usual invariant
        mods_all = set(mods) | set(pmods)
        for bid in self.loops[head.id]:
            cnd = self.fn.blocks[bid].cond
            if cnd is None or cnd.k != "BinaryOperator" or cnd.get("op") not in ("<", "<=", "!="):
                continue
            l_, r_ = cnd.child(0).strip_all_casts(), cnd.child(1).strip_all_casts()
            lp, rp = l_.get("path"), r_.get("path")
            if lp in vars_ and rp and rp not in mods_all and r_.get("tk") in INT_TK:
                rv = self.var(st, r_) if hasattr(self, "var") else None
                if rv is not None:
                    c0 = le(Lin.sym(lp), rv)
                    if entails(st.cons, c0.subst({lp: st.env[lp]})):
                        tagged.append((("gle", lp, rp), c0))
        for v in vars_:
            for k0 in (0, 1):
                c0 = le(Lin.const(k0), Lin.sym(v))
                if entails(st.cons, c0.subst({v: st.env[v]})):
                    tagged.append((("lb", v, k0), c0))
        cached = self.inv_cache.get(head.id)
        if cached is not None:
            # only templates that survived an earlier inference are tried again; they are re-verified
            # (base case by construction / entailment above, inductiveness below) in this context
            tagged = [(t, c) for t, c in tagged if t in cached]
        tag_of = {}
        cands = []
        for t, c in tagged:
            cands.append(c)
            tag_of[id(c)] = t
        # pointer offsets of loop-modified pointers
        kept = list(cands)
        for _ in range(6):
            if not kept:
                break
            self.invariants[head.id] = kept
            # fresh state at the head: everything the loop modifies is havocked, candidates assumed
            q = st.clone()
            q.visits = dict(st.visits)
            for h in self.loops[head.id]:
                if h != head.id and h in self.loops:
                    q.visits.pop(h, None)
            q.visits[head.id] = 1
            self.havoc_loop(q, head)
            entry_env = {v: q.env[v] for v in vars_}
            q.visits[head.id] = 1
            sub_sites = self.sites
            self.sites = {}
            coll = []
            # walk the body once, stopping when the head is reached again
            saved_np = self.npaths
            self.walk_from_head(head, q, coll)
            self.npaths = saved_np
            self.sites = sub_sites
            failed = set()
            for c in kept:
                for end in coll:
                    inst = c.subst({v: end.env.get(v, Lin.sym(v)) for v in c.syms()})
                    if not entails(end.cons, inst):
                        failed.add(c)
                        if self.debug:
                            print("HOUDINI head", head.id, "drop", c, "| end:", {v: end.env.get(v) for v in c.syms()},
                                  "| entry:", {v: entry_env.get(v) for v in c.syms()}, "| complete", end.complete)
                        break
            if not failed:
                break
            kept = [c for c in kept if c not in failed]
        self.invariants[head.id] = kept
        if cached is None:
            self.inv_cache[head.id] = {tag_of[id(c)] for c in kept if id(c) in tag_of}

    def walk_from_head(self, head, st, coll):
        fn = self.fn
        for e in head.elems:
            self.do_elem(st, e)
        live = [(i, s) for i, s in enumerate(head.succs) if s is not None]
        body = self.loops[head.id]
        for i, s in live:
            if s.id not in body:
                continue
            q = st.clone() if len(live) > 1 else st
            lab = fn.edge_label(head, i)
            if lab[0] in ("true", "false") and lab[1] is not None:
                pol = lab[0] == "true"
                q.decisions[lab[1].strip().id] = pol
                for atom, apol in C.cond_facts(lab[1], pol):
                    self.assume_atom(q, atom, apol)
                if fm_infeasible(q.cons):
                    continue
            self.walk(s, q, head.id, coll)


def eff_cond(n):
    while True:
        s = n.strip()
        if s.k == "BinaryOperator" and s.get("op") in ("&&", "||"):
            n = s.child(1)
        else:
            return s
