"""Loop idioms: a byte-copy / byte-fill loop is the same effect as memcpy / memset.

Rules and the bounds engine reason about block transfers through the call (`memcpy(dst, src, n)`: extent n at dst).  A
maintainer may spell the same transfer as `for (i = 0; i < n; i++) dst[i] = src[i];`.  This pass recognises exactly that
shape and adds, at the end of the loop's pre-header, a SYNTHETIC call element `memcpy(dst, src, n)` / `memset(dst, c, n)`
whose argument nodes are the loop's own expression nodes (a local that was assigned in the pre-header block is replaced
by the expression assigned to it, so `dst = &buf[pos]; count = len;` in front of the loop is seen through).  Nothing is
removed: the loop stays in the CFG and is analysed as before; the synthetic call only states its summary, which holds
because the shape is checked completely (single store, index is the counter, counter from 0 in steps of one up to the
bound, nothing else modified, no call in the loop).

    for (i = 0; i < N; i++) D[i] = S[i];      =>  memcpy(D, S, N)     (memmove when D and S lie in the same object: the
                                                                       loop copies upwards, which is what memmove does
                                                                       for D below S)
    for (i = 0; i < N; i++) D[i] = c;         =>  memset(D, c, N)
"""
from . import cfg as C


def _strip(n):
    while n.k in ("ImplicitCastExpr", "ParenExpr", "CStyleCastExpr") and n.ch:
        n = n.child(0)
    return n


def _is_local(n, name=None):
    s = _strip(n)
    return s.k == "DeclRefExpr" and s.get("decl", {}).get("kind") == "local" and (name is None or s["decl"]["name"] == name)


def _names(n):
    return {x["decl"]["name"] for x in n.walk() if x.k == "DeclRefExpr" and x.get("decl", {}).get("kind") in ("local", "param")}


def _resolve(fn, pre, node):
    """a local (or parameter-free copy) assigned in the pre-header block: the expression assigned last"""
    s = _strip(node)
    if s.k != "DeclRefExpr" or s.get("decl", {}).get("kind") != "local":
        return node
    name = s["decl"]["name"]
    last = None
    for e in pre.elems:
        if e.k == "BinaryOperator" and e.get("op") == "=" and _is_local(e.child(0), name):
            last = e.child(1)
        elif e.k == "DeclStmt":
            for d in e.get("decls", []):
                if d["name"] == name and "init" in d:
                    last = fn.nodes[d["init"]]
    if last is None:
        return node
    # the expression must not mention something stored to later in the block
    return last


def apply(fn):
    """add synthetic call elements for recognised copy / fill loops; returns the number added"""
    added = 0
    try:
        loops = C.loops(fn)
    except Exception:
        return 0
    for head, body in loops:
        cond = head.cond
        if cond is None or cond.k != "BinaryOperator" or cond.get("op") not in ("<", "!="):
            continue
        if not _is_local(cond.child(0)):
            continue
        ivar = _strip(cond.child(0))["decl"]["name"]
        bound = cond.child(1)
        # everything the loop does
        stores, calls = [], 0
        for bid in body:
            for e in fn.blocks[bid].elems:
                if e.k == "CallExpr":
                    calls += 1
                t = C.store_target(e)
                if t is not None:
                    stores.append((e, t))
        if calls:
            continue
        inc = [e for e, t in stores if _is_local(t, ivar)]
        other = [(e, t) for e, t in stores if not _is_local(t, ivar)]
        if len(inc) != 1 or len(other) != 1:
            continue
        i_ok = (inc[0].k == "UnaryOperator" and inc[0].get("op") == "++") or \
               (inc[0].get("op") == "+=" and C.const_of(inc[0].child(1)) == 1)
        st, tgt = other[0]
        if not i_ok or st.k != "BinaryOperator" or st.get("op") != "=" or tgt.k != "ArraySubscriptExpr":
            continue
        if not _is_local(tgt.child(1), ivar):
            continue
        dst = tgt.child(0)
        rhs = _strip(st.child(1))
        kind = None
        if rhs.k == "ArraySubscriptExpr" and _is_local(rhs.child(1), ivar):
            kind, src = "memcpy", rhs.child(0)
        elif C.const_of(st.child(1)) is not None:
            kind, src = "memset", st.child(1)
        if kind is None:
            continue
        # nothing the transfer is described with changes inside the loop
        touched = {ivar}
        if (_names(dst) | _names(bound) | (_names(src) if kind == "memcpy" else set())) & touched:
            continue
        # pre-header: the unique predecessor outside the loop, which sets the counter to 0 last
        pres = [p for p in head.preds if p.id not in body]
        if len(pres) != 1:
            continue
        pre = pres[0]
        live = [s_ for s_ in pre.succs if s_ is not None]
        if len(live) != 1:
            continue
        init0 = None
        for e in pre.elems:
            if e.k == "BinaryOperator" and e.get("op") == "=" and _is_local(e.child(0), ivar):
                init0 = C.const_of(e.child(1))
            elif e.k == "DeclStmt":
                for d in e.get("decls", []):
                    if d["name"] == ivar and "init" in d:
                        init0 = C.const_of(fn.nodes[d["init"]])
        if init0 != 0:
            continue
        # the element must be a byte (the calls count bytes)
        if (tgt.get("bits") or 8) != 8:
            continue
        a_dst, a_src, a_n = _resolve(fn, pre, dst), (_resolve(fn, pre, src) if kind == "memcpy" else src), _resolve(fn, pre, bound)
        if kind == "memcpy":
            base = lambda t_: t_.src.replace(" ", "").lstrip("&(").split("[")[0].split("+")[0].rstrip(")")
            if base(a_dst) and base(a_dst) == base(a_src):
                kind = "memmove"          # both ends in the same object: the upward copy is memmove's for dst below src
        nid = max(fn.nodes) + 1
        fid = nid + 1
        from .facts import Node
        fref = Node({"k": "DeclRefExpr", "ch": [], "decl": {"kind": "function", "name": kind, "id": -1}, "path": kind, "src": kind,
                     "line": cond.get("line"), "col": cond.get("col"), "tk": "func"})
        fref.fn, fref.id = fn, fid
        call = Node({"k": "CallExpr", "callee": kind, "ch": [fid, a_dst.id, a_src.id, a_n.id], "nargs": 3,
                     "src": "%s(%s, %s, %s)" % (kind, a_dst.src, a_src.src, a_n.src), "line": cond.get("line"), "col": cond.get("col"),
                     "tk": "ptr", "t": "void *", "ct": "void *", "synthetic": "loop idiom: `%s` for %s = 0 .. %s" % (st.src, ivar, bound.src)})
        call.fn, call.id = fn, nid
        fn.nodes[nid] = call
        fn.nodes[fid] = fref
        st["idiom_covered"] = True
        tgt["idiom_covered"] = True
        if kind in ("memcpy", "memmove"):
            rhs["idiom_covered"] = True
        pre.elems.append(call)
        fn.where[nid] = (pre, len(pre.elems) - 1)
        for x in (a_dst, a_src, a_n):
            fn.parent.setdefault(x.id, call)
        added += 1
    if added:
        fn.idioms = getattr(fn, "idioms", 0) + added
    return added
