"""Path summaries of small functions: enumerate CFG paths with propagation of small constants
and call results through scalar locals (DESIGN.md 3.2 'path enumerator').  Used to extract
decision tables (conditions -> effects -> returned value)."""
from . import cfg as C


class AVal:
    __slots__ = ("kind", "v", "node", "pol")

    def __init__(self, kind, v=None, node=None, pol=None):
        self.kind, self.v, self.node, self.pol = kind, v, node, pol

    def truth(self):
        if self.kind == "const":
            return bool(self.v)
        if self.kind == "callres":
            return self.pol
        if self.kind == "ge":
            return True if (self.v is not None and self.v >= 1) else None
        if self.kind == "nonzero":
            return True
        return None

    def __repr__(self):
        if self.kind == "const":
            return "const(%s)" % self.v
        if self.kind == "ge":
            return "ge(%s)" % self.v
        if self.kind in ("call", "callres"):
            return "%s(%s%s)" % (self.kind, self.node.get("callee") or self.node.src,
                                 "" if self.pol is None else "=%s" % self.pol)
        return self.kind


UNKNOWN = AVal("unknown")


class PathSummary:
    def __init__(self):
        self.facts = []       # (atom node, polarity or ('case', lo, hi)) in order
        self.calls = []       # call nodes in order
        self.events = []      # ('call', node) / ('store', node) / ('branch', atom, pol) in order
        self.ret = None       # AVal
        self.ret_node = None
        self.env = {}
        self.decisions = {}   # terminator cond node id -> polarity
        self.blocks = []
        self.trace = []       # every CFG element and branch decision in evaluation order
        self.casevals = {}    # switch operand path -> set of values still possible

    def called(self, *names):
        return [c for c in self.calls if c.get("callee") in names]

    def describe(self):
        out = []
        for a, p in self.facts:
            if isinstance(p, tuple):
                out.append("%s in case %s" % (a.src, p[3] if len(p) > 3 and p[3] else p[1]))
            else:
                out.append("%s is %s" % (a.src, p))
        return out


def _eval(ps, n):
    """abstract value of expression n under the path's environment"""
    s = n.strip_all_casts()
    if "cv" in s and s.k != "DeclRefExpr":
        return AVal("const", s["cv"])
    if "cv" in n:
        return AVal("const", n["cv"])
    if s.k in ("IntegerLiteral", "CharacterLiteral"):
        return AVal("const", s.get("val"))
    if s.k == "DeclRefExpr":
        if s["decl"]["kind"] == "enumconst":
            return AVal("const", s["decl"]["val"])
        return ps.env.get(s["decl"]["name"], UNKNOWN)
    if s.k == "MemberExpr" and s.get("path") in ps.env:
        return ps.env[s["path"]]
    if s.k == "CallExpr":
        return AVal("call", node=s)
    if s.k == "BinaryOperator" and s.get("op") in ("==", "!=", "<", ">", "<=", ">="):
        l, r = _eval(ps, s.child(0)), _eval(ps, s.child(1))
        if (l.kind == "call" and r.kind == "const") or (r.kind == "call" and l.kind == "const"):
            # `flag = (f(x) != OK)`: the flag stands for this comparison; deciding the flag decides the comparison
            return AVal("cmpcall", node=s)
        if l.kind == "const" and r.kind == "const" and l.v is not None and r.v is not None:
            return AVal("const", int({"==": l.v == r.v, "!=": l.v != r.v, "<": l.v < r.v, ">": l.v > r.v,
                                      "<=": l.v <= r.v, ">=": l.v >= r.v}[s["op"]]))
        if l.kind == "ge" and r.kind == "const" and r.v is not None and s["op"] in (">", ">=", "!=") and \
                (l.v > r.v or (s["op"] == ">=" and l.v >= r.v)):
            return AVal("const", 1)
        # a value known to be non-zero compared with the constant 0 (unsigned: also ordered against it)
        for a_, b_, na, flip in ((l, r, s.child(0), False), (r, l, s.child(1), True)):
            if a_.kind == "nonzero" and b_.kind == "const" and b_.v == 0:
                op = s["op"]
                if flip:
                    op = {"<": ">", ">": "<", "<=": ">=", ">=": "<="}.get(op, op)
                if op == "!=":
                    return AVal("const", 1)
                if op == "==":
                    return AVal("const", 0)
                if na.strip_all_casts().get("signed") is False:
                    return AVal("const", 1 if op in (">", ">=") else 0)
        return UNKNOWN
    if s.k == "ConditionalOperator":
        d = ps.decisions.get(s.child(0).strip().id)
        if d is None:
            # decision keyed by the effective condition
            eff = s.child(0)
            while True:
                e2 = eff.strip()
                if e2.k == "BinaryOperator" and e2.get("op") in ("&&", "||"):
                    eff = e2.child(1)
                else:
                    break
            d = ps.decisions.get(eff.strip().id)
        if d is True:
            return _eval(ps, s.child(1))
        if d is False:
            return _eval(ps, s.child(2))
        return UNKNOWN
    if s.k == "UnaryOperator" and s.get("op") == "!":
        v = _eval(ps, s.child(0))
        t = v.truth()
        if t is not None:
            return AVal("const", 0 if t else 1)
        if v.kind == "call":
            return AVal("notcall", node=v.node)
        return UNKNOWN
    if s.k == "BinaryOperator" and s.get("op") in ("&", "&&"):
        a, b = _eval(ps, s.child(0)), _eval(ps, s.child(1))
        ta, tb = a.truth(), b.truth()
        if ta is False or tb is False:
            return AVal("const", 0)
        if ta is True:
            return b
        if tb is True:
            return a
        return UNKNOWN
    if s.k == "BinaryOperator" and s.get("op") == "=":
        return _eval(ps, s.child(1))
    return UNKNOWN


def _clone(ps):
    q = PathSummary()
    q.facts = list(ps.facts)
    q.calls = list(ps.calls)
    q.events = list(ps.events)
    q.env = dict(ps.env)
    q.decisions = dict(ps.decisions)
    q.blocks = list(ps.blocks)
    q.trace = list(ps.trace)
    q.casevals = {k: set(v) for k, v in ps.casevals.items()}
    for extra in ("_fork_helpers", "_depth", "stored_params", "_variants"):
        if hasattr(ps, extra):
            v = getattr(ps, extra)
            setattr(q, extra, set(v) if isinstance(v, set) else list(v) if isinstance(v, list) else v)
    return q


def _do_elem(ps, n):
    if n.k == "DeclStmt":
        for d in n.get("decls", []):
            if "init" in d and d["type"].get("tk") in ("int", "bool", "enum"):
                v_ = _eval(ps, n.fn.nodes[d["init"]])
                if v_.kind == "unknown":
                    v_ = AVal("sym", v=len(ps.events), node=n.fn.nodes[d["init"]])
                ps.env[d["name"]] = v_
            elif d["type"].get("tk") in ("int", "bool", "enum"):
                ps.env.pop(d["name"], None)
        return
    if n.k == "CallExpr":
        ps.calls.append(n)
        ps.events.append(("call", n))
        if getattr(ps, "_fork_helpers", False):
            _expand_procedure(ps, n)
        # address-taken locals become unknown
        roots = set()
        for a in C.call_args(n):
            p = a.strip_all_casts().get("path") or ""
            if p.startswith("&") and p[1:] in ps.env:
                ps.env[p[1:]] = UNKNOWN
            if p:
                roots.add(p.lstrip("&*"))
        for key in list(ps.casevals):
            if n.get("callee") is None or any(key == r or key.startswith(r + "->") or key.startswith(r + ".") for r in roots):
                del ps.casevals[key]
        for key in list(ps.env):
            if "->" in key or "." in key:
                if n.get("callee") is None or any(key == r or key.startswith(r + "->") or key.startswith(r + ".")
                                                   for r in roots):
                    del ps.env[key]
        return
    if n.k == "ReturnStmt":
        ps.ret_node = n
        ps.ret = _eval(ps, n.child(0)) if n.ch else AVal("const", None)
        return
    t = C.store_target(n)
    if t is None:
        return
    ps.events.append(("store", n))
    if t.get("path") in ps.casevals:
        del ps.casevals[t["path"]]
    if t.k == "MemberExpr" and t.get("path") and "[" not in t["path"] and t.get("tk") in ("int", "enum", "bool"):
        key = t["path"]
        if n.k == "BinaryOperator" and n.get("op") == "=":
            v = _eval(ps, n.child(1))
            if v.kind == "const":
                ps.env[key] = v
            else:
                ps.env.pop(key, None)
        else:
            ps.env.pop(key, None)
        return
    if t.k == "DeclRefExpr" and t["decl"]["kind"] in ("local", "param"):
        name = t["decl"]["name"]
        op = n.get("op")
        if n.k == "UnaryOperator":
            cur = ps.env.get(name)
            if cur is not None and cur.kind == "const" and cur.v is not None:
                ps.env[name] = AVal("const", cur.v + (1 if n["op"] == "++" else -1))
            elif cur is not None and cur.kind == "ge" and n["op"] == "++":
                ps.env[name] = AVal("ge", cur.v + 1)
            else:
                ps.env[name] = UNKNOWN
        elif op == "=":
            v_ = _eval(ps, n.child(1))
            if v_.kind == "unknown":
                v_ = AVal("sym", v=len(ps.events), node=n.child(1))
            ps.env[name] = v_
        elif op in ("+=", "-=") and C.const_of(n.child(1)) is not None:
            # x += k: the same as k increments
            k = C.const_of(n.child(1)) * (1 if op == "+=" else -1)
            cur = ps.env.get(name)
            if cur is not None and cur.kind == "const" and cur.v is not None:
                ps.env[name] = AVal("const", cur.v + k)
            elif cur is not None and cur.kind == "ge" and k > 0:
                ps.env[name] = AVal("ge", cur.v + k)
            else:
                ps.env[name] = UNKNOWN
        elif op == "&=":
            cur = ps.env.get(name, UNKNOWN)
            r = _eval(ps, n.child(1))
            if cur.truth() is False or r.truth() is False:
                ps.env[name] = AVal("const", 0)
            elif cur.truth() is True:
                ps.env[name] = r
            else:
                ps.env[name] = UNKNOWN
        else:
            ps.env[name] = UNKNOWN


def _branch(ps, cond, pol):
    """record the decision; returns False if infeasible under the environment"""
    ps.decisions[cond.strip().id] = pol
    for atom, apol in C.cond_facts(cond, pol):
        v = None
        a = atom.strip_all_casts()
        if a.k in ("IntegerLiteral", "CharacterLiteral") or (a.k == "DeclRefExpr" and a["decl"]["kind"] == "enumconst"):
            # a literal condition (`do { ... } while (0)`, `while (1)`): one way is infeasible, the other says nothing
            cv = C.const_of(a)
            if cv is not None:
                if bool(cv) != bool(apol):
                    return False
                continue
        if a.k == "DeclRefExpr" and a["decl"]["kind"] in ("local", "param"):
            v = ps.env.get(a["decl"]["name"])
            if v is None and a["decl"]["kind"] == "param" and a.get("tk") in ("int", "enum") and \
                    a["decl"]["name"] not in getattr(ps, "stored_params", ()):
                v = UNKNOWN       # a parameter that has not been assigned: its truth is learnt from this test
            if v is not None:
                t = v.truth()
                if t is not None and t != apol:
                    return False
                if v.kind == "call":
                    ps.env[a["decl"]["name"]] = AVal("callres", node=v.node, pol=apol)
                    ps.facts.append((v.node, apol))
                    ps.events.append(("branch", v.node, apol))
                    _expand_helper(ps, v.node, apol)
                    continue
                if v.kind == "cmpcall":
                    ps.env[a["decl"]["name"]] = AVal("const", 1 if apol else 0)
                    ps.facts.append((v.node, apol))
                    ps.events.append(("branch", v.node, apol))
                    continue
                if v.kind == "notcall":
                    ps.env[a["decl"]["name"]] = AVal("const", 1 if apol else 0)
                    ps.facts.append((v.node, not apol))
                    ps.events.append(("branch", v.node, not apol))
                    _expand_helper(ps, v.node, not apol)
                    continue
                if v.kind == "callres":
                    continue
                if v.kind == "const":
                    continue
                if v.kind in ("nonzero", "ge") and v.truth() is not None:
                    continue
                if v.kind == "sym" and v.node is not None and _is_condition(v.node) and _operands_untouched(ps, v):
                    ps.env[a["decl"]["name"]] = AVal("const", 1 if apol else 0)
                    ps.facts.append((atom, apol))
                    ps.events.append(("branch", atom, apol))
                    for a2, p2 in C.cond_facts(v.node, apol):
                        ps.facts.append((a2, p2))
                        ps.events.append(("branch", a2, p2))
                    continue
                if v.kind in ("unknown", "sym"):
                    if a.get("tk") == "bool":
                        ps.env[a["decl"]["name"]] = AVal("const", 1 if apol else 0)
                    elif a.get("tk") in ("int", "enum"):
                        ps.env[a["decl"]["name"]] = AVal("nonzero") if apol else AVal("const", 0)
        if a.k == "MemberExpr" and a.get("path") in ps.env:
            t = ps.env[a["path"]].truth()
            if t is not None and t != apol:
                return False
        # `p != NULL` / `p == NULL` / `r != 0` on a local that holds the result of a call: the truth test of that result
        if a.k == "BinaryOperator" and a.get("op") in ("==", "!="):
            handled = False
            for xs, cs in ((a.child(0), a.child(1)), (a.child(1), a.child(0))):
                x_ = xs.strip_all_casts()
                if x_.k == "DeclRefExpr" and x_["decl"]["kind"] == "local" and (C.const_of(cs) == 0 or C.is_null(cs)):
                    v = ps.env.get(x_["decl"]["name"])
                    if v is not None and v.kind in ("call", "callres"):
                        tpol = apol if a["op"] == "!=" else (not apol)
                        if v.kind == "callres":
                            if v.pol is not None and v.pol != tpol:
                                return False
                        else:
                            ps.env[x_["decl"]["name"]] = AVal("callres", node=v.node, pol=tpol)
                            ps.facts.append((v.node, tpol))
                            ps.events.append(("branch", v.node, tpol))
                            _expand_helper(ps, v.node, tpol)
                        handled = True
                        break
            # the comparison itself stays a fact as well (rules that look for `result == 0` keep finding it)
        # value sets of scalars that are compared with constants (shared with the switch bookkeeping): x == c / x != c
        if a.k == "BinaryOperator" and a.get("op") in ("==", "!="):
            for xs, cs in ((a.child(0), a.child(1)), (a.child(1), a.child(0))):
                key = xs.strip_all_casts().get("path")
                cv = C.const_of(cs)
                if key and cv is not None and xs.strip_all_casts().k in ("DeclRefExpr", "MemberExpr") and \
                        xs.strip_all_casts().get("tk") in ("int", "enum"):
                    is_eq = (a["op"] == "==") == bool(apol)
                    cur = ps.casevals.get(key)
                    if is_eq:
                        if cur is not None and cv not in cur:
                            return False
                        ps.casevals[key] = {cv}
                    elif cur is not None:
                        if cur == {cv}:
                            return False
                        ps.casevals[key] = cur - {cv}
                    break
        # comparisons of a tracked constant
        if a.k == "BinaryOperator" and a.get("op") in ("==", "!=", "<", ">", "<=", ">="):
            ev = _eval(ps, a)
            if ev.kind == "const" and ev.v is not None:
                if bool(ev.v) != apol:
                    return False
                continue
            l, r = _eval(ps, a.child(0)), _eval(ps, a.child(1))
            if l.kind == "const" and r.kind == "const" and l.v is not None and r.v is not None:
                res = {"==": l.v == r.v, "!=": l.v != r.v, "<": l.v < r.v, ">": l.v > r.v,
                       "<=": l.v <= r.v, ">=": l.v >= r.v}[a["op"]]
                if res != apol:
                    return False
                continue
        ps.facts.append((atom, apol))
        ps.events.append(("branch", atom, apol))
        if a.k == "CallExpr":
            _expand_helper(ps, a, apol)
    return True


def _is_condition(n):
    e = n.strip_all_casts()
    while e.k == "ParenExpr":
        e = e.child(0).strip_all_casts()
    if any(x.k == "CallExpr" for x in e.walk()):
        return False
    return (e.k == "BinaryOperator" and e.get("op") in ("<", ">", "<=", ">=", "==", "!=", "&&", "||")) or \
        (e.k == "UnaryOperator" and e.get("op") == "!")


def _operands_untouched(ps, v):
    ops = {x.get("path") for x in v.node.walk() if x.k in ("DeclRefExpr", "MemberExpr", "ArraySubscriptExpr") and x.get("path")}
    for e in ps.events[v.v or 0:]:
        if e[0] == "store":
            t = C.store_target(e[1])
            if t is not None and t.get("path") in ops:
                return False
        elif e[0] == "call":
            for a in C.call_args(e[1]):
                p = a.strip_all_casts().get("path") or ""
                if p.startswith("&") and p[1:] in ops:
                    return False
    return True


def resolve_text(ps, node, depth=0):
    """source text (blanks removed) of an integer expression with locals replaced by the expressions they were last assigned
    from on this path and conditional operators resolved by the decisions of this path"""
    s = node.strip_all_casts()
    while s.k == "ParenExpr":
        s = s.child(0).strip_all_casts()
    if s.k == "ConditionalOperator":
        c = _eval(ps, s.child(0)).truth()
        if c is None:
            cn = s.child(0).strip_all_casts()
            if cn.k == "DeclRefExpr":
                v = ps.env.get(cn["decl"]["name"])
                c = v.truth() if v is not None else None
        if c is not None:
            return resolve_text(ps, s.child(1) if c else s.child(2), depth)
    if s.k == "DeclRefExpr" and s.get("decl", {}).get("kind") == "local" and depth < 4:
        v = ps.env.get(s["decl"]["name"])
        if v is not None and v.kind == "sym" and v.node is not None and _operands_untouched(ps, v):
            return resolve_text(ps, v.node, depth + 1)
    if s.k == "BinaryOperator" and s.get("op") in ("+", "-", "*"):
        return "%s%s%s" % (resolve_text(ps, s.child(0), depth), s["op"], resolve_text(ps, s.child(1), depth))
    return s.src.replace(" ", "")


_HELPER_CACHE = {}


def _expand_helper(ps, call, pol):
    """A decision on the result of a small static helper of the same translation unit (`if (!skipSeparator(...))`) is also
    a decision on what the helper tested: the facts, calls and stores of the helper's paths that return this truth value
    are appended (all of them when one such path exists, the common ones otherwise).  The helper is analysed on a copy
    renamed into the caller's terms (facts.instantiate), so the appended facts read like the caller's own."""
    name = call.get("callee")
    fn = getattr(call, "fn", None)
    if not name or fn is None or getattr(ps, "_depth", 0) >= 2:
        return
    g = fn.tu.functions.get(name)
    if g is None or not g.static or g.name == fn.name or len(g.blocks) > 16 or C.loops(g):
        return
    key = (id(fn.tu), call.id, fn.name)
    sums = _HELPER_CACHE.get(key)
    if sums is None:
        from . import facts as F_
        try:
            clone, byvalue = F_.instantiate(g, call, "%s::" % g.name)
            sums = summarize(clone, limit=400)
        except Exception:
            sums = []
        _HELPER_CACHE[key] = sums
    sel = [q for q in sums if q.ret is not None and q.ret.truth() is not None and q.ret.truth() == bool(pol)]
    unknown = [q for q in sums if q.ret is None or q.ret.truth() is None]
    if unknown or not sel:
        return
    if len(sel) == 1:
        q = sel[0]
        ps.facts += list(q.facts)
        ps.calls += list(q.calls)
        ps.events += list(q.events)
        return
    if len(sel) <= 6 and getattr(ps, "_fork_helpers", False):
        # several paths of the helper give this truth value: the caller's path is continued once per helper path (the
        # enumerator forks), so that what the helper did on each of them - the error it queued - stays attributable
        ps._variants = getattr(ps, "_variants", []) + [sel]
        return
    common = None
    for q in sel:
        cur = {(a.src, p_ if not isinstance(p_, tuple) else str(p_)): (a, p_) for a, p_ in q.facts}
        common = cur if common is None else {k: v for k, v in common.items() if k in cur}
    for a, p_ in (common or {}).values():
        ps.facts.append((a, p_))
        ps.events.append(("branch", a, p_))


def _expand_procedure(ps, call):
    """A call statement to a small static helper that returns nothing (`pushNotPlainNumberError(context, &param);`) does
    what the helper does: its decisions, calls and stores belong to the caller's path.  One helper path: appended; several:
    the caller's path is continued once per helper path (fork at the next edge)."""
    name = call.get("callee")
    fn = getattr(call, "fn", None)
    if not name or fn is None or getattr(ps, "_depth", 0) >= 2:
        return
    g = fn.tu.functions.get(name)
    if g is None or not g.static or g.name == fn.name or len(g.blocks) > 16 or C.loops(g) or g.ret.get("t") != "void":
        return
    key = (id(fn.tu), call.id, fn.name, "proc")
    sums = _HELPER_CACHE.get(key)
    if sums is None:
        from . import facts as F_
        try:
            clone, byvalue = F_.instantiate(g, call, "%s::" % g.name)
            sums = summarize(clone, limit=400)
        except Exception:
            sums = []
        _HELPER_CACHE[key] = sums
    if not sums or len(sums) > 6:
        return
    if len(sums) == 1:
        q = sums[0]
        ps.facts += list(q.facts)
        ps.calls += list(q.calls)
        ps.events += list(q.events)
        return
    ps._variants = getattr(ps, "_variants", []) + [sums]


class TooManyPaths(Exception):
    pass


def summarize(fn, max_visits=2, limit=20000, params=None, fork_helpers=False):
    """all entry->exit path summaries of fn. `params`: {name: const} to specialise a call.  fork_helpers: a decision on the
    result of a small static helper that has several paths with that result continues once per helper path."""
    out = []
    count = [0]
    # locals assigned inside each loop: widened to unknown when the head is re-entered
    widen = {}
    incr_only = {}
    for head, body in C.loops(fn):
        names = set()
        up = {}
        for bid in body:
            for e in fn.blocks[bid].elems:
                t = C.store_target(e)
                # counters: updated incrementally (x++, x += k, x = x + k)
                if t is not None and t.k == "DeclRefExpr":
                    incr = e.k == "UnaryOperator" or e.get("op") not in ("=",)
                    if e.get("op") == "=":
                        incr = any(x.k == "DeclRefExpr" and x["decl"]["name"] == t["decl"]["name"]
                                   for x in e.child(1).walk())
                    if incr:
                        names.add(t["decl"]["name"])
                        isup = (e.k == "UnaryOperator" and e.get("op") == "++") or \
                               (e.get("op") == "+=" and (C.const_of(e.child(1)) or 0) > 0)
                        up[t["decl"]["name"]] = up.get(t["decl"]["name"], True) and isup
        widen[head.id] = names
        incr_only[head.id] = {k_ for k_, v_ in up.items() if v_}

    def rec(b, ps, visits):
        ps.blocks.append(b.id)
        for e in b.elems:
            ps.trace.append(("elem", e))
            _do_elem(ps, e)
        if b.id == fn.exit.id:
            out.append(ps)
            count[0] += 1
            if count[0] > limit:
                raise TooManyPaths(fn.name)
            return
        live = [(si, s) for si, s in enumerate(b.succs) if s is not None]
        for si, s in live:
            if visits.get(s.id, 0) >= max_visits:
                continue
            q = _clone(ps) if len(live) > 1 else ps
            lab = fn.edge_label(b, si)
            if lab[0] in ("true", "false") and lab[1] is not None:
                if not _branch(q, lab[1], lab[0] == "true"):
                    continue
                q.trace.append(("branch", lab[1], lab[0] == "true"))
            elif lab[0] == "case":
                sw = b.cond
                v = _eval(q, sw) if sw is not None else UNKNOWN
                if v.kind == "const" and v.v is not None and not (lab[1] <= v.v <= lab[2]):
                    continue
                if sw is not None:
                    key = sw.strip_all_casts().get("path")
                    if key:
                        cur = q.casevals.get(key)
                        new = set(range(lab[1], lab[2] + 1))
                        if cur is not None:
                            new &= cur
                            if not new:
                                continue
                        q.casevals[key] = new
                    q.facts.append((sw, lab))
                    q.events.append(("branch", sw, lab))
            elif lab[0] in ("default", "switch-exit"):
                sw = b.cond
                others = []
                for sj, t in enumerate(b.succs):
                    l2 = fn.edge_label(b, sj)
                    if l2[0] == "case":
                        others.append((l2[1], l2[2]))
                v = _eval(q, sw) if sw is not None else UNKNOWN
                if v.kind == "const" and v.v is not None and any(lo <= v.v <= hi for lo, hi in others):
                    continue
                if sw is not None:
                    key = sw.strip_all_casts().get("path")
                    if key and key in q.casevals:
                        rest = {x for x in q.casevals[key] if not any(lo <= x <= hi for lo, hi in others)}
                        if not rest:
                            continue
                        q.casevals[key] = rest
                    q.facts.append((sw, ("default", tuple(others))))
                    q.events.append(("branch", sw, ("default", tuple(others))))
            if s.id in widen and visits.get(s.id, 0) >= 1:
                for name in widen[s.id]:
                    if name in q.env and q.env[name].kind == "const":
                        if name in incr_only.get(s.id, ()) and q.env[name].v is not None:
                            q.env[name] = AVal("ge", q.env[name].v)
                        else:
                            q.env[name] = UNKNOWN
            visits[s.id] = visits.get(s.id, 0) + 1
            variants = getattr(q, "_variants", None)
            if variants:
                q._variants = []
                qs = [q]
                for sel in variants:
                    nxt = []
                    for x in qs:
                        for hv in sel:
                            y = _clone(x)
                            y._variants = []
                            y.facts += list(hv.facts)
                            y.calls += list(hv.calls)
                            y.events += list(hv.events)
                            nxt.append(y)
                    qs = nxt[:64]
                for y in qs:
                    rec(s, y, dict(visits))
            else:
                rec(s, q, visits)
            visits[s.id] -= 1

    ps0 = PathSummary()
    ps0._fork_helpers = fork_helpers
    if params:
        for k, v in params.items():
            ps0.env[k] = AVal("const", v)
    rec(fn.entry, ps0, {fn.entry.id: 1})
    return out
