"""Concrete evaluation of small, closed pieces of the library on constant arguments (partial evaluation).

Several rules need the VALUE a helper computes for a given constant argument - the prefix for a radix, the text for an
error code, the first divisor for a radix, the register bit for an error class - and must not care whether the helper
is written as a switch, an if-chain, a table with a search loop or a chain of conditional operators.  This module
evaluates such a helper the way the C abstract machine does, over the CFG clang built: every CFG element is evaluated
once, in order, from the cached values of its operands; terminators pick the successor.  Only closed computations are
evaluated (constant arguments, const tables, locals); anything else raises Stuck and the rule that asked has to say
"undecided".  Calls into the library are followed; calls the caller designates as effects are logged with their
evaluated arguments instead (so "which register bits does pushing error -113 set" is a question this can answer).

Nothing here runs the library: the source is interpreted by this module, statement by statement, on the facts the
extractor produced."""
import copy


class Stuck(Exception):
    pass


class Ptr:
    """pointer / lvalue: container (list for arrays and scalar boxes, dict for structs) and key (index or field)"""
    __slots__ = ("cont", "key")

    def __init__(self, cont, key):
        self.cont, self.key = cont, key

    def load(self):
        try:
            return self.cont[self.key]
        except (IndexError, KeyError, TypeError):
            raise Stuck("load outside an object")

    def store(self, v):
        try:
            self.cont[self.key] = v
        except (IndexError, KeyError, TypeError):
            raise Stuck("store outside an object")

    def add(self, n):
        if not isinstance(self.cont, list) or not isinstance(self.key, int):
            raise Stuck("arithmetic on a pointer that does not point into an array")
        return Ptr(self.cont, self.key + n)

    def __eq__(self, o):
        return isinstance(o, Ptr) and self.cont is o.cont and self.key == o.key

    def __hash__(self):
        return hash((id(self.cont), self.key))

    def __repr__(self):
        return "Ptr(%s)" % (self.key,)


class _Top:
    """an unknown value (a parameter the evaluation is generic in): every operation on it is unknown again, a branch on it
    is followed both ways (Machine.explore), a store through it is dropped (it points into the caller's memory)"""
    def __repr__(self):
        return "TOP"

    def __deepcopy__(self, memo):
        return self

    def __copy__(self):
        return self


TOP = _Top()


class Sym(_Top):
    """an unknown value with an identity: the value of a named argument, or the result of a call the evaluation does not
    enter.  Value-preserving conversions keep the identity (the widths passed through are recorded), every other
    operation yields a plain unknown.  Lets a rule see that THE argument (not just something unknown) reaches a sink."""
    def __init__(self, name, bits=None, trail=()):
        self.name, self.bits, self.trail = name, bits, tuple(trail)

    def cast(self, bits, signed):
        return Sym(self.name, self.bits, self.trail + ((bits, signed),))

    def intact(self):
        """no conversion on the way was narrower than the value's own width"""
        return all(b is None or self.bits is None or b >= self.bits for b, _s in self.trail)

    def __repr__(self):
        return "Sym(%s)" % self.name

    def __deepcopy__(self, memo):
        return self

    def __eq__(self, o):
        return isinstance(o, Sym) and o.name == self.name

    def __hash__(self):
        return hash(("Sym", self.name))


def unk(v):
    return isinstance(v, _Top)


class StopPath(Exception):
    def __init__(self, result=None):
        Exception.__init__(self)
        self.result = result


class Fork(Exception):
    """raised inside Frame.execute when a decision depends on an unknown value"""
    def __init__(self, block, choices):
        Exception.__init__(self)
        self.block, self.choices = block, choices


def cstring(p, limit=4096):
    """bytes of the NUL-terminated string a pointer points to"""
    out = []
    if not isinstance(p, Ptr):
        raise Stuck("not a string pointer")
    q = p
    while True:
        v = q.load()
        if not isinstance(v, int):
            raise Stuck("not a character")
        if v == 0 or len(out) > limit:
            return bytes(x & 0xFF for x in out)
        out.append(v)
        q = q.add(1)


def mkstring(s):
    data = [b if b < 128 else b - 256 for b in s.encode("latin-1")] + [0]
    return Ptr(data, 0)


def wrap(v, bits, signed):
    if unk(v) or not isinstance(v, int) or not bits:
        return v
    v &= (1 << bits) - 1
    if signed and v >= 1 << (bits - 1):
        v -= 1 << bits
    return v


def truth(v):
    if unk(v):
        raise Stuck("truth value of an unknown")
    if isinstance(v, Ptr):
        return True
    if isinstance(v, (int, float)):
        return v != 0
    raise Stuck("truth value of %r" % (v,))


_CTYPE = {
    "isdigit": lambda c: 48 <= c <= 57, "isalpha": lambda c: 65 <= c <= 90 or 97 <= c <= 122,
    "isalnum": lambda c: 48 <= c <= 57 or 65 <= c <= 90 or 97 <= c <= 122,
    "isxdigit": lambda c: 48 <= c <= 57 or 65 <= c <= 70 or 97 <= c <= 102,
    "isspace": lambda c: c in (32, 9, 10, 11, 12, 13), "islower": lambda c: 97 <= c <= 122, "isupper": lambda c: 65 <= c <= 90,
}


class Machine:
    def __init__(self, prog, effects=None, max_steps=200000, max_depth=8, externs=None):
        """effects: names of functions whose calls are logged (name, evaluated args) and return `effects[name]`
        externs: name -> python callable(machine, args) for functions without a body"""
        self.prog = prog
        self.effects = effects or {}
        self.externs = externs or {}
        self.log = []
        self.steps = 0
        self.max_steps = max_steps
        self.max_depth = max_depth
        self._globals = {}
        self.exploring = False
        self.follow = None        # when set: predicate(name) - library functions it rejects are not entered, their calls
                                  # are logged and yield an unknown value
        self.observer = None      # callable(kind, node, operands, frame); may raise StopPath(result)
        self.forks = 0
        self.max_forks = 400

    # ---- objects ------------------------------------------------------------------------
    def _from_json(self, v):
        if v is None:
            return 0
        if isinstance(v, dict):
            if set(v.keys()) == {"str"}:
                return mkstring(v["str"]) if v["str"] is not None else 0
            if set(v.keys()) == {"ref"}:
                return ("fn", v["ref"])           # address of a function (or of an object the evaluation does not follow)
            if "f" in v and "text" in v and len(v) == 2:
                return float(v["f"])
            return {k: self._from_json(x) for k, x in v.items()}
        if isinstance(v, list):
            return [self._from_json(x) for x in v]
        return v

    def global_object(self, name, fn=None):
        key = (name, fn)
        if key in self._globals:
            return self._globals[key]
        init = None
        if fn is not None:
            for tu in self.prog.tus:
                for sl in tu.static_locals:
                    if sl.get("name") == name and sl.get("function") in (fn, None):
                        # a const table, or a mutable static: the latter lives as long as this machine (it carries state
                        # from one evaluated call to the next, exactly as in the program)
                        init = sl if "init" in sl else {"init": zero_object(self.prog, sl.get("type", {}))}
        if init is None:
            g = self.prog.global_var(name)
            if g is not None and g.get("const"):
                init = g
        if init is None:
            raise Stuck("no constant initialiser known for %s" % name)
        obj = self._from_json(init["init"])
        if not isinstance(obj, list):
            obj = [obj]
        self._globals[key] = obj
        return obj

    def default_value(self, ty):
        tk = ty.get("tk")
        if tk == "array":
            n = ty.get("n") or 0
            return [0] * n     # elements of scalar type; arrays of structs are built lazily on first store
        if tk == "record":
            return {}
        return None            # uninitialised scalar

    def fresh(self, name):
        self.nstub = getattr(self, "nstub", 0) + 1
        return Sym("ret:%s#%d" % (name, self.nstub))

    # ---- calls --------------------------------------------------------------------------
    def call(self, name, args, depth=0):
        if name in self.effects:
            self.log.append((name, list(args)))
            r = self.effects[name]
            if r == "fresh":
                return self.fresh(name)
            return r(self, args) if callable(r) else r
        if name in self.externs:
            return self.externs[name](self, args)
        if name in _CTYPE or name in ("tolower", "toupper", "strlen", "__builtin_strlen", "strnlen", "BSD_strnlen", "strncmp",
                                      "strncasecmp", "OUR_strncasecmp", "memcmp", "strcmp", "strcasecmp"):
            if any(unk(a) for a in args):
                return TOP
        if name in ("memcpy", "memmove", "__builtin_memcpy", "__builtin_memmove", "memset", "__builtin_memset") and \
                any(unk(a) for a in args):
            if unk(args[0]):
                return TOP                      # writes into the caller's memory
            raise Stuck("%s with unknown operands into a known object" % name)
        b = self._builtin(name, args)
        if b is not NotImplemented:
            return b
        f = self.prog.fn(name) if name else None
        if self.follow is not None and (f is None or not self.follow(name)):
            self.log.append((name, list(args)))
            # whatever the function may write through a pointer to non-const becomes unknown
            if f is not None:
                for prm, a in zip(f.params, args):
                    ct = prm["type"].get("ct") or ""
                    if isinstance(a, Ptr) and prm["type"].get("tk") == "ptr" and not ct.startswith("const "):
                        try:
                            a.store(TOP)
                        except Stuck:
                            pass
            self.nstub = getattr(self, "nstub", 0) + 1
            return Sym("ret:%s#%d" % (name, self.nstub))
        if f is None:
            raise Stuck("call of %s, which has no body here" % name)
        if depth >= self.max_depth:
            raise Stuck("call depth")
        return self.run(f, args, depth + 1)

    def _builtin(self, name, args):
        if name in _CTYPE:
            c = args[0]
            return int(_CTYPE[name](c)) if isinstance(c, int) and -1 <= c <= 255 else 0
        if name in ("tolower", "toupper"):
            c = args[0]
            if not isinstance(c, int):
                raise Stuck(name)
            if name == "tolower":
                return c + 32 if 65 <= c <= 90 else c
            return c - 32 if 97 <= c <= 122 else c
        if name in ("strlen", "__builtin_strlen"):
            return len(cstring(args[0]))
        if name in ("strnlen", "BSD_strnlen"):
            n, q, k = args[1], args[0], 0
            while k < n and q.add(k).load() != 0:
                k += 1
            return k
        if name in ("strncmp", "strncasecmp", "OUR_strncasecmp", "memcmp", "strcmp", "strcasecmp"):
            a, b = args[0], args[1]
            n = args[2] if len(args) > 2 else 1 << 30
            fold = (lambda c: c + 32 if 65 <= c <= 90 else c) if "case" in name else (lambda c: c)
            for i in range(n):
                c1, c2 = a.add(i).load() & 0xFF, b.add(i).load() & 0xFF
                if fold(c1) != fold(c2):
                    return fold(c1) - fold(c2)
                if c1 == 0 and name != "memcmp":
                    return 0
            return 0
        if name in ("memcpy", "memmove", "__builtin_memcpy", "__builtin_memmove"):
            d, s, n = args
            vals = [s.add(i).load() for i in range(n)]
            for i, v in enumerate(vals):
                d.add(i).store(v)
            return d
        if name in ("free",):
            return None
        if name == "__ctype_b_loc":
            # glibc's classification table behind isalpha() & co. (little-endian bit layout of <ctype.h>), C locale
            if not hasattr(self, "_ctype"):
                bit = {"upper": 1 << 8, "lower": 1 << 9, "alpha": 1 << 10, "digit": 1 << 11, "xdigit": 1 << 12, "space": 1 << 13,
                       "print": 1 << 14, "graph": 1 << 15, "blank": 1 << 0, "cntrl": 1 << 1, "punct": 1 << 2, "alnum": 1 << 3}
                tab = []
                for c in range(-128, 256):
                    m_ = 0
                    if 0 <= c < 128:
                        ch = chr(c)
                        if "A" <= ch <= "Z":
                            m_ |= bit["upper"] | bit["alpha"] | bit["alnum"]
                        if "a" <= ch <= "z":
                            m_ |= bit["lower"] | bit["alpha"] | bit["alnum"]
                        if "0" <= ch <= "9":
                            m_ |= bit["digit"] | bit["alnum"]
                        if ch in "0123456789abcdefABCDEF":
                            m_ |= bit["xdigit"]
                        if c in (32, 9, 10, 11, 12, 13):
                            m_ |= bit["space"]
                        if c in (32, 9):
                            m_ |= bit["blank"]
                        if 32 <= c < 127:
                            m_ |= bit["print"]
                        if 33 <= c < 127:
                            m_ |= bit["graph"]
                            if not (m_ & bit["alnum"]):
                                m_ |= bit["punct"]
                        if c < 32 or c == 127:
                            m_ |= bit["cntrl"]
                    tab.append(m_)
                self._ctype = Ptr([Ptr(tab, 128)], 0)
            return self._ctype
        if name in ("memset", "__builtin_memset"):
            d, c, n = args
            for i in range(n):
                d.add(i).store(wrap(c, 8, True))
            return d
        return NotImplemented

    # ---- function activation --------------------------------------------------------------
    def run(self, f, args, depth=0):
        f = f.pristine()
        fr = Frame(self, f, depth)
        for p, a in zip(f.params, args):
            if a is None:
                continue
            ty = p["type"]
            if unk(a):
                fr.vars[p["name"]] = [a.cast(ty.get("bits"), ty.get("signed")) if isinstance(a, Sym) and ty.get("tk") in ("int", "enum", "bool") else a]
                continue
            if ty.get("tk") in ("int", "bool", "enum") and isinstance(a, int):
                a = int(bool(a)) if ty.get("tk") == "bool" else wrap(a, ty.get("bits"), ty.get("signed"))
            fr.vars[p["name"]] = [a]
        return fr.execute()


class Frame:
    def __init__(self, m, f, depth):
        self.m, self.f, self.depth = m, f, depth
        self.vars = {}          # name -> box: [value] for scalars/structs, the list itself for arrays
        self.cache = {}
        self.decided = {}       # condition node id -> polarity chosen at a fork on an unknown value
        self.plog = []          # calls logged on THIS path (outermost activation; copied at forks)

    def clone(self):
        memo = {}
        for obj in self.m._globals.values():
            memo[id(obj)] = obj
        q = Frame(self.m, self.f, self.depth)
        q.vars, q.cache, q.decided, q.plog = copy.deepcopy((self.vars, self.cache, self.decided, self.plog), memo)
        return q

    def observe(self, kind, node, operands):
        if self.m.observer is not None:
            self.m.observer(kind, node, operands, self)

    def cond_truth(self, x):
        """truth of a condition operand: its value, or the way taken at the fork when the value is unknown"""
        v = self.value_of(x)
        if isinstance(v, Ptr) and x.get("lv"):
            v = v.load()
        if unk(v):
            for i in (x.id, x.strip().id, x.strip_all_casts().id):
                if i in self.decided:
                    return self.decided[i]
            return None
        return truth(v)

    # one CFG element, from the cached values of its operands
    def ev(self, n):
        m = self.m
        m.steps += 1
        if m.steps > m.max_steps:
            raise Stuck("step budget exhausted in %s" % self.f.name)
        k = n.k

        def val(i):
            return self.value_of(n.child(i))
        if k in ("IntegerLiteral", "CharacterLiteral"):
            return n["val"]
        if k == "FloatingLiteral":
            try:
                return float(n.get("val", n.src.rstrip("fFlL")))
            except ValueError:
                raise Stuck("floating literal")
        if k == "StringLiteral":
            return mkstring(n.get("str") or "")       # an lvalue array; ArrayToPointerDecay yields the same pointer
        if k == "UnaryExprOrTypeTraitExpr" or (k == "ConstantExpr" and "cv" in n):
            if "cv" in n:
                return n["cv"]
            raise Stuck("sizeof")
        if k in ("ParenExpr", "ConstantExpr"):
            return val(0)
        if k == "DeclRefExpr":
            d = n["decl"]
            if d["kind"] == "enumconst":
                return d["val"]
            if d["kind"] == "function":
                return ("fn", d["name"])
            if d["kind"] in ("param", "local"):
                b = self.vars.get(d["name"])
                if b is None:
                    # a static const table declared inside the function
                    try:
                        b = self.vars[d["name"]] = m.global_object(d["name"], self.f.name)
                        if n.get("tk") != "array":
                            b = self.vars[d["name"]] = [b[0]] if len(b) == 1 else b
                    except Stuck:
                        b = self.vars[d["name"]] = [None]
                return Ptr(b, 0)
            if d["kind"] == "static_local":
                b = self.vars.get(d["name"])
                if b is None:
                    b = self.vars[d["name"]] = m.global_object(d["name"], self.f.name)   # const tables only
                return Ptr(b, 0)
            if d["kind"] == "global":
                return Ptr(m.global_object(d["name"]), 0)
            raise Stuck("reference to %s" % d["name"])
        if k in ("ImplicitCastExpr", "CStyleCastExpr"):
            v = val(0)
            ck = n.get("ck")
            if isinstance(v, Sym) and ck in ("IntegralCast", "NoOp", "IntegralToBoolean") or \
                    (isinstance(v, Sym) and ck is None and n.get("tk") in ("int", "enum")):
                return v.cast(n.get("bits"), n.get("signed")) if ck != "NoOp" else v
            if isinstance(v, Sym) and ck in ("BitCast",):
                return v
            if unk(v):
                return TOP
            if ck == "LValueToRValue":
                if not isinstance(v, Ptr):
                    raise Stuck("load from a non-lvalue")
                r = v.load()
                if r is None:
                    raise Stuck("read of an uninitialised object (%s)" % n.src)
                if isinstance(r, (list,)) and n.get("tk") == "array":
                    return v
                if isinstance(r, int) and n.get("tk") in ("int", "enum") and n.get("bits"):
                    r = wrap(r, n.get("bits"), n.get("signed"))     # table values arrive as signed 64-bit numbers
                return r
            if ck in ("ArrayToPointerDecay",):
                if isinstance(v, Ptr):
                    obj = v.cont if (v.key == 0 and isinstance(v.cont, list) and n.child(0).strip_all_casts().k in
                                     ("DeclRefExpr", "StringLiteral")) else None
                    if obj is not None:
                        return Ptr(obj, 0)
                    inner = v.load()
                    if isinstance(inner, list):
                        return Ptr(inner, 0)
                    return v
                raise Stuck("array decay")
            if ck in ("NoOp", "BitCast", "FunctionToPointerDecay", "BuiltinFnToFnPtr", "ToVoid"):
                return v
            if ck == "NullToPointer":
                return 0
            if ck in ("IntegralToBoolean", "PointerToBoolean"):
                return int(truth(v))
            if ck == "IntegralCast" or (ck is None and n.get("tk") in ("int", "enum", "bool")):
                if isinstance(v, float):
                    v = int(v)
                if isinstance(v, int):
                    return int(bool(v)) if n.get("tk") == "bool" else wrap(v, n.get("bits"), n.get("signed"))
                return v
            if ck == "IntegralToFloating":
                return float(v)
            if ck == "FloatingToIntegral":
                return wrap(int(v), n.get("bits"), n.get("signed"))
            return v
        if k == "MemberExpr":
            b = val(0)
            if unk(b):
                return TOP
            if not isinstance(b, Ptr):
                raise Stuck("member access through a non-pointer")
            obj = b.load()
            if unk(obj):
                return TOP
            if obj is None and not n.get("arrow"):
                obj = {}
                b.store(obj)
            if not isinstance(obj, dict):
                raise Stuck("member of a non-struct")
            if n["member"] not in obj:
                obj[n["member"]] = None
            return Ptr(obj, n["member"])
        if k == "ArraySubscriptExpr":
            a, i = val(0), val(1)
            if unk(a) or unk(i):
                return TOP
            if isinstance(i, Ptr):
                a, i = i, a
            if not isinstance(a, Ptr) or not isinstance(i, int):
                raise Stuck("subscript")
            return a.add(i)
        if k == "UnaryOperator":
            op = n["op"]
            if op in ("&", "*"):
                v = val(0)
                if unk(v) or isinstance(v, Ptr):
                    return v
                raise Stuck("%s on a non-lvalue / non-pointer" % op)
            if op in ("++", "--"):
                lv = val(0)
                if unk(lv):
                    return TOP
                if not isinstance(lv, Ptr):
                    raise Stuck("++ on a non-lvalue")
                old = lv.load()
                if old is None:
                    raise Stuck("++ of an uninitialised object")
                if unk(old):
                    return TOP
                d = 1 if op == "++" else -1
                new = old.add(d) if isinstance(old, Ptr) else wrap(old + d, n.get("bits"), n.get("signed"))
                lv.store(new)
                return old if n.get("postfix") else new
            v = val(0)
            if unk(v):
                return TOP
            if op == "!":
                return int(not truth(v))
            if not isinstance(v, (int, float)):
                raise Stuck("unary %s" % op)
            r = {"-": lambda: -v, "+": lambda: v, "~": lambda: ~v}[op]()
            return wrap(r, n.get("bits"), n.get("signed")) if isinstance(r, int) else r
        if k == "BinaryOperator":
            op = n["op"]
            if op in ("&&", "||"):
                l = self.cond_truth(n.child(0))
                if l is None:
                    return TOP
                if op == "&&" and not l:
                    return 0
                if op == "||" and l:
                    return 1
                r = self.cond_truth(n.child(1))
                return TOP if r is None else int(r)
            if op == ",":
                val(0)
                return val(1)
            if op == "=":
                lv, v = val(0), val(1)
                if unk(lv):
                    self.observe("store-unknown", n, (lv, v))
                    return v
                if not isinstance(lv, Ptr):
                    raise Stuck("assignment to a non-lvalue")
                if isinstance(v, dict):
                    v = copy.deepcopy(v)
                self.observe("store", n, (lv, v))
                lv.store(v)
                return v
            a, b = val(0), val(1)
            self.observe("arith", n, (a, b))
            return self.arith(op, a, b, n)
        if k == "CompoundAssignOperator":
            lv, b = val(0), val(1)
            if unk(lv):
                return TOP
            if not isinstance(lv, Ptr):
                raise Stuck("compound assignment to a non-lvalue")
            a = lv.load()
            if a is None:
                raise Stuck("compound assignment to an uninitialised object")
            self.observe("arith", n, (a, b))
            r = self.arith(n["op"][:-1], a, b, n)
            t = n.child(0)
            if isinstance(r, int):
                r = wrap(r, t.get("bits") or n.get("bits"), t.get("signed") if t.get("bits") else n.get("signed"))
            lv.store(r)
            return r
        if k == "ConditionalOperator":
            c = self.cond_truth(n.child(0))
            if c is None:
                return TOP
            return val(1) if c else val(2)
        if k == "CallExpr":
            args = [self.value_of(a) for a in n.ch[1:]]
            name = n.get("callee")
            if name is None:
                cal = self.value_of(n.child(0))
                if isinstance(cal, tuple) and cal[0] == "fn":
                    name = cal[1]
                elif unk(cal):
                    self.observe("call-unknown", n, args)
                    return TOP
                else:
                    raise Stuck("indirect call")
            self.observe("call", n, args)
            n0 = len(m.log)
            r = m.call(name, args, self.depth)
            if self.depth == 0:
                self.plog += m.log[n0:]
            return r
        if k == "InitListExpr":
            vals = [self.value_of(x) for x in n.ch]
            if n.get("tk") == "record":
                rec = self.m.prog.records.get(n.get("record") or "") or {}
                names = [f_["name"] for f_ in rec.get("fields", [])]
                return {names[i] if i < len(names) else i: v for i, v in enumerate(vals)}
            return vals
        raise Stuck("cannot evaluate %s" % k)

    def arith(self, op, a, b, n):
        if unk(a) or unk(b):
            return TOP
        if isinstance(a, Ptr) or isinstance(b, Ptr):
            if op == "+":
                return a.add(b) if isinstance(a, Ptr) else b.add(a)
            if op == "-" and isinstance(a, Ptr) and isinstance(b, int):
                return a.add(-b)
            if op == "-" and isinstance(a, Ptr) and isinstance(b, Ptr):
                if a.cont is not b.cont:
                    raise Stuck("difference of unrelated pointers")
                return a.key - b.key
            if op in ("==", "!="):
                eqv = (a == b) if isinstance(a, Ptr) and isinstance(b, Ptr) else False
                return int(eqv if op == "==" else not eqv)
            if op in ("<", "<=", ">", ">=") and isinstance(a, Ptr) and isinstance(b, Ptr) and a.cont is b.cont:
                return int({"<": a.key < b.key, "<=": a.key <= b.key, ">": a.key > b.key, ">=": a.key >= b.key}[op])
            raise Stuck("pointer operator %s" % op)
        if a is None or b is None:
            raise Stuck("operand without a value")
        if op in ("==", "!=", "<", "<=", ">", ">="):
            return int({"==": a == b, "!=": a != b, "<": a < b, "<=": a <= b, ">": a > b, ">=": a >= b}[op])
        if isinstance(a, float) or isinstance(b, float):
            if op in ("+", "-", "*"):
                return {"+": a + b, "-": a - b, "*": a * b}[op]
            if op == "/":
                if b == 0:
                    raise Stuck("division by zero")
                return a / b
            raise Stuck("float operator %s" % op)
        if op in ("/", "%"):
            if b == 0:
                raise Stuck("division by zero")
            q = abs(a) // abs(b)
            if (a < 0) != (b < 0):
                q = -q
            r = q if op == "/" else a - q * b
        elif op == "<<":
            r = a << b if 0 <= b < 128 else 0
        elif op == ">>":
            r = a >> b if 0 <= b < 128 else 0
        else:
            f = {"+": lambda: a + b, "-": lambda: a - b, "*": lambda: a * b, "&": lambda: a & b, "|": lambda: a | b,
                 "^": lambda: a ^ b}.get(op)
            if f is None:
                raise Stuck("operator %s" % op)
            r = f()
        return wrap(r, n.get("bits"), n.get("signed"))

    def value_of(self, x):
        """value of a node: cached when it was a CFG element already evaluated, computed on the spot otherwise (nodes the
        CFG does not list on their own: parentheses, constant expressions)"""
        if x.id in self.f.where:
            if x.id in self.cache:
                return self.cache[x.id]
            v = self.cache[x.id] = self.ev(x)      # an element of a block not visited yet on this path
            return v
        return self.ev(x)

    def execute(self):
        outs = self.execute_all(self.f.entry)
        if len(outs) != 1:
            raise Stuck("a decision in %s depends on an unknown value" % self.f.name)
        v = outs[0][0]
        if isinstance(v, tuple) and v and v[0] == "stopped":
            raise StopPath(v[1])
        return v

    def execute_all(self, b):
        """run from block b to the return; returns [(value, frame)] - more than one when a decision on an unknown value
        forked the activation (outermost activation in exploring mode only)"""
        f = self.f
        try:
            while True:
                for e in b.elems:
                    k = e.k
                    if k == "ReturnStmt":
                        if e.ch:
                            v = self.value_of(e.child(0))
                            return [(copy.deepcopy(v) if isinstance(v, dict) else v, self)]
                        return [(None, self)]
                    if k == "DeclStmt":
                        self.declare(e)
                        continue
                    if k in ("BreakStmt", "ContinueStmt", "CompoundStmt", "NullStmt", "CaseStmt", "DefaultStmt", "LabelStmt", "GotoStmt"):
                        continue
                    # an expression element: (re)evaluate, overwriting what an earlier visit of this block cached
                    self.cache[e.id] = self.ev(e)
                succs = b.succs
                if not succs:
                    return [(None, self)]
                tk = b.term_kind
                if tk == "SwitchStmt":
                    v = self.value_of(f.nodes[b.term["cond"]]) if b.term and "cond" in b.term else None
                    if isinstance(v, Ptr):
                        v = v.load()
                    if unk(v):
                        return self.fork(b, [(s_, None) for s_ in succs if s_ is not None], None)
                    nxt = dflt = ext = None
                    for i, s_ in enumerate(succs):
                        lab = f.edge_label(b, i)
                        if lab[0] == "case" and lab[1] is not None and lab[1] <= v <= (lab[2] if lab[2] is not None else lab[1]):
                            nxt = s_
                        elif lab[0] == "default":
                            dflt = s_
                        elif lab[0] == "switch-exit":
                            ext = s_
                    b = nxt or dflt or ext
                    if b is None:
                        raise Stuck("switch without a target")
                    continue
                if len(succs) == 2 and b.term and "cond" in b.term:
                    # the terminator's own condition node (for `a && b` in a loop condition that is the whole conjunction,
                    # which was evaluated as an element of this block from the operands actually visited)
                    cn = f.nodes[b.term["cond"]]
                    v = self.value_of(cn)
                    if isinstance(v, Ptr) and cn.get("lv"):
                        v = v.load()
                    if unk(v):
                        t_ = self.cond_truth(cn)
                        if t_ is None:
                            return self.fork(b, [(succs[0], True), (succs[1], False)], cn)
                        b = succs[0] if t_ else succs[1]
                    else:
                        b = succs[0] if truth(v) else succs[1]
                    if b is None:
                        raise Stuck("edge pruned by the CFG builder was taken")
                    continue
                live = [s_ for s_ in succs if s_ is not None]
                if not live:
                    return [(None, self)]
                b = live[0]
        except StopPath as sp:
            return [(("stopped", sp.result), self)]

    def fork(self, b, choices, cn):
        m = self.m
        if not m.exploring or self.depth != 0:
            raise Stuck("a decision in %s depends on an unknown value" % self.f.name)
        out = []
        for succ, pol in choices:
            if succ is None:
                continue
            m.forks += 1
            if m.forks > m.max_forks:
                raise Stuck("too many paths over unknown values in %s" % self.f.name)
            q = self.clone()
            if cn is not None and pol is not None:
                for i in (cn.id, cn.strip().id, cn.strip_all_casts().id):
                    q.decided[i] = pol
            out += q.execute_all(succ)
        return out

    def declare(self, e):
        f = self.f
        for d in e.get("decls", []):
            ty = d.get("type", {})
            if d.get("static"):
                continue
            if "init" in d:
                v = self.value_of(f.nodes[d["init"]])
                if ty.get("tk") == "array":
                    if isinstance(v, Ptr):          # char buf[] = "literal"
                        v = list(v.cont)
                    n_ = ty.get("n")
                    if isinstance(v, list) and n_ and len(v) < n_:
                        v = v + [0] * (n_ - len(v))
                    self.vars[d["name"]] = v
                else:
                    if isinstance(v, dict):
                        v = copy.deepcopy(v)
                    elif isinstance(v, int) and ty.get("tk") in ("int", "enum"):
                        v = wrap(v, ty.get("bits"), ty.get("signed"))
                    elif isinstance(v, int) and ty.get("tk") == "bool":
                        v = int(bool(v))
                    self.vars[d["name"]] = [v]
            else:
                dv = self.m.default_value(ty)
                self.vars[d["name"]] = dv if ty.get("tk") == "array" else [dv]


def explore(prog, fname, args, observer=None, follow=None, **kw):
    """all paths of `fname` under arguments some of which are TOP (unknown): a branch on an unknown value is followed both
    ways (in the outermost activation only).  Returns [(returned value | ('stopped', result), frame)]."""
    m = Machine(prog, **kw)
    m.exploring = True
    m.observer = observer
    m.follow = follow
    f = prog.fn(fname)
    if f is None:
        raise Stuck("no function %s" % fname)
    f = f.pristine()
    fr = Frame(m, f, 0)
    for p, a in zip(f.params, args):
        if a is None:
            continue
        fr.vars[p["name"]] = [a]
    return fr.execute_all(f.entry), m


def lex_on(prog, fname, data, extra=()):
    """evaluate a token recogniser `fname(lex_state_t *, scpi_token_t *, ...)` on the byte string `data`:
    returns (returned length, token dict, bytes consumed)"""
    buf = [b if b < 128 else b - 256 for b in data] + [0]
    state = {"buffer": Ptr(buf, 0), "pos": Ptr(buf, 0), "len": len(data)}
    token = {}
    m = Machine(prog, max_steps=100000)
    f = prog.fn(fname)
    if f is None:
        raise Stuck("no function %s" % fname)
    r = m.run(f, [Ptr([state], 0), Ptr([token], 0)] + list(extra))
    pos = state["pos"]
    return r, token, (pos.key if isinstance(pos, Ptr) and pos.cont is buf else None)


def zero_object(prog, ty, depth=0):
    """an object of the given type with every scalar 0 and every pointer NULL (what memset(0) / static storage gives)"""
    tk = ty.get("tk")
    if tk == "record" and depth < 6:
        name = (ty.get("ct") or "").replace("const ", "").replace("struct ", "").replace("union ", "").strip()
        rec = prog.records.get(name) or prog.records.get((ty.get("t") or "").replace("const ", "").strip())
        if rec is None:
            return {}
        return {f["name"]: zero_object(prog, f["type"], depth + 1) for f in rec["fields"]}
    if tk == "array":
        n = ty.get("n") or 0
        et = dict(ty)
        ct = ty.get("ct") or ""
        # element type: strip the last [n]
        if "[" in ct:
            ect = ct[:ct.rindex("[")].strip()
            if ect.startswith("struct ") or ect.startswith("const struct "):
                return [zero_object(prog, {"tk": "record", "ct": ect}, depth + 1) for _ in range(n)]
        return [0] * n
    return 0


def call(prog, fname, args, **kw):
    """value returned by prog's function `fname` for the constant arguments `args`; (value, effect log)"""
    m = Machine(prog, **kw)
    f = prog.fn(fname)
    if f is None:
        raise Stuck("no function %s" % fname)
    v = m.run(f, args)
    return v, m.log


def as_text(v):
    """python string for a returned `const char *` (None for NULL)"""
    if v == 0 or v is None:
        return None
    return cstring(v).decode("latin-1")
