"""Inductive-invariant check for the ring buffer mutators (DESIGN.md C10-Q1).

Every path of a (loop-free) mutator is turned into a guarded transformer over the ring fields:
assignments are evaluated symbolically as linear forms over {wr, rd, count, size} with an
optional `mod size`.  PROOF (all capacities): interval bounds that are linear in `size` and a
congruence argument.  REFUTATION: a small integer model (capacity 1..6, every state satisfying
the invariant and the path's guards) evaluated with C semantics on the extracted expressions.
Neither => undecided."""
import itertools

from . import cfg as C
from . import paths as P

FIELDS = ("wr", "rd", "count", "size")


class Unsupported(Exception):
    pass


# ---- symbolic linear forms: a*size + sum(c_v * v) + k, optionally reduced mod size -------------
class Lin:
    def __init__(self, coefs=None, k=0, mod=False, dividend=None):
        self.c = dict(coefs or {})
        self.k = k
        self.mod = mod            # value is (dividend) mod size
        self.dividend = dividend  # Lin before reduction

    def add(self, o, sign=1):
        if self.mod or o.mod:
            # congruence-only arithmetic is not needed by the ring code
            raise Unsupported("arithmetic on a reduced value")
        c = dict(self.c)
        for v, x in o.c.items():
            c[v] = c.get(v, 0) + sign * x
        return Lin(c, self.k + sign * o.k)

    def core(self):
        return self.dividend if self.mod else self

    def __repr__(self):
        t = ["%+d*%s" % (x, v) for v, x in sorted(self.c.items()) if x] + (["%+d" % self.k] if self.k else [])
        s = " ".join(t) or "0"
        return "(%s) mod size" % self.dividend if self.mod else s


def field_of(node, fifo):
    p = node.get("path") or ""
    for f in FIELDS:
        if p == "%s->%s" % (fifo, f):
            return f
    return None


PROG = [None]


def inline_call(n):
    """(callee function, its single return expression, {param: argument node}) for a pure one-liner helper"""
    prog = PROG[0]
    if prog is None or n.k != "CallExpr" or not n.get("callee"):
        return None
    g = prog.fn(n["callee"])
    if g is None:
        return None
    rets = [x for x in g.nodes.values() if x.k == "ReturnStmt" and x.ch]
    has_store = any(C.store_target(x) is not None for x in g.nodes.values())
    if len(rets) != 1 or has_store:
        return None
    args = C.call_args(n)
    return g, rets[0].child(0), {p["name"]: a for p, a in zip(g.params, args)}


def sym(node, env, fifo, subst=None):
    n = node.strip_all_casts()
    if subst and n.k == "DeclRefExpr" and n["decl"]["name"] in subst:
        a, aenv_fifo, asub = subst[n["decl"]["name"]]
        return sym(a, env, aenv_fifo, asub)
    ic = inline_call(n)
    if ic:
        g, rexpr, amap = ic
        # the helper's own fifo parameter is whatever pointer argument it received
        gfifo = None
        for pn, a in amap.items():
            if a.strip_all_casts().get("path") == fifo:
                gfifo = pn
        sub = {pn: (a, fifo, subst) for pn, a in amap.items()}
        return sym(rexpr, env, gfifo or fifo, sub)
    c = C.const_of(n)
    if c is not None and n.k != "DeclRefExpr":
        return Lin({}, c)
    f = field_of(n, fifo)
    if f:
        return env[f]
    if n.k == "BinaryOperator" and n.get("op") in ("+", "-"):
        return sym(n.child(0), env, fifo, subst).add(sym(n.child(1), env, fifo, subst), 1 if n["op"] == "+" else -1)
    if n.k == "BinaryOperator" and n.get("op") == "%":
        d = sym(n.child(1), env, fifo, subst)
        if d.mod or d.c != {"size": 1} or d.k != 0:
            raise Unsupported("modulus `%s` is not the capacity" % n.child(1).src)
        a = sym(n.child(0), env, fifo, subst)
        if a.mod:
            raise Unsupported("nested modulo")
        return Lin(mod=True, dividend=a)
    raise Unsupported("`%s`" % n.src)


# bounds of a Lin as (a, b) meaning a*size + b, for size >= 1, under per-field bounds
def bounds(l, fb):
    if l.mod:
        return (0, 0), (1, -1)
    lo = [0, l.k]
    hi = [0, l.k]
    for v, x in l.c.items():
        if not x:
            continue
        vlo, vhi = fb[v]
        a, b = (vlo, vhi) if x > 0 else (vhi, vlo)
        lo[0] += x * a[0]
        lo[1] += x * a[1]
        hi[0] += x * b[0]
        hi[1] += x * b[1]
    return tuple(lo), tuple(hi)


def ge0(ab):       # a*size + b >= 0 for all size >= 1
    a, b = ab
    return a >= 0 and a + b >= 0


def le(ab, cd):    # a*size+b <= c*size+d for all size >= 1
    return ge0((cd[0] - ab[0], cd[1] - ab[1]))


# ---- concrete C evaluation of the extracted expressions (refutation only) -------------------------
def conc(node, st, fifo, subst=None):
    n = node.strip_all_casts()
    if subst and n.k == "DeclRefExpr" and n["decl"]["name"] in subst:
        a, afifo, asub = subst[n["decl"]["name"]]
        return conc(a, st, afifo, asub)
    ic = inline_call(n)
    if ic:
        g, rexpr, amap = ic
        gfifo = None
        for pn, a in amap.items():
            if a.strip_all_casts().get("path") == fifo:
                gfifo = pn
        return conc(rexpr, st, gfifo or fifo, {pn: (a, fifo, subst) for pn, a in amap.items()})
    c = C.const_of(n)
    if c is not None and n.k != "DeclRefExpr":
        return c
    f = field_of(n, fifo)
    if f:
        return st[f]
    if n.k == "BinaryOperator":
        op = n["op"]
        a, b = conc(n.child(0), st, fifo, subst), conc(n.child(1), st, fifo, subst)
        if op == "+": return a + b
        if op == "-": return a - b
        if op == "*": return a * b
        if op == "%":
            if b == 0:
                raise ZeroDivisionError
            r = abs(a) % abs(b)
            return r if a >= 0 else -r
        if op == "/":
            if b == 0:
                raise ZeroDivisionError
            return int(a / b)
        if op == "&": return a & b
        if op == "|": return a | b
        if op == "^": return a ^ b
        if op == "==": return int(a == b)
        if op == "!=": return int(a != b)
        if op == "<": return int(a < b)
        if op == "<=": return int(a <= b)
        if op == ">": return int(a > b)
        if op == ">=": return int(a >= b)
    if n.k == "UnaryOperator" and n.get("op") == "-":
        return -conc(n.child(0), st, fifo, subst)
    if n.k == "UnaryOperator" and n.get("op") == "~":
        return ~conc(n.child(0), st, fifo, subst)
    if n.k == "ConditionalOperator":
        return conc(n.child(1), st, fifo, subst) if conc(n.child(0), st, fifo, subst) else conc(n.child(2), st, fifo, subst)
    raise Unsupported("`%s`" % n.src)


class RingPath:
    def __init__(self, fn, ps, fifo, preds, items):
        self.fn, self.ps, self.fifo, self.preds, self.items = fn, ps, fifo, preds, items
        self.guards = []      # (kind, field, value) e.g. ('ne', 'count', 'size'), ('eq','count',0)
        self.raw_guards = []  # (expr node, polarity) for concrete evaluation
        self.ops = []         # ('assign', field, rhs node, op) | ('slot', 'read'|'write', index node)
        self.ret = ps.ret
        self.unknown_guards = []
        self._collect()

    def _guard_atom(self, atom, pol):
        # inline predicate callees: fifo_is_full / fifo_is_empty
        if atom.k == "CallExpr" and atom.get("callee") in self.preds:
            body, callee_fifo = self.preds[atom["callee"]]
            self._cmp(body, pol, callee_fifo)
            return
        self._cmp(atom, pol, self.fifo)

    def _cmp(self, n, pol, fifo):
        n = n.strip_all_casts()
        if n.k == "BinaryOperator" and n.get("op") in ("==", "!="):
            l, r = n.child(0).strip_all_casts(), n.child(1).strip_all_casts()
            lf = field_of(l, fifo)
            eq = (n["op"] == "==") == pol
            if lf:
                rf = field_of(r, fifo)
                rc = C.const_of(r)
                if rf or rc is not None:
                    self.guards.append(("eq" if eq else "ne", lf, rf if rf else rc))
                    self.raw_guards.append((n, pol, fifo))
                    return
        if field_of(n, fifo) is None and n.get("path") and "->" not in n["path"]:
            # test of a plain parameter (value != NULL): irrelevant to the ring state
            return
        if n.k == "UnaryOperator":
            return
        self.unknown_guards.append(n.src)

    def _collect(self):
        for it in self.items:
            if it[0] == "branch":
                _, atom, pol, fifo = it
                if isinstance(pol, tuple):
                    self.unknown_guards.append(atom.src)
                    continue
                if fifo != self.fifo and self.ops:
                    # a decision of an inlined mutator taken after the state already changed: the model evaluates guards
                    # on the entry state only
                    before = len(self.guards)
                    self._cmp(atom, pol, fifo)
                    if len(self.guards) != before:
                        self.unknown_guards.append("%s (inside a called mutator, after a change)" % atom.src)
                    continue
                if fifo != self.fifo:
                    self._cmp(atom, pol, fifo)
                else:
                    self._guard_atom(atom, pol)
            elif it[0] == "store":
                _, n, fifo = it
                t = C.store_target(n)
                f = field_of(t, fifo)
                if f:
                    self.ops.append(("assign", f, n, fifo))
                # slot write: fifo->data[idx] = ...
                if t.k == "ArraySubscriptExpr" and (t.child(0).strip_all_casts().get("path") or "") == "%s->data" % fifo:
                    self.ops.append(("slot", "write", t.child(1), fifo))
                # slot read on the rhs
                if n.k == "BinaryOperator" and n.get("op") == "=":
                    for s in n.child(1).walk():
                        if s.k == "ArraySubscriptExpr" and (s.child(0).strip_all_casts().get("path") or "") == "%s->data" % fifo:
                            self.ops.append(("slot", "read", s.child(1), fifo))


def _touches_ring(g, gfifo):
    return any(field_of(t, gfifo) or (t.k == "ArraySubscriptExpr" and (t.child(0).strip_all_casts().get("path") or "") == "%s->data" % gfifo)
               for _, t in C.stores(g))


def expand(fn, ps, fifo, depth=0, stack=()):
    """the path's ring-relevant items in order; a call that hands this ring to another library function which stores to the
    ring fields (fifo_init written as `fifo_clear(fifo); ...`) is replaced by that function's paths (one variant each)"""
    variants = [[]]
    for ev in ps.events:
        if ev[0] == "branch":
            for v in variants:
                v.append(("branch", ev[1], ev[2], fifo))
        elif ev[0] == "store":
            for v in variants:
                v.append(("store", ev[1], fifo))
        elif ev[0] == "call":
            call = ev[1]
            g = PROG[0].fn(call.get("callee") or "") if PROG[0] is not None else None
            if g is None or g.name in stack or g.name == fn.name:
                continue
            gfifo = None
            for prm, a in zip(g.params, C.call_args(call)):
                if a.strip_all_casts().get("path") == fifo:
                    gfifo = prm["name"]
            if gfifo is None or not _touches_ring(g, gfifo):
                continue
            if depth >= 2 or C.loops(g):
                for v in variants:
                    v.append(("branch", call, ("opaque",), fifo))
                continue
            subs = []
            for gps in P.summarize(g):
                subs.extend(expand(g, gps, gfifo, depth + 1, stack + (fn.name,)))
            variants = [v + sv for v in variants for sv in subs]
    return variants


def analyse(fn, preds):
    """returns list of RingPath for a mutator"""
    fifo = fn.params[0]["name"]
    out = []
    for ps in P.summarize(fn):
        for items in expand(fn, ps, fifo):
            out.append(RingPath(fn, ps, fifo, preds, items))
    return out


INV_BOUNDS = {"wr": ((0, 0), (1, -1)), "rd": ((0, 0), (1, -1)), "count": ((0, 0), (1, 0)), "size": ((1, 0), (1, 0))}


def prove(rp, establishes=False):
    """symbolic proof that the path preserves (or establishes) the invariant. Returns
    (True, notes) / (False, reason)"""
    fb = dict(INV_BOUNDS)
    if establishes:
        fb = {"wr": None, "rd": None, "count": None, "size": ((1, 0), (1, 0))}
    subst = {}
    for kind, f, v in rp.guards:
        if establishes:
            continue
        if f == "count" and kind == "ne" and v == "size":
            fb["count"] = ((0, 0), (1, -1))
        elif f == "count" and kind == "ne" and v == 0:
            fb["count"] = ((0, 1), (1, 0))
        elif kind == "eq" and isinstance(v, int):
            fb[f] = ((0, v), (0, v))
    env = {f: Lin({f: 1}) for f in FIELDS}
    slots = []
    try:
        for op in rp.ops:
            if op[0] == "assign":
                _, f, n, ofifo = op
                o = n.get("op")
                if establishes and f == "size":
                    continue  # capacity is a parameter of the initialiser
                if n.k == "UnaryOperator":
                    new = env[f].add(Lin({}, 1), 1 if o == "++" else -1)
                elif o == "=":
                    new = sym(n.child(1), env, ofifo)
                elif o in ("+=", "-="):
                    new = env[f].add(sym(n.child(1), env, ofifo), 1 if o == "+=" else -1)
                else:
                    raise Unsupported("operator %s" % o)
                if f == "size" and not establishes:
                    return False, "capacity is modified by a mutator"
                env[f] = new
            else:
                slots.append((op[1], sym(op[2], env, op[3])))
    except Unsupported as e:
        return None, "cannot model %s" % e
    if establishes:
        for f in ("wr", "rd", "count"):
            v = env[f]
            if v.mod or v.c or v.k != 0:
                return False, "%s is not reset to 0 (%r)" % (f, v)
        return True, "wr = rd = count = 0"
    # ranges
    for f in ("wr", "rd"):
        v = env[f]
        if v.mod:
            lo, hi = bounds(v.dividend, fb)
            if not ge0(lo):
                return False, "new %s = %r: the dividend can be negative (C's %% then yields a negative index)" % (f, v)
        else:
            lo, hi = bounds(v, fb)
            if not ge0(lo) or not le(hi, (1, -1)):
                return False, "new %s = %r can leave [0, size)" % (f, v)
    v = env["count"]
    if v.mod:
        return None, "count reduced modulo size"
    lo, hi = bounds(v, fb)
    if not ge0(lo) or not le(hi, (1, 0)):
        return False, "new count = %r can leave [0, size]" % v
    # congruence wr' - rd' - count' == wr - rd - count (mod size)
    d = env["wr"].core().add(env["rd"].core(), -1).add(env["count"].core(), -1)
    d = d.add(Lin({"wr": 1, "rd": -1, "count": -1}), -1)
    if d.k != 0 or any(x for v_, x in d.c.items() if v_ != "size"):
        return False, "wr - rd - count changes by %r, which is not a multiple of size: the ring loses track of its content" % d
    return True, {"slots": slots, "env": env}


def models(rp, max_size=6):
    for size in range(1, max_size + 1):
        for rd in range(size):
            for count in range(size + 1):
                st = {"size": size, "rd": rd, "count": count, "wr": (rd + count) % size}
                ok = True
                for n, pol, fifo in rp.raw_guards:
                    try:
                        if bool(conc(n, st, fifo)) != pol:
                            ok = False
                            break
                    except (Unsupported, ZeroDivisionError):
                        ok = False
                        break
                if ok:
                    yield st


def refute(rp, role, max_size=6):
    """search a small state satisfying invariant + guards whose successor breaks the invariant or
    touches the wrong slot. role: 'add' | 'remove' | 'remove_last' | 'other'"""
    for st0 in models(rp, max_size):
        st = dict(st0)
        touched = []
        try:
            for op in rp.ops:
                if op[0] == "assign":
                    _, f, n, ofifo = op
                    o = n.get("op")
                    if n.k == "UnaryOperator":
                        st[f] = st[f] + (1 if o == "++" else -1)
                    elif o == "=":
                        st[f] = conc(n.child(1), st, ofifo)
                    elif o == "+=":
                        st[f] = st[f] + conc(n.child(1), st, ofifo)
                    elif o == "-=":
                        st[f] = st[f] - conc(n.child(1), st, ofifo)
                    else:
                        raise Unsupported(o)
                else:
                    touched.append((op[1], conc(op[2], st, op[3])))
        except Unsupported:
            return None
        except ZeroDivisionError:
            return {"state": st0, "problem": "division by zero"}
        size = st["size"]
        if not (0 <= st["wr"] < size and 0 <= st["rd"] < size and 0 <= st["count"] <= size
                and (st["wr"] - st["rd"] - st["count"]) % size == 0):
            return {"state": st0, "after": st, "problem": "invariant 0<=wr,rd<size, 0<=count<=size, wr==rd+count (mod size) broken"}
        want = {"add": ("write", st0["wr"]), "remove": ("read", st0["rd"]),
                "remove_last": ("read", (st0["wr"] - 1) % st0["size"])}.get(role)
        for kind, idx in touched:
            if not (0 <= idx < size):
                return {"state": st0, "problem": "slot index %d outside [0,%d)" % (idx, size)}
            if want and kind == want[0] and idx != want[1]:
                return {"state": st0, "after": st, "problem": "%s touches slot %d, the %s element is in slot %d"
                        % (role, idx, {"add": "next free", "remove": "oldest", "remove_last": "newest"}[role], want[1])}
    return False
