"""Propositional reasoning about purely bitwise C expressions.

An expression built from leaves with & | ^ ~ and integer constants computes every result bit
as a boolean function of the leaves' bits *at the same position* (and of the constant's bit).
Evaluating the expression tree for every assignment of leaves in {0x0000, 0xFFFF} therefore
yields the complete truth table of every bit position at once.  Two such expressions are
equivalent iff the tables are equal.  This is the truth-table method on formulas taken from the
source; no program path is executed."""
import itertools

MASK = 0xFFFF


NARROW = {"unsigned char": 8, "signed char": 8, "char": 8, "_Bool": 1}


class NotBitwise(Exception):
    pass


def leaves_and_eval(expr, env, leaf_key):
    """Return (set of leaf keys, evaluator(assign)->int).  `env` maps variable paths to
    already-built (leaves, evaluator) pairs (symbolic substitution of earlier assignments on
    the path); leaf_key(node) names a leaf (or returns None if the node is not a leaf)."""
    # a narrowing integral conversion truncates: (uint8_t)x keeps only the low 8 bit positions
    w = expr
    while w.k in ("ParenExpr",):
        w = w.child(0)
    if w.k in ("ImplicitCastExpr", "CStyleCastExpr") and w.get("ck") == "IntegralCast" and "cv" not in w:
        bits = NARROW.get((w.get("ct") or "").replace("const ", "").replace("volatile ", "").strip())
        if bits:
            la, fa = leaves_and_eval(w.child(0), env, leaf_key)
            m = (1 << bits) - 1
            return la, (lambda a, fa=fa, m=m: fa(a) & m)
    n = expr.strip_all_casts()
    k = n.k
    if "cv" in n and k not in ("DeclRefExpr",):
        c = n["cv"] & MASK
        return set(), (lambda a, c=c: c)
    if k in ("IntegerLiteral", "CharacterLiteral"):
        c = n["val"] & MASK
        return set(), (lambda a, c=c: c)
    p = n.get("path")
    if p is not None and p in env:
        return env[p]
    key = leaf_key(n)
    if key is not None:
        return {key}, (lambda a, key=key: a[key])
    if k == "BinaryOperator" and n.get("op") in ("&", "|", "^"):
        la, fa = leaves_and_eval(n.child(0), env, leaf_key)
        lb, fb = leaves_and_eval(n.child(1), env, leaf_key)
        op = n["op"]
        if op == "&":
            return la | lb, (lambda a: fa(a) & fb(a))
        if op == "|":
            return la | lb, (lambda a: fa(a) | fb(a))
        return la | lb, (lambda a: fa(a) ^ fb(a))
    if k == "ConditionalOperator" and "$cond" in env:
        # `c ? a : b` on a path that recorded which way `c` went (the CFG splits the operator into a branch): the value is
        # the value of the arm taken
        c = n.child(0)
        ids = {c.id, c.strip().id, c.strip_all_casts().id}
        x = c.strip_all_casts()
        while x.k == "ParenExpr":
            x = x.child(0).strip_all_casts()
            ids.add(x.id)
        pol = None
        for i in ids:
            if i in env["$cond"]:
                pol = env["$cond"][i]
        if pol is not None:
            return leaves_and_eval(n.child(1) if pol else n.child(2), env, leaf_key)
    if k == "UnaryOperator" and n.get("op") == "~":
        la, fa = leaves_and_eval(n.child(0), env, leaf_key)
        return la, (lambda a: ~fa(a) & MASK)
    raise NotBitwise("%s is not a bitwise expression over known leaves" % n.src)


def table(leaves, f, order=None):
    order = sorted(leaves) if order is None else order
    out = {}
    for vals in itertools.product((0, MASK), repeat=len(order)):
        a = dict(zip(order, vals))
        out[vals] = f(a) & MASK
    return order, out


def equivalent(leaves1, f1, f2, extra_leaves=()):
    """f1, f2: evaluators over the union of leaves; returns (True, None) or (False, witness)"""
    order = sorted(set(leaves1) | set(extra_leaves))
    for vals in itertools.product((0, MASK), repeat=len(order)):
        a = dict(zip(order, vals))
        r1, r2 = f1(a) & MASK, f2(a) & MASK
        if r1 != r2:
            diff = r1 ^ r2
            bit = (diff & -diff).bit_length() - 1
            wit = {k: (v >> bit) & 1 for k, v in a.items()}
            return False, {"bit": bit, "leaf_bits": wit, "code": (r1 >> bit) & 1,
                           "spec": (r2 >> bit) & 1}
    return True, None
