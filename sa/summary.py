"""Interprocedural summaries over the (recursion-free) call graph and the branch-fact
must-analysis that most GUARD/MUST rules are built on."""
import re

from .cfg import PointGraph, cond_facts, store_target, is_call, call_args

_MEMBER_RE = re.compile(r"(?:->|\.)(\w+)")


def members_in_path(p):
    return set(_MEMBER_RE.findall(p or ""))


def root_of_path(p):
    m = re.match(r"[&*]*(\w+)", p or "")
    return m.group(1) if m else None


class Summaries:
    def __init__(self, prog):
        self.prog = prog
        self._mw = {}
        self._callees = {}
        self._pg = {}

    def pg(self, fn):
        g = self._pg.get(fn.name)
        if g is None:
            g = self._pg[fn.name] = PointGraph(fn)
        return g

    # ---- call graph ---------------------------------------------------------------------
    def callees(self, fn):
        c = self._callees.get(fn.name)
        if c is None:
            c = set()
            for n in fn.nodes.values():
                if n.k == "CallExpr":
                    c.add(n.get("callee") or "USER")
            self._callees[fn.name] = c
        return c

    def reaches(self, fn, targets, _seen=None):
        """does fn (transitively) call one of `targets` (names)?"""
        _seen = _seen if _seen is not None else set()
        if fn.name in _seen:
            return False
        _seen.add(fn.name)
        for c in self.callees(fn):
            if c in targets:
                return True
            g = self.prog.fn(c)
            if g is not None and self.reaches(g, targets, _seen):
                return True
        return False

    # ---- may-write summary --------------------------------------------------------------
    def may_write(self, fname, _stack=()):
        """set of member names a function may store to (transitively); '*' = anything
        (indirect call through a user call-back)"""
        if fname in self._mw:
            return self._mw[fname]
        fn = self.prog.fn(fname)
        if fn is None:
            return None  # external: handled at the call site by argument
        if fname in _stack:
            return set()
        out = set()
        for n in fn.nodes.values():
            t = store_target(n)
            if t is not None:
                p = t.get("path")
                ms = members_in_path(p) if p else set()
                if not p:
                    # store through a computed lvalue: collect member names below it
                    for s in t.walk():
                        if s.k == "MemberExpr":
                            ms.add(s["member"])
                    # *ptr = ..., ptr[i] = ...: writes through a pointer variable
                    out.add("*deref")
                if p and (p.startswith("*") or "[" in p) and not ms:
                    out.add("*deref")
                out |= ms
            if n.k == "CallExpr":
                c = n.get("callee")
                if c is None:
                    out.add("*")
                else:
                    sub = self.may_write(c, _stack + (fname,))
                    if sub is None:
                        # external function: writes through its pointer arguments
                        for a in call_args(n):
                            ap = a.strip().get("path")
                            if a.get("tk") == "ptr" or a.strip().get("tk") in ("ptr", "array"):
                                out |= members_in_path(ap)
                                if not members_in_path(ap):
                                    out.add("*deref")
                    else:
                        out |= sub
        self._mw[fname] = out
        return out

    # ---- branch facts -------------------------------------------------------------------
    def mentions(self, atom):
        """(locals/params named, member names) mentioned by an expression"""
        names, members = set(), set()
        for s in atom.walk():
            if s.k == "DeclRefExpr" and s["decl"]["kind"] in ("param", "local"):
                names.add(s["decl"]["name"])
            elif s.k == "MemberExpr":
                members.add(s["member"])
            # names whose pointee / element is read ("name*"): killed by a store THROUGH that name, whereas a fact that only
            # uses the pointer's value (`if (numbers)`) survives such a store
            if s.k == "ArraySubscriptExpr" or (s.k == "UnaryOperator" and s.get("op") == "*") or (s.k == "MemberExpr" and s.get("arrow")):
                b = s.child(0).strip_all_casts() if s.ch else None
                while b is not None and b.k in ("ParenExpr",):
                    b = b.child(0).strip_all_casts()
                if b is not None and b.k == "DeclRefExpr" and b["decl"]["kind"] in ("param", "local"):
                    names.add(b["decl"]["name"] + "*")
                elif b is not None:
                    for x in b.walk():
                        if x.k == "DeclRefExpr" and x["decl"]["kind"] in ("param", "local"):
                            names.add(x["decl"]["name"] + "*")
        return names, members

    def kill_set(self, node):
        """what evaluating this CFG element may modify: (local names, member names, anything)"""
        names, members, anything = set(), set(), False
        t = store_target(node)
        if t is not None:
            p = t.get("path")
            if not p:
                # computed lvalue: conservatively everything reachable through memory
                anything = True
                for s in t.walk():
                    if s.k == "DeclRefExpr" and s["decl"]["kind"] in ("param", "local"):
                        names.add(s["decl"]["name"])
            else:
                ml = _MEMBER_RE.findall(p)
                if ml:
                    members.add(ml[-1])  # the field written (last member of the path)
                else:
                    r = root_of_path(p)
                    if p.startswith("*") or "[" in p:
                        # write through a local pointer / into a local array: may alias any field; kills what is read
                        # through that name, not facts about the pointer's own value
                        anything = True
                        if r:
                            names.add(r + "*")
                            tk = t.child(0).strip_all_casts().get("tk") if t.ch else None
                            if tk == "array":
                                names.add(r)
                    elif r:
                        names.add(r)  # scalar local
        if node.k == "CallExpr":
            c = node.get("callee")
            if c is None:
                anything = True
            else:
                mw = self.may_write(c)
                if mw is None:
                    for a in call_args(node):
                        s = a.strip()
                        ap = s.get("path")
                        if ap and ap.startswith("&"):
                            r = root_of_path(ap)
                            ms = members_in_path(ap)
                            if ms:
                                members |= ms
                            elif r:
                                names.add(r)
                        elif s.get("tk") in ("ptr", "array") and ap:
                            members |= members_in_path(ap)
                else:
                    if "*" in mw:
                        anything = True
                    if "*deref" in mw:
                        anything = True
                    members |= {m for m in mw if not m.startswith("*")}
                    for a in call_args(node):
                        ap = a.strip().get("path")
                        if ap and ap.startswith("&"):
                            r = root_of_path(ap)
                            if not members_in_path(ap) and r:
                                names.add(r)
        if node.k == "DeclStmt":
            for d in node.get("decls", []):
                names.add(d["name"])
        return names, members, anything

    def branch_facts(self, fn):
        """must-analysis: at every point, the set of (atom node id, polarity) branch facts that
        hold on every path and whose operands were not modified since the branch."""
        pg = self.pg(fn)
        mention_cache = {}

        def mentions(nid):
            m = mention_cache.get(nid)
            if m is None:
                m = mention_cache[nid] = self.mentions(fn.nodes[nid])
            return m

        def transfer(state, e):
            if e.kind == "edge":
                lab = e.label
                if lab[0] in ("true", "false") and lab[1] is not None:
                    add = {(a.id, pol) for a, pol in cond_facts(lab[1], lab[0] == "true")}
                    return state | frozenset(add)
                if lab[0] == "case":
                    sw = e.block.cond
                    if sw is not None:
                        return state | frozenset({(sw.id, ("case", lab[1], lab[2]))})
                return state
            names, members, anything = self.kill_set(e.node)
            if not names and not members and not anything:
                return state
            out = set()
            for (nid, pol) in state:
                ns, ms = mentions(nid)
                if anything and ms:
                    continue
                if ms & members:
                    continue
                direct = {x for x in names if not x.endswith("*")}
                through = {x for x in names if x.endswith("*")}
                if {x.rstrip("*") for x in ns} & direct or (ns & through):
                    continue
                out.add((nid, pol))
            return frozenset(out)

        return pg, pg.must(transfer)
