"""CFG utilities over the extractor's facts: point graph, must/may dataflow, dominators,
reachability with removed points, bounded path enumeration, branch-condition atoms."""
from collections import defaultdict, deque

ASSIGN_OPS = {"=", "+=", "-=", "*=", "/=", "%=", "&=", "|=", "^=", "<<=", ">>="}


# --------------------------------------------------------------------------------------
# expression helpers
# --------------------------------------------------------------------------------------
def strip(n):
    return n.strip() if n is not None else None


def is_call(n, *names):
    return n is not None and n.k == "CallExpr" and (not names or n.get("callee") in names)


def call_args(n):
    return n.ch[1:]


def store_target(n):
    """if n writes an lvalue directly (assignment, compound assignment, ++/--) return the
    target lvalue node (stripped), else None"""
    if n.k in ("BinaryOperator", "CompoundAssignOperator") and n.get("op") in ASSIGN_OPS:
        return n.child(0).strip()
    if n.k == "UnaryOperator" and n.get("op") in ("++", "--"):
        return n.child(0).strip()
    return None


def stores(fn):
    """all direct stores of a function: (store node, target lvalue node)"""
    for n in fn.nodes.values():
        t = store_target(n)
        if t is not None:
            yield n, t


def path_of(n):
    return n.get("path") if n is not None else None


def const_of(n):
    """folded integer constant of an expression, or None"""
    if n is None:
        return None
    if "cv" in n:
        return n["cv"]
    s = n.strip()
    if "cv" in s:
        return s["cv"]
    if s.k in ("IntegerLiteral", "CharacterLiteral"):
        return s.get("val")
    return None


def is_null(n):
    """null pointer constant / literal zero, through any casts"""
    if n is None:
        return False
    s = n.strip_all_casts()
    if s.k in ("IntegerLiteral",) and s.get("val") == 0:
        return True
    if s.get("cv") == 0:
        return True
    return s.k == "GNUNullExpr"


def cond_facts(cond, polarity):
    """conjunction of (atom, polarity) implied by `cond` evaluating to `polarity`.
    Atoms are stripped expression nodes; comparisons against literal 0 are normalised to the
    truth value of the other operand."""
    out = []
    todo = [(cond, polarity)]
    while todo:
        n, pol = todo.pop()
        n = n.strip()
        if n.k == "UnaryOperator" and n.get("op") == "!":
            todo.append((n.child(0), not pol))
            continue
        if n.k == "BinaryOperator" and n.get("op") == "&&":
            if pol:
                todo.append((n.child(0), True))
                todo.append((n.child(1), True))
            else:
                out.append((n, False))
            continue
        if n.k == "BinaryOperator" and n.get("op") == "||":
            if not pol:
                todo.append((n.child(0), False))
                todo.append((n.child(1), False))
            else:
                out.append((n, True))
            continue
        if n.k == "BinaryOperator" and n.get("op") in ("!=", "=="):
            a, b = n.child(0), n.child(1)
            ca, cb = const_of(a), const_of(b)
            if cb == 0 and ca is None and a.strip().get("tk") not in ("float",):
                todo.append((a, pol if n["op"] == "!=" else not pol))
                out.append((n, pol))
                continue
            if ca == 0 and cb is None and b.strip().get("tk") not in ("float",):
                todo.append((b, pol if n["op"] == "!=" else not pol))
                out.append((n, pol))
                continue
        out.append((n, pol))
    return out


# --------------------------------------------------------------------------------------
# point graph
# --------------------------------------------------------------------------------------
class Edge:
    __slots__ = ("src", "dst", "kind", "node", "block", "si", "label")

    def __init__(self, src, dst, kind, node=None, block=None, si=None, label=None):
        self.src, self.dst, self.kind = src, dst, kind
        self.node, self.block, self.si, self.label = node, block, si, label

    def __repr__(self):
        if self.kind == "elem":
            return "<elem %s>" % self.node.src
        return "<edge B%d->%s %s>" % (self.block.id, self.dst, self.label[0] if self.label else "")


class PointGraph:
    """points (bid, i): before element i of block bid; (bid, n) is the block end.
    `elem` edges evaluate one CFG element, `edge` edges follow a CFG successor."""

    def __init__(self, fn):
        self.fn = fn
        self.out = defaultdict(list)
        self.inn = defaultdict(list)
        self.points = []
        for b in fn.blocks.values():
            n = len(b.elems)
            for i in range(n + 1):
                self.points.append((b.id, i))
            for i, e in enumerate(b.elems):
                self._add(Edge((b.id, i), (b.id, i + 1), "elem", node=e, block=b))
            for si, s in enumerate(b.succs):
                if s is None:
                    continue
                self._add(Edge((b.id, n), (s.id, 0), "edge", block=b, si=si,
                               label=fn.edge_label(b, si)))
        self.entry = (fn.entry.id, 0)
        self.exit = (fn.exit.id, 0)
        self.point_before = {}
        self.point_after = {}
        for b in fn.blocks.values():
            for i, e in enumerate(b.elems):
                self.point_before.setdefault(e.id, (b.id, i))
                self.point_after.setdefault(e.id, (b.id, i + 1))

    def _add(self, e):
        self.out[e.src].append(e)
        self.inn[e.dst].append(e)

    def before(self, node):
        return self.point_before.get(node.id)

    def after(self, node):
        return self.point_after.get(node.id)

    # ---- reachability -----------------------------------------------------------------
    def reachable(self, starts, blocked_edge=None, blocked_point=None):
        """set of points reachable from `starts` (points) following edges e for which
        blocked_edge(e) is false and never entering points p with blocked_point(p)"""
        seen = set()
        dq = deque(starts)
        for s in starts:
            seen.add(s)
        while dq:
            p = dq.popleft()
            for e in self.out[p]:
                if blocked_edge and blocked_edge(e):
                    continue
                if blocked_point and blocked_point(e.dst):
                    continue
                if e.dst not in seen:
                    seen.add(e.dst)
                    dq.append(e.dst)
        return seen

    def reachable_flags(self, starts, blocked_edge=None):
        """like reachable(), but remembers the outcome of tests of plain local flags (`if (more)` ... `while (more)`) along
        each path and does not take an edge that contradicts an earlier test of the same, unmodified flag"""
        def flag_of(lab):
            if not lab or len(lab) < 2 or lab[0] not in ("true", "false") or lab[1] is None:
                return None
            pol = lab[0] == "true"
            n = lab[1].strip_all_casts()
            while n.k == "UnaryOperator" and n.get("op") == "!":
                n = n.child(0).strip_all_casts()
                pol = not pol
            if n.k == "DeclRefExpr" and n["decl"]["kind"] == "local" and n.get("tk") in ("int", "bool"):
                return n["decl"]["name"], pol
            return None
        seen = set()
        dq = deque((s_, frozenset()) for s_ in starts)
        for s_ in starts:
            seen.add((s_, frozenset()))
        pts = set(starts)
        while dq:
            p, fl = dq.popleft()
            for e in self.out[p]:
                if blocked_edge and blocked_edge(e):
                    continue
                nf = fl
                if e.kind == "elem":
                    t = store_target(e.node)
                    if t is not None and t.k == "DeclRefExpr":
                        name = t["decl"]["name"]
                        nf = frozenset(x for x in fl if x[0] != name)
                        if e.node.get("op") == "=":
                            c = const_of(e.node.child(1))
                            if c is not None:
                                nf = nf | {(name, bool(c))}
                    elif e.node.k == "DeclStmt":
                        for d in e.node.get("decls", []):
                            nf = frozenset(x for x in nf if x[0] != d["name"])
                else:
                    fo = flag_of(e.label)
                    if fo is not None:
                        if (fo[0], not fo[1]) in fl:
                            continue
                        nf = fl | {fo}
                if len(nf) > 6:
                    nf = frozenset(list(nf)[:6])
                key = (e.dst, nf)
                if key not in seen:
                    seen.add(key)
                    pts.add(e.dst)
                    dq.append(key)
        return pts

    def find_path(self, starts, goal, blocked_edge=None):
        """shortest edge list from one of `starts` to a point satisfying goal(p)"""
        prev = {}
        dq = deque(starts)
        seen = set(starts)
        while dq:
            p = dq.popleft()
            if goal(p):
                path = []
                while p in prev:
                    e = prev[p]
                    path.append(e)
                    p = e.src
                return list(reversed(path))
            for e in self.out[p]:
                if blocked_edge and blocked_edge(e):
                    continue
                if e.dst not in seen:
                    seen.add(e.dst)
                    prev[e.dst] = e
                    dq.append(e.dst)
        return None

    def live_points(self):
        return self.reachable([self.entry])

    # ---- dataflow ---------------------------------------------------------------------
    def forward(self, transfer, init, meet, top=None):
        """generic forward dataflow. state at entry = init; unvisited = top (None).
        transfer(state, edge) -> state ; meet(a, b) -> state.  Returns {point: state}."""
        st = {self.entry: init}
        wl = deque([self.entry])
        inq = {self.entry}
        while wl:
            p = wl.popleft()
            inq.discard(p)
            s = st[p]
            for e in self.out[p]:
                ns = transfer(s, e)
                if ns is None:
                    continue
                old = st.get(e.dst, top)
                new = ns if old is top else meet(old, ns)
                if old is top or new != old:
                    st[e.dst] = new
                    if e.dst not in inq:
                        wl.append(e.dst)
                        inq.add(e.dst)
        return st

    def must(self, gen_kill, init=frozenset()):
        """must-analysis over sets of facts. gen_kill(state, edge) -> new state"""
        return self.forward(gen_kill, frozenset(init), lambda a, b: a & b)

    def may(self, gen_kill, init=frozenset()):
        return self.forward(gen_kill, frozenset(init), lambda a, b: a | b)

    def describe_path(self, edges, limit=40):
        out = []
        last = None
        for e in edges:
            if e.kind == "elem":
                ln = e.node.get("line")
                if ln and ln != last:
                    out.append("%s:%d" % (self.fn.relfile, ln))
                    last = ln
            else:
                lab = e.label
                if lab and lab[0] in ("true", "false") and lab[1] is not None:
                    out.append("[%s is %s]" % (lab[1].src, lab[0]))
                elif lab and lab[0] == "case":
                    out.append("[case %s]" % (lab[3] or lab[1]))
                elif lab and lab[0] == "default":
                    out.append("[default]")
        if len(out) > limit:
            out = out[:limit // 2] + ["..."] + out[-limit // 2:]
        return out


# --------------------------------------------------------------------------------------
# block-level dominators / loops
# --------------------------------------------------------------------------------------
def dominators(fn):
    blocks = [b for b in fn.blocks.values()]
    reach = set()
    dq = deque([fn.entry])
    reach.add(fn.entry.id)
    while dq:
        b = dq.popleft()
        for s in b.succs:
            if s is not None and s.id not in reach:
                reach.add(s.id)
                dq.append(s)
    ids = [b.id for b in blocks if b.id in reach]
    dom = {i: set(ids) for i in ids}
    dom[fn.entry.id] = {fn.entry.id}
    changed = True
    while changed:
        changed = False
        for i in ids:
            if i == fn.entry.id:
                continue
            preds = [p.id for p in fn.blocks[i].preds if p.id in reach]
            if not preds:
                continue
            new = set.intersection(*(dom[p] for p in preds)) | {i}
            if new != dom[i]:
                dom[i] = new
                changed = True
    return dom


def back_edges(fn):
    dom = dominators(fn)
    out = []
    for b in fn.blocks.values():
        if b.id not in dom:
            continue
        for si, s in enumerate(b.succs):
            if s is not None and s.id in dom[b.id]:
                out.append((b, si, s))
    return out


def natural_loop(fn, tail, head):
    body = {head.id, tail.id}
    st = [tail]
    while st:
        b = st.pop()
        if b.id == head.id:
            continue
        for p in b.preds:
            if p.id not in body:
                body.add(p.id)
                st.append(p)
    return body


def loops(fn):
    """list of (head block, set of block ids in the loop)"""
    per = {}
    for tail, si, head in back_edges(fn):
        per.setdefault(head.id, set()).update(natural_loop(fn, tail, head))
    return [(fn.blocks[h], body) for h, body in per.items()]


# --------------------------------------------------------------------------------------
# path enumeration (block level)
# --------------------------------------------------------------------------------------
class PathTooMany(Exception):
    pass


def enumerate_paths(fn, start=None, stop=None, max_visits=1, limit=200000, prune=None,
                    init=None):
    """Enumerate paths of CFG edges from block `start` (default entry) until `stop(block)`
    is true (default: exit block).  Each block may be visited at most `max_visits` times
    per path.  prune(state, block, si) -> new state or None is called for every edge
    taken (state threading, e.g. constant propagation).  Yields (list of (block, si), state).
    A path is the list of (block, successor index) pairs in order."""
    start = start or fn.entry
    stop = stop or (lambda b: b.id == fn.exit.id)
    count = [0]

    def rec(b, visits, path, state):
        if stop(b) and path:
            count[0] += 1
            if count[0] > limit:
                raise PathTooMany(fn.name)
            yield list(path), state
            return
        if stop(b) and not path and b.id == fn.exit.id:
            yield list(path), state
            return
        for si, s in enumerate(b.succs):
            if s is None:
                continue
            if visits.get(s.id, 0) >= max_visits:
                continue
            ns = state
            if prune is not None:
                ns = prune(state, b, si)
                if ns is None:
                    continue
            visits[s.id] = visits.get(s.id, 0) + 1
            path.append((b, si))
            yield from rec(s, visits, path, ns)
            path.pop()
            visits[s.id] -= 1

    yield from rec(start, {start.id: 1}, [], init)


def path_elems(path, fn, include_last=True):
    """elements evaluated along a block path, in order, with the branch labels interleaved:
    yields ('elem', node) and ('edge', label, block, si)"""
    for b, si in path:
        for e in b.elems:
            yield ("elem", e)
        yield ("edge", fn.edge_label(b, si), b, si)
    if include_last and path:
        b, si = path[-1]
        last = b.succs[si]
        if last is not None:
            for e in last.elems:
                yield ("elem", e)
