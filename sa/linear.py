"""Linear arithmetic over the rationals: expressions, constraints `e <= 0`, entailment by
Fourier-Motzkin elimination (proving over Q is sound for Z).  No solver is involved; the engine
decides entailment between facts harvested from the source."""
from fractions import Fraction


class Lin:
    __slots__ = ("c", "k")

    def __init__(self, c=None, k=0):
        self.c = {s: Fraction(v) for s, v in (c or {}).items() if v != 0}
        self.k = Fraction(k)

    @staticmethod
    def sym(s):
        return Lin({s: 1})

    @staticmethod
    def const(k):
        return Lin({}, k)

    def __add__(self, o):
        c = dict(self.c)
        for s, v in o.c.items():
            c[s] = c.get(s, 0) + v
        return Lin(c, self.k + o.k)

    def __sub__(self, o):
        return self + o.scale(-1)

    def scale(self, f):
        return Lin({s: v * f for s, v in self.c.items()}, self.k * f)

    def is_const(self):
        return not self.c

    def syms(self):
        return set(self.c)

    def subst(self, m):
        out = Lin({}, self.k)
        for s, v in self.c.items():
            out = out + (m[s].scale(v) if s in m else Lin({s: v}))
        return out

    def __eq__(self, o):
        return isinstance(o, Lin) and self.c == o.c and self.k == o.k

    def __hash__(self):
        return hash((tuple(sorted(self.c.items())), self.k))

    def __repr__(self):
        t = []
        for s, v in sorted(self.c.items()):
            t.append(("%s" % s) if v == 1 else ("-%s" % s if v == -1 else "%s*%s" % (v, s)))
        if self.k or not t:
            t.append(str(self.k))
        return " + ".join(t).replace("+ -", "- ")


# a constraint is a Lin e meaning e <= 0
def le(a, b):        # a <= b
    return a - b


def lt(a, b):        # a < b  (integers)  ==  a - b + 1 <= 0
    return a - b + Lin.const(1)


def eq(a, b):
    return [a - b, b - a]


def fm_infeasible(cons, limit=4000):
    """True iff the conjunction of `e <= 0` constraints has no rational solution"""
    cons = [c for c in cons]
    # quick constant check
    work = []
    for c in cons:
        if c.is_const():
            if c.k > 0:
                return True
        else:
            work.append(c)
    syms = set()
    for c in work:
        syms |= c.syms()
    # eliminate symbols one by one (fewest products first)
    while syms:
        best, bestcost = None, None
        for s in syms:
            pos = sum(1 for c in work if c.c.get(s, 0) > 0)
            neg = sum(1 for c in work if c.c.get(s, 0) < 0)
            cost = pos * neg - pos - neg
            if bestcost is None or cost < bestcost:
                best, bestcost = s, cost
        s = best
        syms.discard(s)
        pos = [c for c in work if c.c.get(s, 0) > 0]
        neg = [c for c in work if c.c.get(s, 0) < 0]
        rest = [c for c in work if c.c.get(s, 0) == 0]
        new = []
        for p in pos:
            for n in neg:
                # p: a*s + P <= 0 (a>0) ; n: -b*s + N <= 0 (b>0)  =>  b*P + a*N <= 0
                a, b = p.c[s], -n.c[s]
                r = p.scale(b) + n.scale(a)
                r.c.pop(s, None)
                if r.is_const():
                    if r.k > 0:
                        return True
                else:
                    new.append(r)
        work = rest + new
        # dedupe
        seen = set()
        w2 = []
        for c in work:
            h = (tuple(sorted(c.c.items())), c.k)
            if h not in seen:
                seen.add(h)
                w2.append(c)
        work = w2
        if len(work) > limit:
            return False    # give up: not proved
    return False


def entails(facts, goal):
    """facts |= goal   where goal is a constraint e <= 0"""
    # facts and not goal:  e >= 1  i.e.  1 - e <= 0
    neg = Lin.const(1) - goal
    return fm_infeasible(list(facts) + [neg])


def find_model(cons, syms, box=range(0, 41), extra=(), max_try=400000):
    """small non-negative integer model of the constraints, or None (bounded search)"""
    import itertools
    syms = sorted(syms)
    if len(syms) > 5:
        return None
    tried = 0
    vals = list(box) + list(extra)
    for combo in itertools.product(vals, repeat=len(syms)):
        tried += 1
        if tried > max_try:
            return None
        m = dict(zip(syms, combo))
        ok = True
        for c in cons:
            v = c.k
            for s, co in c.c.items():
                if s not in m:
                    ok = False
                    break
                v += co * m[s]
            if not ok or v > 0:
                ok = False
                break
        if ok:
            return m
    return None
