"""Linear arithmetic over the rationals: expressions, constraints `e <= 0`, entailment by
Fourier-Motzkin elimination (proving over Q is sound for Z).  No solver is involved; the engine
decides entailment between facts harvested from the source."""
from fractions import Fraction


def _norm(v):
    if type(v) is int:
        return v
    if isinstance(v, bool):
        return int(v)
    if isinstance(v, Fraction):
        return v.numerator if v.denominator == 1 else v
    return Fraction(v)


class Lin:
    __slots__ = ("c", "k")

    def __init__(self, c=None, k=0):
        # coefficients are kept as plain ints whenever they are integral (Fractions only after a real division):
        # int arithmetic and hashing are several times cheaper, values and hashes compare equal across the two types
        self.c = {s: _norm(v) for s, v in (c or {}).items() if v != 0}
        self.k = _norm(k)

    @staticmethod
    def sym(s):
        return Lin({s: 1})

    @staticmethod
    def const(k):
        return Lin({}, k)

    def __add__(self, o):
        c = dict(self.c)
        for s, v in o.c.items():
            c[s] = c.get(s, 0) + v
        return Lin(c, self.k + o.k)

    def __sub__(self, o):
        return self + o.scale(-1)

    def scale(self, f):
        return Lin({s: v * f for s, v in self.c.items()}, self.k * f)

    def is_const(self):
        return not self.c

    def syms(self):
        return set(self.c)

    def subst(self, m):
        out = Lin({}, self.k)
        for s, v in self.c.items():
            out = out + (m[s].scale(v) if s in m else Lin({s: v}))
        return out

    def __eq__(self, o):
        return isinstance(o, Lin) and self.c == o.c and self.k == o.k

    def __hash__(self):
        return hash((tuple(sorted(self.c.items())), self.k))

    def __repr__(self):
        t = []
        for s, v in sorted(self.c.items()):
            t.append(("%s" % s) if v == 1 else ("-%s" % s if v == -1 else "%s*%s" % (v, s)))
        if self.k or not t:
            t.append(str(self.k))
        return " + ".join(t).replace("+ -", "- ")


# a constraint is a Lin e meaning e <= 0
def le(a, b):        # a <= b
    return a - b


def lt(a, b):        # a < b  (integers)  ==  a - b + 1 <= 0
    return a - b + Lin.const(1)


def eq(a, b):
    return [a - b, b - a]


def _key(c):
    return tuple(sorted(c.c.items()))


def _simplify(work):
    """keep, for identical left-hand sides, only the strongest constraint"""
    best = {}
    for c in work:
        k = _key(c)
        if k not in best or c.k > best[k].k:
            best[k] = c
    return list(best.values())


def _gauss(work):
    """substitute away variables fixed by equalities (pairs e <= 0 and -e <= 0)"""
    changed = True
    while changed:
        changed = False
        idx = {}
        for c in work:
            idx[(_key(c), c.k)] = c
        for c in work:
            if not c.c:
                continue
            neg = c.scale(-1)
            if (_key(neg), neg.k) in idx:
                # c == 0 : solve for one symbol
                s0 = min(c.c, key=lambda x: (abs(c.c[x]) != 1, x))
                a = c.c[s0]
                # s0 = -(rest)/a
                rest = Lin({k: v for k, v in c.c.items() if k != s0}, c.k).scale(Fraction(-1) / a)
                new = []
                for d in work:
                    if s0 in d.c:
                        co = d.c[s0]
                        e = Lin({k: v for k, v in d.c.items() if k != s0}, d.k) + rest.scale(co)
                        new.append(e)
                    else:
                        new.append(d)
                work = []
                for d in new:
                    if d.is_const():
                        if d.k > 0:
                            return None
                    else:
                        work.append(d)
                work = _simplify(work)
                changed = True
                break
    return work


def fm_infeasible(cons, limit=400, focus=None):
    """True iff the conjunction of `e <= 0` constraints has no rational solution.
    focus: symbols of interest; only constraints connected to them are considered (cone of
    influence) - dropping constraints is sound for proving infeasibility only in the sense that it
    can make us miss a proof, never invent one."""
    work = []
    for c in cons:
        if c.is_const():
            if c.k > 0:
                return True
        else:
            work.append(c)
    if focus is not None:
        syms = set(focus)
        sel = []
        pool = list(work)
        changed = True
        while changed:
            changed = False
            for c in list(pool):
                if c.syms() & syms:
                    sel.append(c)
                    syms |= c.syms()
                    pool.remove(c)
                    changed = True
        work = sel
    work = _simplify(work)
    work = _gauss(work)
    if work is None:
        return True
    syms = set()
    for c in work:
        syms |= c.syms()
    while syms:
        best, bestcost = None, None
        for s in syms:
            pos = sum(1 for c in work if c.c.get(s, 0) > 0)
            neg = sum(1 for c in work if c.c.get(s, 0) < 0)
            cost = pos * neg - pos - neg
            if bestcost is None or cost < bestcost:
                best, bestcost = s, cost
        s = best
        syms.discard(s)
        pos = [c for c in work if c.c.get(s, 0) > 0]
        neg = [c for c in work if c.c.get(s, 0) < 0]
        rest = [c for c in work if c.c.get(s, 0) == 0]
        new = []
        for p in pos:
            for n in neg:
                a, b = p.c[s], -n.c[s]
                r = p.scale(b) + n.scale(a)
                r.c.pop(s, None)
                if r.is_const():
                    if r.k > 0:
                        return True
                else:
                    new.append(r)
        work = _simplify(rest + new)
        if len(work) > limit:
            return False    # give up: not proved
    return False


_MEMO = {}


def entails(facts, goal):
    """facts |= goal   where goal is a constraint e <= 0"""
    key = (frozenset((tuple(sorted(c.c.items())), c.k) for c in facts), (tuple(sorted(goal.c.items())), goal.k))
    r = _MEMO.get(key)
    if r is None:
        if len(_MEMO) > 200000:
            _MEMO.clear()
        r = _MEMO[key] = _entails(facts, goal)
    return r


def _entails(facts, goal):
    # facts and not goal:  e >= 1  i.e.  1 - e <= 0
    neg = Lin.const(1) - goal
    return fm_infeasible(list(facts) + [neg], focus=neg.syms() or None)


def find_model(cons, syms, box=range(0, 41), extra=(), max_try=400000, neq=()):
    """small non-negative integer model of the constraints, or None (bounded depth-first search
    over a candidate set made of 0..40 and the constants occurring in the constraints, +-1)"""
    base_ = set(syms) | (set().union(*[c.syms() for c in cons]) if cons else set())
    for q in neq:
        base_ |= q.syms()
    syms = sorted(base_)
    if len(syms) > 10:
        return None
    vals = set(box) | set(extra)
    for c in cons:
        k = abs(int(c.k))
        for d in (-2, -1, 0, 1, 2):
            if 0 <= k + d <= 1 << 20:
                vals.add(k + d)
    vals = sorted(vals)
    # order symbols: most constrained first
    order = sorted(syms, key=lambda s_: -sum(1 for c in cons if s_ in c.c))
    by_last = {}
    pos = {s_: i for i, s_ in enumerate(order)}
    for c in cons:
        if not c.c:
            if c.k > 0:
                return None
            continue
        last = max(pos[s_] for s_ in c.c)
        by_last.setdefault(last, []).append(c)
    tried = [0]
    m = {}

    def rec(i):
        if i == len(order):
            for q in neq:
                t = q.k
                for s_, co in q.c.items():
                    t += co * m[s_]
                if t == 0:
                    return False
            return True
        for v in vals:
            tried[0] += 1
            if tried[0] > max_try:
                return False
            m[order[i]] = v
            ok = True
            for c in by_last.get(i, ()):
                t = c.k
                for s_, co in c.c.items():
                    t += co * m[s_]
                if t > 0:
                    ok = False
                    break
            if ok and rec(i + 1):
                return True
        m.pop(order[i], None)
        return False

    if rec(0):
        return dict(m)
    return None
