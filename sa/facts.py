"""Fact base: runs the libTooling extractor on /repo's current working tree in each build
configuration and wraps the JSON in small helper classes.  Nothing here decides a property."""
import json
import os
import re
import shlex
import shutil
import subprocess
import sys
import tempfile
from concurrent.futures import ThreadPoolExecutor

VERIF = os.path.dirname(os.path.dirname(os.path.abspath(__file__)))
REPO = os.environ.get("SCPI_REPO", "/repo")
LIB = os.path.join(REPO, "libscpi")
EXTRACTOR = os.path.join(VERIF, "build", "scpifacts")

# build configurations (DESIGN.md 3.5)
CONFIGS = {
    "A": ["-std=gnu17"],
    "B": ["-std=gnu17", "-DUSE_DEVICE_DEPENDENT_ERROR_INFORMATION=0"],
    "C": ["-std=gnu17", "-DUSE_MEMORY_ALLOCATION_FREE=0"],
    "D": ["-std=gnu17", "-DUSE_CUSTOM_DTOSTRE=1"],
    "E": ["-std=c89"],
    "F": ["-std=gnu17", "-DUSE_UNITS_IMPERIAL=1"],
    "G": ["-std=gnu17", "-funsigned-char"],
    "H": ["-std=gnu17", "-DUSE_USER_ERROR_LIST=1", "-DUSE_FULL_ERROR_LIST=0",
          '-DLIST_OF_USER_ERRORS=X(SCPI_ERROR_USER_POSITIVE,201,"User error above zero") X(SCPI_ERROR_USER_NEGATIVE,-1201,"User error below zero")'],
}
CONFIG_DESC = {
    "A": "Makefile default (-std=gnu17): info text on, malloc, snprintf",
    "B": "-DUSE_DEVICE_DEPENDENT_ERROR_INFORMATION=0",
    "C": "-DUSE_MEMORY_ALLOCATION_FREE=0 (static info heap)",
    "D": "-DUSE_CUSTOM_DTOSTRE=1 (library float formatter)",
    "E": "-std=c89 (library fall-backs for snprintf/strndup/strnlen/strncasecmp; bool is unsigned char)",
    "F": "-DUSE_UNITS_IMPERIAL=1 (every optional group of the unit table compiled in)",
    "G": "-funsigned-char (plain char unsigned, as on ARM EABI / PowerPC)",
    "H": "-DUSE_USER_ERROR_LIST=1 with a two-row user list (one positive, one negative code), -DUSE_FULL_ERROR_LIST=0 (the minimal library list)",
}


class AnalysisBroken(Exception):
    """The analysis itself cannot run or lost an anchor: exit 2, never a verdict."""


def compile_commands():
    """Compile commands of the library as the Makefile would run them (make -n -B)."""
    try:
        out = subprocess.run(["make", "-n", "-B", "-C", LIB, "static"], capture_output=True,
                             text=True, check=True).stdout
    except (subprocess.CalledProcessError, FileNotFoundError) as e:
        raise AnalysisBroken("cannot obtain compile commands from %s/Makefile: %s" % (LIB, e))
    cmds = {}
    for line in out.splitlines():
        toks = shlex.split(line) if line.strip() else []
        if len(toks) < 3 or "-c" not in toks:
            continue
        srcs = [t for t in toks if t.endswith(".c")]
        if len(srcs) != 1:
            continue
        flags = []
        skip = False
        for t in toks[1:]:
            if skip:
                skip = False
                continue
            if t == "-o":
                skip = True
                continue
            if t == "-c" or t.endswith(".c"):
                continue
            flags.append(t)
        src = os.path.normpath(os.path.join(LIB, srcs[0]))
        cmds[src] = flags
    if not cmds:
        raise AnalysisBroken("no compile commands found in `make -n -B static` output")
    on_disk = sorted(os.path.join(LIB, "src", f) for f in os.listdir(os.path.join(LIB, "src"))
                     if f.endswith(".c"))
    if sorted(cmds) != on_disk:
        raise AnalysisBroken("build does not cover the sources: built=%s on disk=%s"
                             % (sorted(os.path.basename(c) for c in cmds),
                                [os.path.basename(c) for c in on_disk]))
    return cmds


class Node(dict):
    __slots__ = ("fn", "id")

    @property
    def k(self):
        return self["k"]

    @property
    def ch(self):
        return [self.fn.nodes[c] for c in self.get("ch", [])]

    def child(self, i):
        c = self.get("ch", [])
        return self.fn.nodes[c[i]] if i < len(c) else None

    @property
    def line(self):
        return self.get("line", 0)

    @property
    def src(self):
        return self.get("src", self["k"])

    def loc(self):
        return "%s:%d" % (self.fn.relfile, self.get("line", 0))

    def walk(self):
        """pre-order walk of the subtree"""
        stack = [self]
        while stack:
            n = stack.pop()
            yield n
            stack.extend(reversed(n.ch))

    def strip(self):
        """strip parentheses and implicit casts (and explicit casts between scalar types)"""
        n = self
        while True:
            if n.k == "ParenExpr":
                n = n.child(0)
            elif n.k == "ImplicitCastExpr":
                n = n.child(0)
            else:
                return n

    def strip_all_casts(self):
        n = self
        while n.k in ("ParenExpr", "ImplicitCastExpr", "CStyleCastExpr"):
            n = n.child(0)
        return n

    def __hash__(self):
        return hash((id(self.fn), self.id))

    def __eq__(self, o):
        return self is o

    def __repr__(self):
        return "<%s #%d %s %s>" % (self["k"], self.id, self.get("src", ""), self.loc())


class Block:
    def __init__(self, fn, j):
        self.fn = fn
        self.id = j["id"]
        self.elems = [fn.nodes[e] for e in j["elems"]]
        self.term = j.get("term")
        self.label = j.get("label")
        self.succs = []  # list of (block id or None)
        self.raw_succs = j["succs"]
        self.preds = []

    @property
    def cond(self):
        """the expression whose value decides the branch (rightmost operand through && / ||)"""
        if not self.term or "cond" not in self.term:
            return None
        n = self.fn.nodes[self.term["cond"]]
        while True:
            s = n.strip()
            if s.k == "BinaryOperator" and s.get("op") in ("&&", "||"):
                n = s.child(1)
            else:
                return s

    @property
    def term_kind(self):
        return self.term["k"] if self.term else None

    def __repr__(self):
        return "<B%d>" % self.id


class Function:
    PURE_CALLS = ("memmove", "memcpy", "memset", "strlen", "strnlen", "__builtin_memmove", "__builtin_memcpy", "__builtin_memset",
                  "__builtin___memmove_chk", "__builtin___memcpy_chk", "__builtin___memset_chk", "__builtin_strlen")

    def _propagate_block_copies(self):
        """`remaining = position - consumed; memmove(d, s, remaining); position = remaining;` - a local that is assigned exactly
        once in the function from a side-effect-free expression is, within the same basic block and as long as no operand
        of that expression is stored to, just a name for the expression: its uses are replaced by the expression's node
        (and by its text in the enclosing nodes' source strings), so that rules see the expression itself."""
        import re
        counts = {}
        for n in self.nodes.values():
            if n.k == "DeclStmt":
                for d in n.get("decls", []):
                    counts[d["name"]] = counts.get(d["name"], 0) + (1 if "init" in d else 0)
            elif n.k in ("BinaryOperator", "CompoundAssignOperator", "UnaryOperator"):
                op = n.get("op", "")
                if (n.k != "UnaryOperator" and op.endswith("=") and op not in ("==", "!=", "<=", ">=")) or \
                        (n.k == "UnaryOperator" and op in ("++", "--", "&")):
                    t = n.child(0) if n.ch else None
                    while t is not None and t.k == "ParenExpr" and t.ch:
                        t = t.child(0)
                    if t is not None and t.k == "DeclRefExpr" and t.get("decl", {}).get("kind") == "local":
                        counts[t["decl"]["name"]] = counts.get(t["decl"]["name"], 0) + (2 if op == "&" else 1)

        def pure(e):
            for x in e.walk():
                if x.k == "CallExpr":
                    return False
                if x.k in ("BinaryOperator", "CompoundAssignOperator") and x.get("op", "").endswith("=") and x.get("op") not in ("==", "!=", "<=", ">="):
                    return False
                if x.k == "UnaryOperator" and x.get("op") in ("++", "--"):
                    return False
            return True

        for b in self.blocks.values():
            live = {}          # local name -> (rhs root node, operand paths, text)
            for e in b.elems:
                # kills first (the element's own effects come after its operands were read)
                if e.k == "CallExpr":
                    if live:
                        self._subst_uses(e, live)
                    if (e.get("callee") or "") not in self.PURE_CALLS:
                        live = {}
                    continue
                t = None
                if e.k in ("BinaryOperator", "CompoundAssignOperator") and e.get("op", "").endswith("=") and e.get("op") not in ("==", "!=", "<=", ">="):
                    t = e.child(0)
                elif e.k == "UnaryOperator" and e.get("op") in ("++", "--"):
                    t = e.child(0)
                if t is None:
                    continue
                while t.k == "ParenExpr" and t.ch:
                    t = t.child(0)
                tp = t.get("path")
                # uses inside this element were bound to the copies that were live before it
                if live:
                    self._subst_uses(e, live)
                if tp:
                    live = {k_: v for k_, v in live.items() if tp not in v[1] and k_ != tp}
                if e.k == "BinaryOperator" and e.get("op") == "=" and t.k == "DeclRefExpr" and \
                        t.get("decl", {}).get("kind") == "local" and counts.get(t["decl"]["name"]) == 1 and \
                        t.get("tk") in ("int", "enum", "bool"):
                    rhs = e.child(1)
                    if pure(rhs) and rhs.strip_all_casts().k in ("BinaryOperator",):
                        ops = {x.get("path") for x in rhs.walk() if x.k in ("DeclRefExpr", "MemberExpr") and x.get("path")}
                        if t["decl"]["name"] not in ops:
                            live[t["decl"]["name"]] = (rhs, ops, rhs.src)
            # uses in the block's terminator condition are left alone (conditions are matched structurally elsewhere)
        # calls: arguments are separate elements evaluated before the call element; substitute inside call nodes too
        return

    def _subst_uses(self, root, live):
        import re
        is_store = root.k in ("BinaryOperator", "CompoundAssignOperator") and root.get("op", "").endswith("=") and \
            root.get("op") not in ("==", "!=", "<=", ">=")
        changed = set()
        for x in list(root.walk()):
            chs = x.get("ch")
            if not chs:
                continue
            for i, cid in enumerate(chs):
                c = self.nodes.get(cid) if isinstance(cid, int) else None
                if c is None or (x is root and is_store and i == 0):
                    continue
                y = c
                hops = 0
                while y.k in ("ImplicitCastExpr", "ParenExpr") and y.ch and hops < 4:
                    y = y.child(0)
                    hops += 1
                if y.k == "DeclRefExpr" and y.get("decl", {}).get("name") in live:
                    chs[i] = live[y["decl"]["name"]][0].id
                    changed.add(y["decl"]["name"])
        if changed:
            for x in root.walk():
                src = x.get("src")
                if not src:
                    continue
                for name in changed:
                    text = live[name][2]
                    rx = re.compile(r"(?<![\w.>])%s(?![\w])" % re.escape(name))
                    if src.strip() == name:
                        src = text
                    elif rx.search(src):
                        src = rx.sub(lambda m, t_=text: "(%s)" % t_, src)
                x["src"] = src

    def _canonical_compound(self):
        """`x = x - e` / `x = x + e` / `x = e + x` are rewritten into the compound form `x -= e` / `x += e` (same effect), so
        that rules state updates in one spelling"""
        for n in self.nodes.values():
            if n.k != "BinaryOperator" or n.get("op") != "=" or not n.ch or len(n.ch) < 2:
                continue
            t = n.child(0)
            while t.k == "ParenExpr" and t.ch:
                t = t.child(0)
            tp = t.get("path")
            if not tp or t.k not in ("DeclRefExpr", "MemberExpr"):
                continue
            r = n.child(1)
            while r.k in ("ImplicitCastExpr", "ParenExpr") and r.ch:
                r = r.child(0)
            if r.k != "BinaryOperator" or r.get("op") not in ("+", "-"):
                continue
            a, b_ = r.child(0), r.child(1)
            sa_, sb_ = a, b_
            while sa_.k in ("ImplicitCastExpr", "ParenExpr") and sa_.ch:
                sa_ = sa_.child(0)
            while sb_.k in ("ImplicitCastExpr", "ParenExpr") and sb_.ch:
                sb_ = sb_.child(0)
            other = None
            if sa_.get("path") == tp and sa_.k == t.k:
                other = b_
            elif r["op"] == "+" and sb_.get("path") == tp and sb_.k == t.k:
                other = a
            if other is None or any(x.get("path") == tp for x in other.walk()):
                continue
            n["op0"] = "="
            n["op"] = r["op"] + "="
            n["k"] = "CompoundAssignOperator"
            n["ch"] = [n["ch"][0], other.id]
            n["src0"] = n.get("src")
            n["src"] = "%s %s %s" % (t.src, n["op"], other.src)

    def _resolve_aliases(self):
        """A local pointer that is initialised once with the address of a sub-object of a parameter (`buf = &context->buffer`)
        and never assigned again is a pure name for that object: every access path through it is rewritten to the full
        path, so that rules see `context->buffer.position` whether or not the code uses the alias."""
        import re
        cands = {}
        assigned = {}
        for n in self.nodes.values():
            if n.k == "DeclStmt":
                for d in n.get("decls", []):
                    if d["type"].get("tk") == "ptr":
                        assigned[d["name"]] = assigned.get(d["name"], 0) + (1 if "init" in d else 0)
                        if "init" in d:
                            init = self.nodes[d["init"]]
                            x = init
                            while x.k in ("ImplicitCastExpr", "ParenExpr", "CStyleCastExpr") and x.ch:
                                x = x.child(0)
                            p = x.get("path")
                            if x.k == "UnaryOperator" and x.get("op") == "&" and p and p.startswith("&") and ("->" in p) and "[" not in p:
                                cands[d["name"]] = p[1:]
            elif n.k in ("BinaryOperator", "CompoundAssignOperator") and n.get("op", "").endswith("=") and n.get("op") not in ("==", "!=", "<=", ">="):
                t = n.child(0)
                while t.k in ("ParenExpr",) and t.ch:
                    t = t.child(0)
                if t.k == "DeclRefExpr" and t.get("tk") == "ptr":
                    assigned[t["decl"]["name"]] = assigned.get(t["decl"]["name"], 0) + 1
            elif n.k == "UnaryOperator" and n.get("op") in ("++", "--"):
                t = n.child(0)
                while t.k in ("ParenExpr",) and t.ch:
                    t = t.child(0)
                if t.k == "DeclRefExpr" and t.get("tk") == "ptr":
                    assigned[t["decl"]["name"]] = assigned.get(t["decl"]["name"], 0) + 1
            elif n.k == "UnaryOperator" and n.get("op") == "&":
                t = n.child(0)
                while t.k in ("ParenExpr",) and t.ch:
                    t = t.child(0)
                if t.k == "DeclRefExpr" and t.get("tk") == "ptr":
                    assigned[t["decl"]["name"]] = assigned.get(t["decl"]["name"], 0) + 2     # address taken: not a pure name
        al = {a: tgt for a, tgt in cands.items() if assigned.get(a, 0) == 1}
        # table walkers: a local pointer that is set to a global array (`reg = errs`) and otherwise only stepped by one
        # (`reg++`) names the element errs[reg]; `reg->field` is rewritten to `errs[reg].field`
        walkers = {}
        steps, sets_ = {}, {}
        for n in self.nodes.values():
            t = None
            if n.k in ("BinaryOperator", "CompoundAssignOperator") and n.get("op") in ("=", "+=", "-="):
                t = n.child(0)
            elif n.k == "UnaryOperator" and n.get("op") in ("++", "--"):
                t = n.child(0)
            if t is None:
                continue
            while t.k == "ParenExpr" and t.ch:
                t = t.child(0)
            if t.k != "DeclRefExpr" or t.get("tk") != "ptr" or t["decl"]["kind"] != "local":
                continue
            name = t["decl"]["name"]
            if n.k == "UnaryOperator" and n["op"] == "++":
                steps[name] = steps.get(name, 0) + 1
            elif n.get("op") == "=":
                r = n.child(1)
                while r.k in ("ImplicitCastExpr", "ParenExpr", "CStyleCastExpr") and r.ch:
                    r = r.child(0)
                if r.k == "DeclRefExpr" and r["decl"]["kind"] == "global" and r.get("tk") == "array":
                    sets_.setdefault(name, []).append(r["decl"]["name"])
                else:
                    sets_.setdefault(name, []).append(None)
            else:
                sets_.setdefault(name, []).append(None)
        for n in self.nodes.values():
            if n.k == "DeclStmt":
                for d in n.get("decls", []):
                    if d["type"].get("tk") == "ptr" and "init" in d:
                        r = self.nodes[d["init"]]
                        while r.k in ("ImplicitCastExpr", "ParenExpr", "CStyleCastExpr") and r.ch:
                            r = r.child(0)
                        if r.k == "DeclRefExpr" and r["decl"]["kind"] == "global" and r.get("tk") == "array":
                            sets_.setdefault(d["name"], []).append(r["decl"]["name"])
                        else:
                            sets_.setdefault(d["name"], []).append(None)
        for name, srcs in sets_.items():
            if len(srcs) == 1 and srcs[0] and steps.get(name) and assigned.get(name, 0) - (1 if name in cands else 0) < 10 and name not in al:
                if all(x is not None for x in srcs):
                    walkers[name] = srcs[0]
        self.walkers = walkers
        # an alias of an alias
        for _ in range(3):
            for a, tgt in list(al.items()):
                root = re.match(r"(\w+)->", tgt)
                if root and root.group(1) in al and root.group(1) != a:
                    al[a] = al[root.group(1)] + "." + tgt[len(root.group(0)):]
        self.aliases = al
        if not al and not walkers:
            return
        pats = [(re.compile(r"(?<![\w.>])%s->" % re.escape(a)), tgt + ".") for a, tgt in al.items()]
        pats += [(re.compile(r"(?<![\w.>])%s->" % re.escape(a)), "%s[%s]." % (tab, a)) for a, tab in walkers.items()]
        bare = [(re.compile(r"(?<![\w.>])%s(?![\w])(?!->)" % re.escape(a)), "&" + tgt) for a, tgt in al.items()]
        for n in self.nodes.values():
            p = n.get("path")
            if p and "->" in p:
                q = p
                for rx, rep in pats:
                    q = rx.sub(rep, q)
                if q != p:
                    n["path0"] = p
                    n["path"] = q
            elif p in al and n.k == "DeclRefExpr":
                n["path0"] = p
                n["path"] = "&" + al[p]
            src = n.get("src")
            if src and any(a in src for a in list(al) + list(walkers)):
                q = src
                for rx, rep in pats:
                    q = rx.sub(rep, q)
                for rx, rep in bare:
                    q = rx.sub(rep, q)
                if q != src:
                    n["src0"] = src
                    n["src"] = q

    def __init__(self, tu, j, normalise=True):
        self.tu = tu
        self.j = j
        self.name = j["name"]
        self.file = j["file"]
        self.relfile = os.path.relpath(j["file"], REPO) if j["file"].startswith(REPO) else j["file"]
        self.line = j["line"]
        self.endline = j["endline"]
        self.static = j["static"]
        self.params = j["params"]
        self.ret = j["ret"]
        self.nodes = {}
        for k, v in j["nodes"].items():
            n = Node(v)
            n.fn = self
            n.id = int(k)
            self.nodes[int(k)] = n
        self.parent = {}
        for n in self.nodes.values():
            for c in n.get("ch", []):
                self.parent[c] = n
            if n["k"] == "DeclStmt":
                for d in n.get("decls", []):
                    if "init" in d:
                        self.parent[d["init"]] = n
        self.body = self.nodes.get(j["body"])
        cfg = j["cfg"]
        self.blocks = {}
        for b in cfg.get("blocks", []):
            self.blocks[b["id"]] = Block(self, b)
        self.entry = self.blocks[cfg["entry"]]
        self.exit = self.blocks[cfg["exit"]]
        for b in self.blocks.values():
            for s in b.raw_succs:
                t = s.get("to")
                b.succs.append(self.blocks[t] if t is not None else None)
                if t is not None:
                    self.blocks[t].preds.append(b)
        if normalise:
            self._resolve_aliases()
            self._propagate_block_copies()
            self._canonical_compound()
        # element -> (block, index)
        self.where = {}
        for b in self.blocks.values():
            for i, e in enumerate(b.elems):
                self.where.setdefault(e.id, (b, i))
        if normalise:
            from . import idioms
            idioms.apply(self)

    def pristine(self):
        """the same function without the fact-level normalisations (aliases, copy propagation, canonical compound
        assignments): the tree exactly as clang built it, which is what the concrete interpreter executes"""
        p = getattr(self, "_pristine", None)
        if p is None:
            p = self._pristine = Function(self.tu, self.j, normalise=False)
        return p

    def parent_of(self, n):
        return self.parent.get(n.id)

    def ancestors(self, n):
        p = self.parent.get(n.id)
        while p is not None:
            yield p
            p = self.parent.get(p.id)

    def all_nodes(self):
        return self.nodes.values()

    def calls(self, callee=None):
        for n in self.nodes.values():
            if n["k"] == "CallExpr" and (callee is None or n.get("callee") == callee):
                yield n

    def call_args(self, call):
        return call.ch[1:]

    def edge_label(self, b, i):
        """label of the i-th successor edge of block b: ('true'|'false', cond) for two-way
        branches, ('case', lo, hi) / ('default',) for switch edges, ('fall',) otherwise"""
        tk = b.term_kind
        if tk in ("IfStmt", "WhileStmt", "ForStmt", "DoStmt", "ConditionalOperator",
                  "BinaryOperator") and len(b.succs) == 2:
            return ("true" if i == 0 else "false", b.cond)
        if tk == "SwitchStmt":
            t = b.succs[i]
            if t is not None and t.label:
                if t.label["k"] == "CaseStmt":
                    return ("case", t.label.get("lo"), t.label.get("hi", t.label.get("lo")),
                            t.label.get("text"))
                if t.label["k"] == "DefaultStmt":
                    return ("default",)
            return ("switch-exit",)
        return ("fall",)

    def __repr__(self):
        return "<Function %s>" % self.name


def instantiate(g, call, tag):
    """A renamed copy of helper function g for one call site: every parameter that is bound to a plain access path of the
    caller (`summary`, `&register_group`, `context`) is replaced by that path, every other parameter and every local is
    prefixed with `tag`.  Returns (clone, bindings) where bindings lists (renamed parameter, argument node) for the
    parameters that have to be bound by value.  The clone's nodes can be fed to the same per-element machinery as the
    caller's nodes (inlining without touching the caller's CFG)."""
    import copy
    import re
    j = copy.deepcopy(g.j)
    args = [n for n in call.ch[1:]] if call.ch else []
    args = [call.fn.nodes[a] if isinstance(a, int) else a for a in args]
    ren_arrow, ren_plain, byvalue = {}, {}, []
    for i, prm in enumerate(g.params):
        name = prm["name"]
        a = args[i] if i < len(args) else None
        ap = None
        if a is not None:
            x = a
            while x.k in ("ImplicitCastExpr", "ParenExpr", "CStyleCastExpr") and x.ch:
                x = x.child(0)
            ap = x.get("path")
            if ap and not re.match(r"^&?[\w.\->\[\]]+$", ap):
                ap = None
        if ap and ap.startswith("&") and prm["type"].get("tk") == "ptr":
            ren_arrow[name] = ap[1:] + "."            # p->f  ==>  obj.f
            ren_plain[name] = ap
        elif ap and not ap.startswith("&"):
            ren_arrow[name] = ap + "->"
            ren_plain[name] = ap
        else:
            ren_plain[name] = tag + name
            ren_arrow[name] = tag + name + "->"
            if a is not None:
                byvalue.append((tag + name, a))
    locs = set()
    for n in j["nodes"].values():
        if n.get("k") == "DeclStmt":
            for d in n.get("decls", []):
                locs.add(d["name"])
    for name in locs:
        ren_plain[name] = tag + name
        ren_arrow[name] = tag + name + "->"

    def sub(txt):
        for name in sorted(ren_plain, key=len, reverse=True):
            txt = re.sub(r"(?<![\w.>])%s->" % re.escape(name), lambda m, r=ren_arrow[name]: r, txt)
            txt = re.sub(r"(?<![\w.>])%s(?![\w])" % re.escape(name), lambda m, r=ren_plain[name]: r, txt)
        return txt
    for n in j["nodes"].values():
        for key in ("path", "src"):
            if isinstance(n.get(key), str):
                n[key] = sub(n[key])
        d = n.get("decl")
        if isinstance(d, dict) and d.get("name") in ren_plain and d.get("kind") in ("param", "local"):
            d["name"] = ren_plain[d["name"]] if re.match(r"^[\w:$]+$", ren_plain[d["name"]]) else d["name"]
        if n.get("k") == "DeclStmt":
            for dd in n.get("decls", []):
                dd["name"] = ren_plain.get(dd["name"], dd["name"])
    j["name"] = tag + g.name
    clone = Function(g.tu, j)
    return clone, byvalue


class TU:
    def __init__(self, path, j, config):
        self.path = path
        self.config = config
        self.j = j
        self.functions = {}
        for f in j["functions"]:
            fn = Function(self, f)
            self.functions[fn.name] = fn
        self.globals = j["globals"]
        self.static_locals = j["static_locals"]
        self.enums = j["enums"]
        self.records = j["records"]
        self.typedefs = j["typedefs"]


class Program:
    """All TUs of one build configuration."""

    def __init__(self, config, tus, macros):
        self.config = config
        self.tus = tus
        self.macros = macros
        self.functions = {}
        for tu in tus:
            for name, fn in tu.functions.items():
                if name in self.functions and not fn.static:
                    raise AnalysisBroken("duplicate definition of %s" % name)
                # static functions with the same name in two TUs: key by name@file
                if name in self.functions:
                    self.functions["%s@%s" % (name, os.path.basename(fn.file))] = fn
                else:
                    self.functions[name] = fn
        self.enums = {}
        self.records = {}
        self.typedefs = {}
        self.enumconst = {}
        for tu in tus:
            self.enums.update(tu.enums)
            self.records.update(tu.records)
            self.typedefs.update(tu.typedefs)
        for e in self.enums.values():
            self.enumconst.update(e["consts"])

    def fn(self, name):
        f = self.functions.get(name)
        return f

    def need_fn(self, name):
        f = self.functions.get(name)
        if f is None:
            raise AnalysisBroken("anchor lost: function %s not found in configuration %s"
                                 % (name, self.config))
        return f

    def global_var(self, name):
        for tu in self.tus:
            for g in tu.globals:
                if g["name"] == name and g.get("definition") and "init" in g:
                    return g
        return None

    def all_globals(self):
        for tu in self.tus:
            for g in tu.globals:
                yield tu, g

    def callers(self, callee):
        for f in self.functions.values():
            for c in f.calls(callee):
                yield f, c

    def unit_count(self):
        return len(self.tus)


_MACRO_RE = re.compile(r"#define\s+(\w+)(\([^)]*\))?\s*(.*)")


def _macros(src, flags):
    out = subprocess.run(["clang", "-dM", "-E"] + flags + [src], capture_output=True, text=True)
    m = {}
    for line in out.stdout.splitlines():
        g = _MACRO_RE.match(line)
        if g:
            m[g.group(1)] = g.group(3).strip()
    return m


ROLES = os.path.join(os.path.dirname(os.path.abspath(__file__)), "..", "spec", "function_roles.json")


def content_fingerprint(fj):
    """what a function body mentions, independent of every function, parameter and local name: literal values, enum
    constants, member names, operator kinds (as a sorted list of strings)"""
    out = set()
    for n in fj["nodes"].values():
        k = n.get("k")
        if k in ("IntegerLiteral", "CharacterLiteral") and "val" in n:
            out.add("%s:%s" % ("i" if k == "IntegerLiteral" else "c", n["val"]))
        elif k == "StringLiteral":
            out.add("s:" + str(n.get("str")))
        elif k == "MemberExpr":
            out.add("m:" + str(n.get("member")))
        elif k == "DeclRefExpr" and isinstance(n.get("decl"), dict) and n["decl"].get("kind") in ("enumconst", "global"):
            out.add("e:" + str(n["decl"].get("name")))
        elif k in ("BinaryOperator", "UnaryOperator", "CompoundAssignOperator") and n.get("op"):
            out.add("o:" + str(n["op"]))
        elif k in ("WhileStmt", "ForStmt", "DoStmt", "SwitchStmt", "ConditionalOperator"):
            out.add("k:" + k)
    return sorted(out)


def var_fingerprints(fj):
    """How each parameter and local of a function is used, independent of its name: a set of tokens per variable built
    from the nearest meaningful parent of every use (operator and side, subscript base/index, member accessed through it,
    callee and argument position, ...) and a description of the sibling operand.  Used to recognise renamed variables."""
    nodes = fj["nodes"]
    parent = {}
    for k, n in nodes.items():
        for c in n.get("ch", []):
            parent[str(c)] = k
        if n.get("k") == "DeclStmt":
            for d in n.get("decls", []):
                if "init" in d:
                    parent[str(d["init"])] = k
    params = [p_["name"] for p_ in fj["params"]]
    out = {}
    for i, p_ in enumerate(fj["params"]):
        out[p_["name"]] = {"kind": "param", "index": i, "ct": p_["type"].get("ct"), "tokens": set()}
    order = 0
    for k in sorted(nodes, key=lambda x: int(x)):
        n = nodes[k]
        if n.get("k") == "DeclStmt":
            for d in n.get("decls", []):
                if d["name"] not in out:
                    out[d["name"]] = {"kind": "local", "index": order, "ct": d.get("type", {}).get("ct"), "tokens": set()}
                    order += 1

    def strip(k):
        n = nodes[str(k)]
        while n.get("k") in ("ImplicitCastExpr", "ParenExpr", "CStyleCastExpr") and n.get("ch"):
            n = nodes[str(n["ch"][0])]
        return n

    def describe(k):
        n = strip(k)
        kk = n.get("k")
        if kk in ("IntegerLiteral", "CharacterLiteral"):
            return "#%s" % n.get("val")
        if kk == "DeclRefExpr":
            d = n.get("decl", {})
            if d.get("kind") == "param" and d.get("name") in params:
                return "p%d" % params.index(d["name"])
            if d.get("kind") == "enumconst":
                return "e:" + d.get("name", "")
            return "v" if d.get("kind") in ("local", "param") else "g:" + str(d.get("name"))
        if kk == "MemberExpr":
            return "m:" + str(n.get("member"))
        if kk == "CallExpr":
            return "c:" + str(n.get("callee"))
        if kk == "StringLiteral":
            return "s:" + str(n.get("str"))
        return str(kk)
    for k, n in nodes.items():
        if n.get("k") == "DeclStmt":
            for d in n.get("decls", []):
                if "init" in d and d["name"] in out:
                    out[d["name"]]["tokens"].add("D:" + describe(d["init"]))
        if n.get("k") != "DeclRefExpr":
            continue
        d = n.get("decl", {})
        if d.get("kind") not in ("param", "local") or d.get("name") not in out:
            continue
        # climb through casts / parentheses
        cur = k
        while str(cur) in parent and nodes[parent[str(cur)]].get("k") in ("ImplicitCastExpr", "ParenExpr", "CStyleCastExpr"):
            cur = parent[str(cur)]
        pk = parent.get(str(cur))
        if pk is None:
            continue
        P_ = nodes[pk]
        ch = [str(c) for c in P_.get("ch", [])]
        pos = ch.index(str(cur)) if str(cur) in ch else -1
        kk = P_.get("k")
        if kk in ("BinaryOperator", "CompoundAssignOperator"):
            sib = ch[1 - pos] if pos in (0, 1) and len(ch) == 2 else None
            tok = "B%s%s:%s" % (P_.get("op"), "LR"[pos] if pos in (0, 1) else "?", describe(sib) if sib else "")
        elif kk == "ArraySubscriptExpr":
            sib = ch[1 - pos] if pos in (0, 1) and len(ch) == 2 else None
            tok = "S%s:%s" % ("bi"[pos] if pos in (0, 1) else "?", describe(sib) if sib else "")
        elif kk == "MemberExpr":
            tok = "M:%s" % P_.get("member")
        elif kk == "CallExpr":
            tok = "C:%s:%d" % (P_.get("callee"), pos)
        elif kk == "UnaryOperator":
            tok = "U%s" % P_.get("op")
        elif kk == "DeclStmt":
            tok = "I"
        else:
            tok = str(kk)
        out[d["name"]]["tokens"].add(tok)
    for v in out.values():
        v["tokens"] = sorted(v["tokens"])
    return out


def rename_in_function(fj, ren):
    """rename parameters / locals of one function's facts: {name in the tree: name to use}"""
    if not ren:
        return
    rx = re.compile(r"(?<![\w.>])(%s)(?![\w])" % "|".join(re.escape(u) for u in sorted(ren, key=len, reverse=True)))

    def sub(txt):
        return rx.sub(lambda m_: ren[m_.group(1)], txt)
    for p_ in fj["params"]:
        if p_["name"] in ren:
            p_["name"] = ren[p_["name"]]
    for n in fj["nodes"].values():
        d = n.get("decl")
        if isinstance(d, dict) and d.get("kind") in ("param", "local") and d.get("name") in ren:
            d["name"] = ren[d["name"]]
        if n.get("k") == "DeclStmt":
            for dd in n.get("decls", []):
                if dd["name"] in ren:
                    dd["name"] = ren[dd["name"]]
        for key in ("path", "src"):
            if isinstance(n.get(key), str) and rx.search(n[key]):
                n[key] = sub(n[key])


def canonical_variables(cfg, jsons, roles):
    """Recognise renamed parameters and locals.  Parameters are matched by position (same types); locals by type and by
    the way they are used (var_fingerprints).  A variable recognised under another name is renamed back to its reference
    name in the facts of its function, so rules, site identities, known findings and the undecided-site list keep
    addressing it.  New variables and unmatched ones keep their names (a clash with a reference name gets a `$` suffix).
    Returns {function: {reference name: name in the tree}}."""
    done = {}
    for j in jsons:
        for fj in j["functions"]:
            r = roles.get(fj["name"])
            ref = (r or {}).get("vars", {}).get(cfg)
            if not ref:
                continue
            cur = var_fingerprints(fj)
            ren = {}
            # parameters by position
            rp = [x for x in sorted((v for v in ref.items() if v[1]["kind"] == "param"), key=lambda v: v[1]["index"])]
            cp = [x for x in sorted((v for v in cur.items() if v[1]["kind"] == "param"), key=lambda v: v[1]["index"])]
            if len(rp) == len(cp) and all(a[1]["ct"] == b[1]["ct"] for a, b in zip(rp, cp)):
                for (rn, _), (cn, _) in zip(rp, cp):
                    if rn != cn:
                        ren[cn] = rn
            # locals by type and use
            rl = {k: v for k, v in ref.items() if v["kind"] == "local"}
            cl = {k: v for k, v in cur.items() if v["kind"] == "local"}
            same = set(rl) & set(cl)
            same = {k for k in same if rl[k]["ct"] == cl[k]["ct"]}
            missing = [k for k in rl if k not in same]
            unknown = [k for k in cl if k not in same]
            if missing and unknown:
                pairs = []
                for e in missing:
                    for u in unknown:
                        if rl[e]["ct"] != cl[u]["ct"]:
                            continue
                        a, b = set(rl[e]["tokens"]), set(cl[u]["tokens"])
                        sc = len(a & b) / float(len(a | b)) if (a or b) else 0.5
                        pairs.append((sc, e, u))
                pairs.sort(reverse=True)
                used_e, used_u = set(), set()
                for sc, e, u in pairs:
                    if e in used_e or u in used_u:
                        continue
                    rivals = [s2 for s2, e2, u2 in pairs if (e2 == e) != (u2 == u) and e2 not in used_e and u2 not in used_u]
                    if sc >= 0.34 and (not rivals or sc > max(rivals) + 0.1):
                        ren[u] = e
                        used_e.add(e)
                        used_u.add(u)
            # clashes: a kept/new variable that already carries a reference name another one is renamed to
            targets = set(ren.values())
            for k in list(cur):
                if k in targets and k not in ren:
                    ren[k] = k + "$"
            if ren:
                rename_in_function(fj, ren)
                done[fj["name"]] = {v: k for k, v in ren.items()}
    return done


def canonical_names(cfg, jsons):
    """Recognise renamed internal functions.  `jsons` are the raw per-unit extractor outputs of one configuration.  A
    function the reference table (spec/function_roles.json) expects in this configuration and that is missing is matched
    against the functions the table does not know: same return and parameter types, and the best agreement of callers,
    callees and file - accepted only when the best candidate is unique.  The match is applied by renaming the NEW name
    back to the reference name everywhere in the facts (function, callee fields, access paths, source texts), so every
    rule keeps addressing the function by its role.  Returns {reference name: name in the tree}.  A function that was
    deleted (no candidate) stays missing: the rules that need it report the lost anchor."""
    try:
        with open(ROLES) as fh:
            roles = json.load(fh)["roles"]
    except (OSError, ValueError, KeyError):
        return {}
    present = {}
    for j in jsons:
        for f in j["functions"]:
            present.setdefault(f["name"], []).append(f)
    missing = [n for n, r in roles.items() if cfg in r["configs"] and n not in present]
    unknown = [n for n in present if n not in roles]
    if not missing or not unknown:
        return {}

    def callees_of(name):
        out = set()
        for f in present[name]:
            for n in f["nodes"].values():
                if n.get("k") == "CallExpr" and n.get("callee"):
                    out.add(n["callee"])
        return out
    callees = {n: callees_of(n) for n in present}
    callers = {}
    for n, cs in callees.items():
        for c in cs:
            callers.setdefault(c, set()).add(n)

    def jac(a, b):
        a, b = set(a), set(b)
        if not a and not b:
            return 1.0
        return len(a & b) / float(len(a | b))
    mapping = {}
    for _round in range(3):
        inv = {v: k for k, v in mapping.items()}

        def canon(names):
            return {inv.get(x, x) for x in names}
        changed = False
        for e in missing:
            if e in mapping:
                continue
            r = roles[e]
            scored = []
            for u in unknown:
                if u in inv:
                    continue
                fu = present[u][0]
                if [fu["ret"].get("ct")] + [q["type"].get("ct") for q in fu["params"]] != r["sig"].get(cfg):
                    continue
                sc = jac(canon(callers.get(u, ())), r["callers"]) + jac(canon(callees[u]) - {e}, set(r["callees"]) - {e})
                sc += 2 * jac(content_fingerprint(fu), (r.get("content") or {}).get(cfg, ()))
                if os.path.basename(fu["file"]) == r["file"]:
                    sc += 0.5
                if bool(fu["static"]) == bool(r["static"]):
                    sc += 0.25
                scored.append((sc, u))
            scored.sort(reverse=True)
            if scored and scored[0][0] >= 2.0 and (len(scored) == 1 or scored[0][0] > scored[1][0] + 0.2):
                mapping[e] = scored[0][1]
                changed = True
        if not changed:
            break
    if not mapping:
        return {}
    inv = {v: k for k, v in mapping.items()}
    rx = re.compile(r"(?<![\w])(%s)(?![\w])" % "|".join(re.escape(u) for u in sorted(inv, key=len, reverse=True)))

    def ren(txt):
        return rx.sub(lambda m: inv[m.group(1)], txt)
    for j in jsons:
        for f in j["functions"]:
            if f["name"] in inv:
                f["name"] = inv[f["name"]]
            for n in f["nodes"].values():
                if n.get("callee") in inv:
                    n["callee"] = inv[n["callee"]]
                d = n.get("decl")
                if isinstance(d, dict) and d.get("kind") == "function" and d.get("name") in inv:
                    d["name"] = inv[d["name"]]
                for key in ("path", "src"):
                    if isinstance(n.get(key), str) and rx.search(n[key]):
                        n[key] = ren(n[key])
    return mapping


class FactBase:
    def __init__(self, configs=None, keep=False, canonical=True):
        self.canonical = canonical
        self.renamed = {}
        self.renamed_vars = {}
        if not os.path.exists(EXTRACTOR):
            raise AnalysisBroken("extractor not built: run ./tool/build.sh (MANIFEST setup_cmd)")
        self.configs = list(configs or CONFIGS)
        self.cmds = compile_commands()
        self.scratch = tempfile.mkdtemp(prefix="scpifacts-")
        self.programs = {}
        try:
            self._extract()
        finally:
            if not keep:
                shutil.rmtree(self.scratch, ignore_errors=True)

    def _extract(self):
        jobs = []
        for cfg in self.configs:
            for src, flags in self.cmds.items():
                out = os.path.join(self.scratch, "%s-%s.json" % (cfg, os.path.basename(src)))
                fl = [f if not f.startswith("-I") or os.path.isabs(f[2:])
                      else "-I" + os.path.join(LIB, f[2:]) for f in flags]
                jobs.append((cfg, src, out, fl + CONFIGS[cfg]))

        def run(job):
            cfg, src, out, fl = job
            p = subprocess.run([EXTRACTOR, "-o", out, src, "--"] + fl + ["-w"],
                               capture_output=True, text=True)
            if p.returncode != 0 or not os.path.exists(out):
                raise AnalysisBroken("extractor failed on %s [%s]: %s"
                                     % (src, cfg, p.stderr.strip()[-2000:]))
            with open(out) as f:
                j = json.load(f)
            os.unlink(out)
            return cfg, src, j, fl

        with ThreadPoolExecutor(max_workers=16) as ex:
            results = list(ex.map(run, jobs))
        per = {}
        flags_of = {}
        if self.canonical:
            for cfg in self.configs:
                js = [j for c, _s, j, _f in results if c == cfg]
                m = canonical_names(cfg, js)
                if m:
                    self.renamed[cfg] = m
                try:
                    with open(ROLES) as fh:
                        roles_ = json.load(fh)["roles"]
                except (OSError, ValueError, KeyError):
                    roles_ = {}
                mv = canonical_variables(cfg, js, roles_)
                if mv:
                    self.renamed_vars[cfg] = mv
        for cfg, src, j, fl in results:
            per.setdefault(cfg, []).append(TU(src, j, cfg))
            flags_of[cfg] = fl
        for cfg in self.configs:
            macros = {}
            for src in self.cmds:
                if os.path.basename(src) in ("parser.c", "error.c", "utils.c"):
                    macros.update(_macros(src, flags_of[cfg]))
            self.programs[cfg] = Program(cfg, per[cfg], macros)

    def __getitem__(self, cfg):
        return self.programs[cfg]


if __name__ == "__main__":
    fb = FactBase()
    for c, p in fb.programs.items():
        print(c, len(p.functions), "functions", p.unit_count(), "units")


def extract_fixture(path, flags=("-std=gnu17",)):
    """run the extractor on a small fixture file (positive example for expected-zero rules)"""
    out = tempfile.mktemp(prefix="scpifix-", suffix=".json")
    try:
        p = subprocess.run([EXTRACTOR, "-o", out, path, "--"] + list(flags) + ["-w"],
                           capture_output=True, text=True)
        if p.returncode != 0 or not os.path.exists(out):
            raise AnalysisBroken("extractor failed on fixture %s: %s" % (path, p.stderr[-500:]))
        with open(out) as f:
            return TU(path, json.load(f), "fixture")
    finally:
        if os.path.exists(out):
            os.unlink(out)
