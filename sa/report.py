"""Rule-instance bookkeeping, known findings, evidence and exit status (DESIGN.md 1, 3.6)."""
import json
import os
import time

VERIF = os.path.dirname(os.path.dirname(os.path.abspath(__file__)))
# selftest runs (mutants applied to a scratch copy) redirect their output here
OUT = os.environ.get("VERIF_OUT") or VERIF

HOLDS, VIOLATED, UNDECIDED, ADVISORY = "HOLDS", "VIOLATED", "UNDECIDED", "ADVISORY"


class Instance:
    def __init__(self, rule, site, loc, verdict, note, config, detail=None, nontrivial=True):
        self.rule, self.site, self.loc, self.verdict = rule, site, loc, verdict
        self.note, self.config, self.detail, self.nontrivial = note, config, detail, nontrivial

    def key(self):
        return (self.rule, self.site)

    def as_json(self):
        d = {"rule": self.rule, "site": self.site, "at": self.loc, "verdict": self.verdict,
             "config": self.config}
        if self.note:
            d["note"] = self.note
        if self.detail:
            d["detail"] = self.detail
        return d


class Checker:
    def __init__(self, prop, tier, rules_doc, explanation, level_note=None):
        self.prop = prop
        self.tier = tier
        self.rules_doc = rules_doc
        self.explanation = explanation
        self.instances = []
        self.broken = []
        self.floors = {}
        self.t0 = time.time()
        self.config = "A"
        self.functions_analysed = set()
        self.trusted = set()
        self.assumptions = []
        kf = os.path.join(VERIF, "known_findings.json")
        self.known = []
        if os.path.exists(kf):
            with open(kf) as f:
                self.known = [k for k in json.load(f)["findings"] if k["property"] == prop]
        us = os.path.join(VERIF, "spec", "undecided_sites.json")
        self.undecided_ok = {}
        if os.path.exists(us):
            with open(us) as f:
                for u in json.load(f)["sites"]:
                    if u["property"] == prop:
                        self.undecided_ok[(u["rule"], u["site"])] = u["reason"]

    # ---- recording ----------------------------------------------------------------------
    def _add(self, rule, site, loc, verdict, note="", detail=None, nontrivial=True, config=None):
        if rule not in self.rules_doc:
            raise KeyError("rule %s not documented for %s" % (rule, self.prop))
        self.instances.append(Instance(rule, site, loc, verdict, note, config or self.config,
                                       detail, nontrivial))

    def holds(self, rule, site, loc, note="", nontrivial=True, detail=None):
        self._add(rule, site, loc, HOLDS, note, detail, nontrivial)

    def violated(self, rule, site, loc, what, detail=None):
        self._add(rule, site, loc, VIOLATED, what, detail)

    def undecided(self, rule, site, loc, reason, detail=None):
        self._add(rule, site, loc, UNDECIDED, reason, detail)

    def advisory(self, rule, site, loc, what, detail=None):
        self._add(rule, site, loc, ADVISORY, what, detail)

    def anchor_lost(self, rule, what):
        self.broken.append("%s: anchor lost: %s [config %s]" % (rule, what, self.config))

    def require(self, cond, rule, what):
        if not cond:
            self.anchor_lost(rule, what)
        return bool(cond)

    def floor(self, rule, minimum):
        """the rule must have matched at least `minimum` instances (any verdict) in the
        configuration being analysed"""
        self.floors[(rule, self.config)] = minimum

    def analysed(self, *fns):
        for f in fns:
            if f is not None:
                self.functions_analysed.add(f.name if hasattr(f, "name") else str(f))

    def trust(self, *what):
        self.trusted.update(what)

    def assume(self, what):
        if what not in self.assumptions:
            self.assumptions.append(what)

    # ---- finishing ----------------------------------------------------------------------
    def finish(self, configs, units, checker_cmd):
        # floors
        count = {}
        for i in self.instances:
            count[(i.rule, i.config)] = count.get((i.rule, i.config), 0) + 1
        for (rule, cfg), minimum in self.floors.items():
            if count.get((rule, cfg), 0) < minimum:
                self.broken.append("%s: matched %d instance(s) in configuration %s, floor is %d "
                                   "(rule lost its anchors; refusing to pass vacuously)"
                                   % (rule, count.get((rule, cfg), 0), cfg, minimum))
        # undecided sites must be listed
        for i in self.instances:
            if i.verdict == UNDECIDED and i.key() not in self.undecided_ok:
                self.broken.append("%s: new undecided site %s at %s: %s"
                                   % (i.rule, i.site, i.loc, i.note))
        # violations vs known findings
        lines = []
        new_violations = []
        known_hit = {}
        seen = set()
        for i in self.instances:
            if i.verdict != VIOLATED:
                continue
            kf = None
            for k in self.known:
                if k.get("status") == "known" and k["rule"] == i.rule and k["site"] == i.site:
                    kf = k
            if kf is not None:
                known_hit.setdefault((i.rule, i.site), (kf, i))
            else:
                if i.key() in seen:
                    continue
                seen.add(i.key())
                new_violations.append(i)
        for (rule, site), (kf, i) in sorted(known_hit.items()):
            lines.append("KNOWN-FINDING: property=%s %s [%s at %s] %s"
                         % (self.prop, kf["what_fails"], rule, i.loc, site))
        os.makedirs(os.path.join(OUT, "reports"), exist_ok=True)
        for n, i in enumerate(new_violations):
            rp = os.path.join(OUT, "reports", "%s-%s-%d.json" % (self.prop, i.rule, n))
            with open(rp, "w") as f:
                json.dump({"property": self.prop, "rule": i.rule,
                           "rule_text": self.rules_doc[i.rule], "site": i.site, "at": i.loc,
                           "config": i.config, "what": i.note, "detail": i.detail}, f, indent=1)
            lines.append("VIOLATION property=%s replay=%s" % (self.prop, rp))
            lines.append("  rule %s: %s" % (i.rule, self.rules_doc[i.rule]))
            lines.append("  at %s (%s) [config %s]: %s" % (i.loc, i.site, i.config, i.note))
        for b in self.broken:
            lines.append("ANALYSIS-BROKEN property=%s %s" % (self.prop, b))

        # evidence
        distinct = {}
        for i in self.instances:
            if i.nontrivial and i.verdict != ADVISORY:
                distinct.setdefault(i.key(), i)
        obligations = {}
        for i in self.instances:
            if i.verdict == ADVISORY:
                continue
            obligations.setdefault(i.key(), set()).add(i.verdict)
        discharged = sum(1 for v in obligations.values() if v == {HOLDS})
        undec = sum(1 for v in obligations.values() if UNDECIDED in v and VIOLATED not in v)
        viol = sum(1 for v in obligations.values() if VIOLATED in v)
        per_rule = {}
        for i in self.instances:
            r = per_rule.setdefault(i.rule, {"text": self.rules_doc[i.rule], "instances": 0,
                                             HOLDS: 0, VIOLATED: 0, UNDECIDED: 0, ADVISORY: 0,
                                             "configs": set()})
            r["instances"] += 1
            r[i.verdict] += 1
            r["configs"].add(i.config)
        for r in per_rule.values():
            r["configs"] = sorted(r["configs"])
        for (rule, cfg), minimum in self.floors.items():
            if rule in per_rule:
                per_rule[rule].setdefault("floor", {})[cfg] = minimum
        samples = []
        by_rule_seen = {}
        for i in self.instances:
            c = by_rule_seen.get(i.rule, 0)
            if c < 3 or i.verdict in (VIOLATED, UNDECIDED, ADVISORY):
                samples.append(i.as_json())
                by_rule_seen[i.rule] = c + 1
        ev = {
            "property_id": self.prop,
            "tier": self.tier,
            "seed": int(os.environ.get("VERIF_SEED", "0") or 0),
            "level": "other",
            "coverage": {
                "explanation": self.explanation,
                "obligations": len(obligations),
                "discharged": discharged,
                "undecided": undec,
                "violated": viol,
                "evaluations": len(self.instances),
                "distinct_nontrivial": len(distinct),
                "rule": "one evaluation = one (rule, site, configuration) obligation decided on the "
                        "facts extracted from /repo's working tree; distinct = distinct (rule, "
                        "site) pairs; non-trivial = the obligation had at least one matching "
                        "construct to check (vacuous instances are recorded with nontrivial=false "
                        "and not counted)",
                "samples": samples[:60],
                "rules": per_rule,
                "configs": configs,
                "units": units,
                "functions_analysed": sorted(self.functions_analysed),
                "checker_cmd": checker_cmd,
                "trusted_base": sorted(self.trusted | {
                    "clang 14 front end, constant evaluator and CFG builder (libTooling)",
                    "tool/scpifacts.cc fact extraction", "sa/*.py engines"}),
                "known_findings_matched": [
                    {"rule": r, "site": s, "what_fails": kf["what_fails"]}
                    for (r, s), (kf, i) in sorted(known_hit.items())],
                "advisories": [i.as_json() for i in self.instances if i.verdict == ADVISORY],
                "analysis_broken": list(self.broken),
                "exhaustive": False,
            },
            "assumptions": self.assumptions,
            "wall_s": round(time.time() - self.t0, 3),
            "violations": len(new_violations),
        }
        os.makedirs(os.path.join(OUT, "evidence"), exist_ok=True)
        with open(os.path.join(OUT, "evidence", "%s.json" % self.prop), "w") as f:
            json.dump(ev, f, indent=1, sort_keys=True, default=str)
        if new_violations:
            status = 1
        elif self.broken:
            status = 2
        else:
            status = 0
        return status, lines, ev
