#!/bin/sh
# selftest/refactors.sh : every behaviour-preserving refactoring under selftest/refactors/ must leave every
# registered check at exit 0 (no alarm, no lost anchor).  Prints the offenders.  Runs 6 patches at a time.
# optional argument: a glob over the fixture names, e.g. 'S*'
here=$(cd "$(dirname "$0")" && pwd)
tmp=$(mktemp -d)
ls "$here"/refactors/${1:-*}/patch.diff | xargs -P 6 -I{} sh -c 'n=$(basename $(dirname {})); python3 "'"$here"'/mutant.py" {} > "'"$tmp"'/$n.log" 2>&1'
bad=0
for l in "$tmp"/*.log; do
  out=$(grep -E "exit=[12]|PATCH DOES NOT APPLY" "$l")
  if [ -n "$out" ]; then echo "ALARM on behaviour-preserving $(basename $l .log):"; echo "$out"; bad=1; fi
done
rm -rf "$tmp"
[ $bad = 0 ] && echo "all refactorings silent"
exit $bad
