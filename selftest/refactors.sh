#!/bin/sh
# selftest/refactors.sh [glob] : every behaviour-preserving refactoring under selftest/refactors/ must leave every
# registered check at exit 0 (no alarm, no lost anchor).  Prints the offenders.  Runs 6 patches at a time.
# A fixture whose meta.json lists "tolerate_exit2": [ids] deletes an anchor function; for those ids exit 2
# (analysis broken: anchor lost) is the designed answer and is accepted - exit 1 never is.
here=$(cd "$(dirname "$0")" && pwd)
tmp=$(mktemp -d)
ls "$here"/refactors/${1:-*}/patch.diff | xargs -P 6 -I{} sh -c 'n=$(basename $(dirname {})); python3 "'"$here"'/mutant.py" {} > "'"$tmp"'/$n.log" 2>&1'
bad=0
for l in "$tmp"/*.log; do
  n=$(basename $l .log)
  tol=$(python3 -c "import json,sys; print(' '.join(json.load(open('$here/refactors/$n/meta.json')).get('tolerate_exit2', [])))" 2>/dev/null)
  out=$(grep -E "exit=[12]|PATCH DOES NOT APPLY" "$l")
  for t in $tol; do out=$(echo "$out" | grep -v "^$t exit=2"); done
  if [ -n "$out" ]; then echo "ALARM on behaviour-preserving $n:"; echo "$out"; bad=1; fi
done
rm -rf "$tmp"
[ $bad = 0 ] && echo "all refactorings silent"
exit $bad
