#!/bin/sh
# selftest/refactors.sh : every behaviour-preserving refactoring under selftest/refactors/ must leave every
# registered check at exit 0 (no alarm, no lost anchor).  Prints the offenders.
here=$(cd "$(dirname "$0")" && pwd)
bad=0
for p in "$here"/refactors/*/patch.diff; do
  out=$(python3 "$here/mutant.py" "$p" 2>&1 | grep -E "exit=[12]")
  if [ -n "$out" ]; then echo "ALARM on behaviour-preserving $p:"; echo "$out"; bad=1; fi
done
[ $bad = 0 ] && echo "all refactorings silent"
exit $bad
