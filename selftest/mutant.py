#!/usr/bin/env python3
"""selftest/mutant.py <patch.diff> [ID ...]  — apply a patch to a scratch worktree of /repo
(never to /repo itself), run the given property checks (default: all registered in
MANIFEST.json) against it with SCPI_REPO pointing at the copy, print status per property,
remove the worktree.  Evidence/reports of these runs go to a scratch directory, not /verif."""
import json
import os
import shutil
import subprocess
import sys
import tempfile

VERIF = os.path.dirname(os.path.dirname(os.path.abspath(__file__)))


def main():
    patch = os.path.abspath(sys.argv[1])
    ids = [a for a in sys.argv[2:] if not a.startswith("--")]
    tier = "thorough" if "--thorough" in sys.argv else "quick"
    if not ids:
        with open(os.path.join(VERIF, "MANIFEST.json")) as f:
            ids = [c["property_id"] for c in json.load(f)["checks"]]
    wt = tempfile.mkdtemp(prefix="mutwt-")
    out = tempfile.mkdtemp(prefix="mutout-")
    os.rmdir(wt)
    try:
        subprocess.check_call(["git", "-C", "/repo", "worktree", "add", "-q", "--detach", wt, "HEAD"])
        r = subprocess.run(["git", "-C", wt, "apply", patch], capture_output=True, text=True)
        if r.returncode != 0:
            print("PATCH DOES NOT APPLY:", r.stderr.strip())
            return 3
        env = dict(os.environ, SCPI_REPO=wt, VERIF_OUT=out)
        caught = []
        for pid in ids:
            p = subprocess.run([os.path.join(VERIF, "vcheck"), pid, "--tier", tier], env=env,
                               capture_output=True, text=True)
            lines = [l for l in p.stdout.splitlines() if l.startswith(("VIOLATION", "  rule", "  at", "ANALYSIS-BROKEN"))]
            print("%s exit=%d" % (pid, p.returncode))
            for l in lines[:12]:
                print("   ", l.replace(wt, "<wt>"))
            if p.returncode == 1:
                caught.append(pid)
            if p.returncode not in (0, 1, 2):
                print(p.stdout[-1500:], p.stderr[-1500:])
        print("CAUGHT-BY:", " ".join(caught) if caught else "(none)")
        return 0
    finally:
        subprocess.run(["git", "-C", "/repo", "worktree", "remove", "--force", wt], capture_output=True)
        shutil.rmtree(wt, ignore_errors=True)
        shutil.rmtree(out, ignore_errors=True)


if __name__ == "__main__":
    sys.exit(main())
