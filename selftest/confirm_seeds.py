#!/usr/bin/env python3
"""selftest/confirm_seeds.py <src-root> [ids...] — for every <src-root>/Cxx/_mutants/mK: confirm in a scratch
worktree that the patch applies, the library builds and the repository's 71 tests still pass with it, the
demonstration fails with it and passes without it; then run every registered check against it and record which
ones report a VIOLATION.  Confirmed mutants are stored as /verif/seeded/<Cxx-mK>/ (patch.diff, demo.c, run.sh,
meta.json).  Nothing is ever applied to /repo itself."""
import json
import os
import re
import shutil
import subprocess
import sys
import tempfile

VERIF = os.path.dirname(os.path.dirname(os.path.abspath(__file__)))


def sh(cmd, cwd=None, timeout=900, env=None):
    p = subprocess.run(cmd, shell=True, cwd=cwd, capture_output=True, text=True, errors="replace", timeout=timeout, env=env)
    return p.returncode, p.stdout + p.stderr


def tests_pass(wt):
    rc, out = sh("make -C %s/libscpi clean >/dev/null 2>&1; make -C %s/libscpi test 2>&1" % (wt, wt))
    rows = re.findall(r"tests\s+(\d+)\s+(\d+)\s+(\d+)\s+(\d+)", out)
    total = sum(int(r[1]) for r in rows)
    failed = sum(int(r[3]) for r in rows)
    sh("make -C %s/libscpi clean" % wt)
    return rc == 0 and failed == 0 and total == 71, "ran %d, failed %d, rc %d" % (total, failed, rc)


def main():
    root = sys.argv[1]
    only = sys.argv[2:]
    with open(os.path.join(VERIF, "MANIFEST.json")) as f:
        ids = [c["property_id"] for c in json.load(f)["checks"]]
    for prop in sorted(os.listdir(root)):
        md = os.path.join(root, prop, "_mutants")
        if not os.path.isdir(md):
            continue
        for m in sorted(os.listdir(md)):
            name = "%s%s-%s" % (os.environ.get("SEED_PREFIX", ""), prop, m)
            if only and name not in only and prop not in only and ("%s-%s" % (prop, m)) not in only:
                continue
            src = os.path.join(md, m)
            if not os.path.exists(os.path.join(src, "patch.diff")):
                continue
            wt = tempfile.mkdtemp(prefix="seedwt-")
            os.rmdir(wt)
            meta = {}
            try:
                with open(os.path.join(src, "meta.json")) as f:
                    meta = json.load(f)
            except Exception:
                pass
            log = []
            ok = True
            try:
                sh("git -C /repo worktree add -q --detach %s HEAD" % wt)
                # demo on the unmodified tree
                rc0, out0 = sh("sh %s/run.sh %s" % (src, wt), cwd=src)
                log.append("unmodified tree: demo exit %d" % rc0)
                rc, out = sh("git -C %s apply %s/patch.diff" % (wt, src))
                if rc != 0:
                    log.append("patch does not apply: " + out.strip()[:200])
                    ok = False
                else:
                    tp, tl = tests_pass(wt)
                    log.append("with the change: repository test suite %s (%s)" % ("passes" if tp else "FAILS", tl))
                    rc1, out1 = sh("sh %s/run.sh %s" % (src, wt), cwd=src)
                    log.append("with the change: demo exit %d" % rc1)
                    ok = tp and rc0 == 0 and rc1 != 0
            finally:
                sh("git -C /repo worktree remove --force %s" % wt)
                shutil.rmtree(wt, ignore_errors=True)
            caught = []
            if ok:
                rc, out = sh("python3 %s/selftest/mutant.py %s/patch.diff %s" % (VERIF, src, " ".join(ids)), timeout=3600)
                m2 = re.search(r"CAUGHT-BY: (.*)", out)
                caught = m2.group(1).split() if m2 and "(none)" not in m2.group(1) else []
                broken = re.findall(r"^(C\d+) exit=2", out, re.M)
                rules = sorted(set(re.findall(r"rule (C\d+-\w+):", out)))
                dst = os.path.join(VERIF, "seeded", name)
                os.makedirs(dst, exist_ok=True)
                for fn in ("patch.diff", "demo.c", "run.sh", "run_inner.sh"):
                    if os.path.exists(os.path.join(src, fn)):
                        shutil.copy(os.path.join(src, fn), os.path.join(dst, fn))
                out_meta = {
                    "id": name,
                    "breaks_property": meta.get("property", prop),
                    "summary": meta.get("summary"),
                    "needs_to_manifest": meta.get("needs"),
                    "files": meta.get("files"), "functions": meta.get("functions"),
                    "origin": "independent sub-agent given only the property text and a scratch worktree",
                    "confirmed": {"what_i_ran": [
                        "git worktree add <scratch> HEAD; sh run.sh <scratch>  (demo on the unmodified tree)",
                        "git apply patch.diff; make -C libscpi clean test  (71 tests)",
                        "sh run.sh <scratch>  (demo with the change)",
                        "python3 selftest/mutant.py patch.diff <all registered properties>"], "log": log},
                    "caught_by_checks": caught,
                    "checks_exit_2_analysis_broken": broken,
                    "rules_fired": rules,
                }
                with open(os.path.join(dst, "meta.json"), "w") as f:
                    json.dump(out_meta, f, indent=1)
            print("%s confirmed=%s caught_by=%s | %s" % (name, ok, caught, "; ".join(log)), flush=True)


if __name__ == "__main__":
    main()
