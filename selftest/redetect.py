#!/usr/bin/env python3
"""selftest/redetect.py [-j N] [seed ids...] — re-runs every registered check against every kept change under
seeded/ (each in its own scratch worktree, through selftest/mutant.py) and refreshes caught_by_checks /
rules_fired in the seeds' meta.json.  The demonstrations are not re-run (selftest/confirm_seeds.py does that)."""
import concurrent.futures as cf
import glob
import json
import os
import re
import subprocess
import sys

V = os.path.dirname(os.path.dirname(os.path.abspath(__file__)))


def one(d):
    p = subprocess.run([sys.executable, os.path.join(V, "selftest", "mutant.py"), os.path.join(d, "patch.diff")],
                       capture_output=True, text=True)
    caught, rules, broken = [], [], []
    for l in p.stdout.splitlines():
        m = re.match(r"(C\d\d) exit=(\d)", l)
        if m and m.group(2) == "2":
            broken.append(m.group(1))
        m = re.match(r"CAUGHT-BY: (.*)", l)
        if m and m.group(1) != "(none)":
            caught = m.group(1).split()
        m = re.search(r"rule (C\d\d-\w+):", l)
        if m and m.group(1) not in rules:
            rules.append(m.group(1))
    return d, caught, rules, broken, p.stdout[-400:] if "PATCH DOES NOT APPLY" in p.stdout else ""


def main():
    args = sys.argv[1:]
    j = 6
    if "-j" in args:
        j = int(args[args.index("-j") + 1])
        del args[args.index("-j"):args.index("-j") + 2]
    dirs = sorted(glob.glob(os.path.join(V, "seeded", "*", "")))
    dirs = [d.rstrip("/") for d in dirs if os.path.exists(os.path.join(d, "patch.diff"))]
    if args:
        dirs = [d for d in dirs if os.path.basename(d) in args]
    with cf.ThreadPoolExecutor(j) as ex:
        for d, caught, rules, broken, err in ex.map(one, dirs):
            mp = os.path.join(d, "meta.json")
            m = json.load(open(mp))
            m["caught_by_checks"] = caught
            m["rules_fired"] = rules
            if broken:
                m["analysis_broken_in"] = broken
            else:
                m.pop("analysis_broken_in", None)
            json.dump(m, open(mp, "w"), indent=1)
            print("%-12s caught_by=%s broken=%s %s" % (os.path.basename(d), caught, broken, err))


if __name__ == "__main__":
    main()
