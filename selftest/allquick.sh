#!/bin/sh
# selftest/allquick.sh : every registered quick check on the current /repo tree, 8 at a time; prints the lines that are not HELD
here=$(cd "$(dirname "$0")/.." && pwd)
tmp=$(mktemp -d)
for i in 01 02 03 04 05 06 07 08 09 10 11 12 13 14 15 16 17 18 19 20; do echo C$i; done | \
  xargs -P 8 -I{} sh -c 'cd "'"$here"'" && ./vcheck {} --tier '"${1:-quick}"' > "'"$tmp"'/{}.log" 2>&1; echo "{} exit=$?" >> "'"$tmp"'/status"'
sort "$tmp/status" | grep -v "exit=0" && { for f in "$tmp"/*.log; do grep -h "VIOLATION\|ANALYSIS-BROKEN" "$f" | head -3; done; rm -rf "$tmp"; exit 1; }
rm -rf "$tmp"
echo "all 20 checks exit 0"
