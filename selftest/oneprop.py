#!/usr/bin/env python3
"""selftest/oneprop.py [-j N] Cxx [Cyy ...] — regression for a change to the rules of a few properties only: runs just
those checks against (a) every behaviour-preserving fixture under selftest/refactors (must stay at exit 0, or exit 2
where the fixture's meta.json tolerates it) and (b) every kept change under seeded/ whose meta.json says one of those
checks reports it (must still exit 1).  Prints the deviations; exit 1 if there are any."""
import concurrent.futures as cf
import glob
import json
import os
import re
import subprocess
import sys

V = os.path.dirname(os.path.dirname(os.path.abspath(__file__)))


def run(d, ids):
    p = subprocess.run([sys.executable, os.path.join(V, "selftest", "mutant.py"), os.path.join(d, "patch.diff")] + ids,
                       capture_output=True, text=True)
    return d, dict((m.group(1), int(m.group(2))) for m in re.finditer(r"^(C\d\d) exit=(\d)", p.stdout, re.M)), p.stdout


def main():
    args = sys.argv[1:]
    j = 8
    if args and args[0] == "-j":
        j = int(args[1])
        args = args[2:]
    ids = args
    jobs = []
    for d in sorted(glob.glob(os.path.join(V, "selftest", "refactors", "*"))):
        if os.path.exists(os.path.join(d, "patch.diff")):
            jobs.append(("silent", d, ids))
    for d in sorted(glob.glob(os.path.join(V, "seeded", "*"))):
        try:
            meta = json.load(open(os.path.join(d, "meta.json")))
        except Exception:
            continue
        want = [i for i in ids if i in meta.get("caught_by_checks", [])]
        if want:
            jobs.append(("caught", d, want))
    bad = 0
    with cf.ThreadPoolExecutor(j) as ex:
        futs = {ex.submit(run, d, w): (kind, d, w) for kind, d, w in jobs}
        for fu in cf.as_completed(futs):
            kind, d, w = futs[fu]
            _, rcs, out = fu.result()
            name = os.path.basename(d)
            if kind == "silent":
                tol = []
                try:
                    tol = json.load(open(os.path.join(d, "meta.json"))).get("tolerate_exit2", [])
                except Exception:
                    pass
                for i in w:
                    rc = rcs.get(i)
                    if rc != 0 and not (rc == 2 and i in tol):
                        bad += 1
                        print("ALARM on behaviour-preserving %s: %s exit=%s" % (name, i, rc))
            else:
                for i in w:
                    if rcs.get(i) != 1:
                        bad += 1
                        print("NO LONGER REPORTED %s: %s exit=%s" % (name, i, rcs.get(i)))
    print("%d jobs, %d deviations" % (len(jobs), bad))
    return 1 if bad else 0


if __name__ == "__main__":
    sys.exit(main())
