#!/usr/bin/env python3
"""prints (and writes seeded/MATRIX.md) the detection matrix from seeded/*/meta.json"""
import glob, json, os
V = os.path.dirname(os.path.dirname(os.path.abspath(__file__)))
rows = []
for f in sorted(glob.glob(os.path.join(V, "seeded", "*", "meta.json"))):
    m = json.load(open(f))
    rows.append(m)
out = ["| change | breaks | what it takes to manifest | reported as VIOLATION by | rules |", "|---|---|---|---|---|"]
for m in rows:
    out.append("| %s | %s | %s | %s | %s |" % (m["id"], m["breaks_property"], (m.get("needs_to_manifest") or "")[:150].replace("|", "/").replace("\n", " "),
                                          ", ".join(m["caught_by_checks"]) or "**none**", ", ".join(m.get("rules_fired", [])[:6])))
txt = "\n".join(out)
open(os.path.join(V, "seeded", "MATRIX.md"), "w").write("# Seeded changes and which checks report them\n\n" + txt + "\n")
print(txt)
