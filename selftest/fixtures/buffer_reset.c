/* positive fixture for C09-H5 (expected count on the library: no second mutable field of the input buffer): the flush
 * branch empties the buffer but keeps `scanned`; must be reported on every run */
struct buf { unsigned long length, position, scanned; char * data; };
struct ctx { struct buf buffer; };
int run(struct ctx *, const char *, int);
int SCPI_Input(struct ctx * context, const char * data, int len) {
    int r = 1;
    if (len == 0) {
        context->buffer.data[context->buffer.position] = 0;
        r = run(context, context->buffer.data, (int) context->buffer.position);
        context->buffer.position = 0;
    } else if (len > 10) {
        context->buffer.position = 0;
        context->buffer.scanned = 0;
        return 0;
    } else {
        context->buffer.position += len;
        context->buffer.scanned = context->buffer.position;
    }
    return r;
}
