/* positive fixture for the expected-zero rule C09-G: must be matched on every run */
static int hidden_counter;
int visible_state = 3;
static const int fine_table[2] = {1, 2};
int bump(void) {
    static int calls;
    static const char tag[] = "x";
    calls++;
    hidden_counter += visible_state + fine_table[0] + tag[0];
    return calls;
}
