/* positive example for the narrowing rule (rules/common.py narrowing_rule): each of the three kinds must be reported */
#include <stddef.h>
#include <stdint.h>
struct ring { uint8_t size; int16_t tag; };
static size_t worker(unsigned char len) { return len; }
size_t wrapper(size_t len) { return worker(len); }                 /* (a) parameter handed to a narrower parameter */
void init(struct ring * r, int16_t size) { r->size = size; }       /* (b) parameter stored into a narrower field */
int32_t tag_of(const struct ring * r) { return r->tag; }           /* (c) narrow field behind a wider accessor */
