/* positive fixture for C01-T1 (expected count on the library: zero): a converter that looks at the first character of a
 * token without asking for its length - the absent optional parameter is (ptr NULL, len 0) */
struct tok { int type; const char * ptr; int len; };
int first_letter(const struct tok * parameter) {
    return parameter->ptr[0] == 'A';
}
int first_letter_checked(const struct tok * parameter) {
    if (parameter->len > 0) {
        return parameter->ptr[0] == 'A';
    }
    return 0;
}
