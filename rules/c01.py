import re
"""C01 — no out-of-bounds access, undefined behaviour or hang on any input stream."""
from sa import cfg as C
from sa import paths as P
from sa import ctx as X
from . import common as K
from .lexmodel import LexModel, base_of_member, arg_base, EOS_TESTS
from . import lexpaths as LP

CONFIGS_QUICK = ["A", "C", "E"]
CONFIGS_THOROUGH = ["A", "B", "C", "D", "E"]

EXPLANATION = (
    "Static decision of the memory and progress discipline of the input path, per site and "
    "therefore for ALL inputs, chunkings and buffer sizes. Decided: (L1/L2) every read of the "
    "lexer cursor and every cursor advance is preceded on all paths by a false end-of-input test "
    "with no cursor change in between (must-dataflow; helpers that read without their own test "
    "are summarised as raw readers and their call sites become read sites); (L3) every other "
    "cursor store restores a cursor saved earlier in the same call or the end of input "
    "(path-sensitive); (L4) after the definite-length jump `pos += n` nothing uses the cursor "
    "before it was compared with the end of input or reset; (L5) every cursor is constructed from "
    "a pointer/length pair of one token or one parameter pair; (L6) every loop of the lexer makes "
    "progress; (I1/I2/I3) SCPI_Input appends only after the overrun guard that keeps one byte for "
    "the terminator, NUL-terminates after the last change of the fill level before every parse, "
    "and keeps position <= length - 1; (P1/P2/P3) the unit detector consumes at least one byte "
    "of a non-empty input, and the unit loops of SCPI_Parse and SCPI_Input strictly progress; "
    "(W/A, via C14/C15/C17-C20 bounds rules) every write through a caller buffer is bounded. "
    "(U1, advisory only) <ctype.h> arguments in the domain of unsigned char. NOT decided: that "
    "strtol/strtod stop inside the buffer (relies on I2 plus libc), matchCommand's reads of the "
    "pattern string, scpi_ecvt's float loops.")

RULES = {
    "C01-L1": "every read of a lexer cursor (direct or through a raw-reader helper) is preceded on all paths by a false end-of-input test with no cursor change in between",
    "C01-L2": "every cursor advance is guarded the same way; the single retreat is paired with an advance of the same iteration",
    "C01-L3": "every other cursor store restores a cursor saved in the same call or sets the end of input",
    "C01-L4": "after the definite-length jump the cursor is compared with the end of input (or reset) before any use",
    "C01-T1": "the text behind a parameter token is read directly (token.ptr[k], *token.ptr) only under a test of that token's length - or in SCPI_ParamCopyText, whose reads the bounds engine proves: an absent optional parameter is handed out as (ptr NULL, len 0)",
    "C01-L5": "every lex_state_t is constructed from the pointer and length of one token / parameter pair",
    "C01-L6": "every lexer loop advances the cursor (or decrements its bounded counter) on every path back to its head",
    "C01-I1": "SCPI_Input: the append is dominated by the overrun guard that keeps one byte for the terminator",
    "C01-I2": "SCPI_Input: the buffer is NUL-terminated after the last change of the fill level before every parse / scan",
    "C01-I3": "buffer.position stays within [0, length-1]: every store to it is a reset, a guarded increment or a decrement by a scanned amount",
    "C01-P1": "the unit detector consumes at least one byte of a non-empty input on every path",
    "C01-P2": "SCPI_Parse's unit loop advances by the detector's result and stops when the input is used up",
    "C01-P3": "SCPI_Input's scan loop makes progress on every path (consumed total grows or the buffer shrinks) and has an exit",
    "C01-W": "write-bound obligations shared with C20 (static text heap, configuration C) and, in the thorough tier, with C14/C15/C18 (formatters, copies, error response)",
    "C01-U1": "ADVISORY: arguments of <ctype.h> classifiers are in the domain of unsigned char",
}


# ---- L1 / L2 ------------------------------------------------------------------------------
def rule_l1_l2(ck, prog, S, model, r1="C01-L1", r2="C01-L2"):
    n_read = 0
    for f in sorted(model.fns, key=lambda f: (f.relfile, f.line)):
        ck.analysed(f)
        sites = model.sites.get(f.name, [])
        reads = K.ordinal_sites([s["node"] for s in sites if s["kind"] in ("read", "read-via")])
        by_node = {s["node"].id: s for s in sites}
        rawf = f.name in model.raw
        pidx = {p["name"]: i for i, p in enumerate(f.params)}
        for i, node in enumerate(reads):
            s = by_node[node.id]
            st = K.site(f, "cursor-read", i)
            n_read += 1
            if s["ok"]:
                ck.holds(r1, st, K.loc(f, node), "`%s` after !eos(%s)" % (node.src, s["base"]))
            elif f.static and s["base"] in pidx:
                # raw reader: responsibility moves to the call sites (which are read sites)
                ck.holds(r1, st, K.loc(f, node), "raw reader: its %d call sites are checked instead"
                         % len(list(prog.callers(f.name))))
            else:
                pg, stt = model.g_states(f)
                path = pg.find_path([pg.entry], lambda p: p == pg.before(node),
                                    blocked_edge=lambda e: False)
                via = " through %s" % s["via"] if s.get("via") else ""
                ck.violated(r1, st, K.loc(f, node),
                            "%s reads the character under the cursor%s (`%s`) on a path that has not established "
                            "that the cursor is before the end of input: one byte past the input is examined"
                            % (f.name, via, node.src), {"example_path": pg.describe_path(path or [])[-10:]})
        adv = K.ordinal_sites([s["node"] for s in sites if s["kind"] == "advance"])
        for i, node in enumerate(adv):
            s = by_node[node.id]
            st = K.site(f, "cursor-advance", i)
            if s["ok"]:
                ck.holds(r2, st, K.loc(f, node), "advance after !eos(%s)" % s["base"])
            else:
                ck.violated(r2, st, K.loc(f, node),
                            "%s advances the cursor (`%s`) on a path without a preceding end-of-input test: the "
                            "cursor can leave the input" % (f.name, node.src))
        # retreat: paired with an advance, no cursor store in between
        for i, node in enumerate(K.ordinal_sites([s["node"] for s in sites if s["kind"] == "retreat"])):
            st = K.site(f, "cursor-retreat", i)
            pg = S.pg(f)
            base = by_node[node.id]["base"]
            advs = [s["node"] for s in sites if s["kind"] == "advance"]
            others = [s["node"] for s in sites if s["kind"] in ("restore", "jump", "other-store", "retreat") and s["node"] is not node]

            def tr(state, e):
                if e.kind != "elem":
                    return state
                if e.node in advs:
                    return frozenset({"adv"})
                if e.node in others or (e.node.k == "CallExpr" and base in model.writes_cursor(e.node)):
                    return frozenset()
                return state
            stt = pg.must(tr)
            if "adv" in stt.get(pg.before(node), frozenset()):
                ck.holds(r2, st, K.loc(f, node), "un-read of the character advanced over just before")
            else:
                ck.violated(r2, st, K.loc(f, node), "the cursor is moved back without a matching advance on every path: it can "
                            "end up before the start of the input")
    ck.floor(r1, 30)
    ck.floor(r2, 25)
    # raw readers must be static helpers of the lexer
    for name in model.raw:
        f = prog.fn(name)
        if not f.static:
            ck.violated(r1, K.site(f, "raw-reader-exported", 0), K.loc(f), "%s reads the cursor unguarded and is not static" % name)


# ---- L3 / L4 ------------------------------------------------------------------------------
def rule_l3_l4(ck, prog, S, model, r3="C01-L3", r4="C01-L4"):
    recs = LP.recognisers(prog)
    njump = 0
    nrest = 0
    for f in recs:
        sites = model.sites.get(f.name, [])
        if not any(s["kind"] in ("restore", "jump") for s in sites):
            continue
        try:
            sims = LP.simulate(model, f)
        except P.TooManyPaths:
            ck.undecided(r3, K.site(f, "paths", 0), K.loc(f), "too many paths")
            continue
        probs = {}
        wild_at_return = None
        for sm in sims:
            for kind, node, text in sm.problems:
                probs.setdefault((kind, node.id), (node, text, sm))
            if sm.wild:
                wild_at_return = sm
        rest = K.ordinal_sites([s["node"] for s in sites if s["kind"] == "restore"])
        for i, node in enumerate(rest):
            nrest += 1
            st = K.site(f, "cursor-restore", i)
            p = probs.get(("L3", node.id))
            if p:
                ck.violated(r3, st, K.loc(f, node), "%s: %s" % (f.name, p[1]), {"path": p[2].ps.describe()[-6:]})
            else:
                ck.holds(r3, st, K.loc(f, node), "`%s` restores a saved cursor / the end of input on every path" % node.src)
        jumps = K.ordinal_sites([s["node"] for s in sites if s["kind"] == "jump"])
        for i, node in enumerate(jumps):
            njump += 1
            st = K.site(f, "block-jump", i)
            p4 = [v for (k, nid), v in probs.items() if k == "L4"]
            if p4:
                ck.violated(r4, st, K.loc(f, p4[0][0]), "%s: %s" % (f.name, p4[0][1]), {"path": p4[0][2].ps.describe()[-6:]})
            elif wild_at_return is not None:
                ck.violated(r4, st, K.loc(f, node),
                            "%s can return with the cursor beyond the end of input: after `%s` no path compared it with "
                            "buffer+len or reset it" % (f.name, node.src), {"path": wild_at_return.ps.describe()[-8:]})
            else:
                ck.holds(r4, st, K.loc(f, node), "after `%s` every path checks against the end of input or resets the cursor before use/return" % node.src)
    # restores outside recognisers (expression walkers etc.)
    for f in model.fns:
        if f in recs:
            continue
        for i, s in enumerate([s for s in model.sites.get(f.name, []) if s["kind"] in ("restore", "jump")]):
            node = s["node"]
            st = K.site(f, "cursor-init", i)
            # initialisation of a locally constructed cursor: pos = buffer (L5 checks the pair)
            rhs = node.child(1).strip_all_casts() if node.get("op") == "=" else None
            ok = False
            if rhs is not None:
                rb = base_of_member(rhs) if rhs.k == "MemberExpr" else None
                if rb and rb[0] == s["base"] and rb[1] == "buffer":
                    ok = True
                if rhs.k == "BinaryOperator" and rhs.get("op") == "=":   # a = b = buffer
                    ok = True
                p = rhs.get("path") or ""
                if p.endswith(".ptr") or p.endswith("->ptr") or p in [q["name"] for q in f.params]:
                    ok = True
            if ok:
                ck.holds(r3, st, K.loc(f, node), "cursor initialised to the start of its buffer")
                nrest += 1
            else:
                ck.violated(r3, st, K.loc(f, node), "%s sets a cursor to `%s`" % (f.name, node.src))
    if njump < 1:
        ck.anchor_lost(r4, "no definite-length jump (`pos += n`) found in the lexer")
    ck.floor(r3, 10)


def _under_expression_test(prog, S, f, node):
    """node is reached only after the token class was compared equal to PROGRAM_EXPRESSION (which guarantees `(`..`)`, len >= 2)"""
    facts = K.facts_at(S, f, node) or []
    expr = prog.enumconst.get("SCPI_TOKEN_PROGRAM_EXPRESSION")
    dom = any(not isinstance(pol, tuple) and a.k == "BinaryOperator" and
              ((a.get("op") == "==" and pol) or (a.get("op") == "!=" and not pol)) and
              C.const_of(a.child(1)) == expr for a, pol in facts)
    # or an early return on type != EXPRESSION
    if not dom:
        pg = S.pg(f)
        for p_, es in pg.out.items():
            for e in es:
                if e.kind == "edge" and e.label[0] in ("true", "false") and e.label[1] is not None:
                    a = e.label[1]
                    if a.k == "BinaryOperator" and a.get("op") in ("!=", "==") and C.const_of(a.child(1)) == expr:
                        bad_edge_true = (a["op"] == "!=")
                        # the node must be unreachable from the 'not an expression' edge
                        if (e.label[0] == "true") == bad_edge_true:
                            r = pg.reachable([e.dst])
                            if pg.before(node) not in r:
                                dom = True
    return dom


def _address_taken(prog, name):
    for g in prog.functions.values():
        for n in g.nodes.values():
            if n.k == "DeclRefExpr" and n.get("decl", {}).get("kind") == "function" and n["decl"].get("name") == name:
                par = g.parent.get(n.id)
                while par is not None and par.k in ("ImplicitCastExpr", "ParenExpr"):
                    par = g.parent.get(par.id)
                if par is None or par.k != "CallExpr" or par.get("callee") != name:
                    return True
    return False


# ---- L5 construction ------------------------------------------------------------------------
def token_text_reads(functions, S_facts):
    """[(function, read node, guarded?)] for direct reads of a token's text"""
    out = []
    for f in functions:
        for n in f.nodes.values():
            if not (n.k == "ArraySubscriptExpr" or (n.k == "UnaryOperator" and n.get("op") == "*")):
                continue
            b = n.child(0).strip_all_casts()
            pth = b.get("path") or ""
            if not (pth.endswith(".ptr") or pth.endswith("->ptr")):
                continue
            base = pth[:-len("ptr")]
            facts = S_facts(f, n)
            k = C.const_of(n.child(1)) if n.k == "ArraySubscriptExpr" else 0
            ok = False
            for a, pol in facts:
                if isinstance(pol, tuple):
                    continue
                if any((x.get("path") or "") == base + "len" for x in a.walk()) and a.k == "BinaryOperator" and \
                        a.get("op") in ("<", ">", "<=", ">=", "!=", "=="):
                    ok = True
            out.append((f, n, ok))
    return out


def rule_t1(ck, prog, S):
    from sa import facts as F_
    import os
    try:
        fix = F_.extract_fixture(os.path.join(K.VERIF, "selftest", "fixtures", "token_text.c"))
        S_fix = K.summaries(type("P_", (), {"functions": fix.functions, "fn": staticmethod(lambda n_: fix.functions.get(n_))})())
        got = token_text_reads(fix.functions.values(), lambda f_, n_: K.facts_at(S_fix, f_, n_) or [])
        marks = sorted((f_.name, ok) for f_, _n, ok in got)
    except Exception as e:
        marks = str(e)
    if marks != [("first_letter", False), ("first_letter_checked", True)]:
        ck.anchor_lost("C01-T1", "positive fixture selftest/fixtures/token_text.c: %s" % (marks,))
        return
    fns = [f for f in prog.functions.values() if f.relfile.endswith(("parser.c", "units.c", "expression.c"))]
    n = 0
    # the text copier and the static helpers it hands the token to: their reads are bounds obligations (C01-W / C15-W)
    copier = {"SCPI_ParamCopyText"}
    work = ["SCPI_ParamCopyText"]
    while work:
        g = prog.fn(work.pop())
        for c in (g.calls() if g is not None else []):
            h = prog.fn(c.get("callee") or "")
            if h is not None and h.static and h.name not in copier:
                copier.add(h.name)
                work.append(h.name)
    for f, node, ok in token_text_reads(fns, lambda f_, n_: K.facts_at(S, f_, n_) or []):
        st = K.site(f, "token-text-read", n)
        n += 1
        if f.name in copier:
            ck.holds("C01-T1", st, K.loc(f, node), "read proved in bounds by C01-W / C15-W", nontrivial=False)
        elif ok:
            ck.holds("C01-T1", st, K.loc(f, node), "under a test of the token's length")
        else:
            ck.violated("C01-T1", st, K.loc(f, node),
                        "`%s` reads the text of a token without any test of its length: the token SCPI_Parameter hands out for an absent "
                        "optional parameter has ptr == NULL and len == 0, a handler that passes it on makes the library read through "
                        "NULL" % node.src)
    ck.holds("C01-T1", K.site(prog.fn("SCPI_Parameter") or fns[0], "survey", 0), K.loc(prog.fn("SCPI_Parameter") or fns[0]),
             "%d direct reads of token text in parser.c / units.c / expression.c" % n, nontrivial=False)


def rule_l5(ck, prog, S, model):
    n = 0
    for f in sorted(model.fns, key=lambda f: (f.relfile, f.line)):
        # group stores to X.buffer / X.len per base constructed in this function
        bases = {}
        for node, t in C.stores(f):
            bm = base_of_member(t) if t.k == "MemberExpr" else None
            if bm and bm[1] in ("buffer", "len") and node.get("op") == "=":
                bases.setdefault(bm[0], {}).setdefault(bm[1], []).append(node)
        for base, d in sorted(bases.items()):
            st = K.site(f, "construct(%s)" % base, 0)
            n += 1
            bufs, lens = d.get("buffer", []), d.get("len", [])
            if len(bufs) != 1 or len(lens) != 1:
                ck.violated("C01-L5", st, K.loc(f, (bufs + lens)[0]), "cursor %s is constructed with %d buffer and %d length stores"
                            % (base, len(bufs), len(lens)))
                continue

            def src_of(node):
                r = node.child(1)
                while True:
                    rs = r.strip_all_casts()
                    if rs.k == "BinaryOperator" and rs.get("op") == "=":
                        r = rs.child(1)
                    else:
                        return rs
            b, l = src_of(bufs[0]), src_of(lens[0])
            bp, lp = b.get("path") or b.src, l.get("path") or l.src
            adj_b = adj_l = 0
            if b.k == "BinaryOperator" and b.get("op") == "+" and C.const_of(b.child(1)) is not None:
                adj_b = C.const_of(b.child(1))
                bp = b.child(0).strip_all_casts().get("path")
            if l.k == "BinaryOperator" and l.get("op") == "-" and C.const_of(l.child(1)) is not None:
                adj_l = C.const_of(l.child(1))
                lp = l.child(0).strip_all_casts().get("path")
            pair_ok = False
            if bp and lp:
                for suf_b, suf_l in ((".ptr", ".len"), ("->ptr", "->len"), (".data", ".length")):
                    if bp.endswith(suf_b) and lp.endswith(suf_l) and bp[:-len(suf_b)] == lp[:-len(suf_l)]:
                        pair_ok = True
                params = [p["name"] for p in f.params]
                if bp in params and lp in params and abs(params.index(bp) - params.index(lp)) == 1:
                    pair_ok = True
            if not pair_ok:
                ck.violated("C01-L5", st, K.loc(f, bufs[0]), "cursor %s takes its buffer from `%s` and its length from `%s`: "
                            "not one pointer/length pair" % (base, b.src, l.src))
                continue
            if adj_b or adj_l:
                # interior view (expression body): needs len >= adj_l; dominated by the EXPRESSION class test
                dom = _under_expression_test(prog, S, f, lens[0])
                via = ""
                if not dom:
                    # a file-local helper that builds the view from its parameter: the guarantee is owed by every call site
                    params = [p["name"] for p in f.params]
                    root = re.split(r"[.\-\[]", bp or "")[0]
                    sites_ = list(prog.callers(f.name))
                    if root in params and sites_ and not _address_taken(prog, f.name) and \
                            all(_under_expression_test(prog, S, g, c) for g, c in sites_):
                        dom = True
                        via = " at each of its %d call sites (%s)" % (len(sites_), ", ".join(sorted({g.name for g, _ in sites_})))
                if dom and adj_l == 2 * adj_b and adj_b == 1:
                    ck.holds("C01-L5", st, K.loc(f, bufs[0]), "interior of a parenthesised expression (ptr+1, len-2) under the "
                             "EXPRESSION class test (len >= 2)" + via)
                else:
                    ck.violated("C01-L5", st, K.loc(f, bufs[0]),
                                "cursor %s is (%s + %d, %s - %d) without the token-class test that guarantees the length"
                                % (base, bp, adj_b, lp, adj_l))
            else:
                ck.holds("C01-L5", st, K.loc(f, bufs[0]), "(%s, %s)" % (bp, lp))
    ck.floor("C01-L5", 4)


# ---- L6 loop progress ----------------------------------------------------------------------
def rule_l6(ck, prog, S, model):
    n = 0
    for f in sorted(model.fns, key=lambda f: (f.relfile, f.line)):
        if not f.relfile.endswith(("lexer.c",)):
            continue
        sites = model.sites.get(f.name, [])
        adv = {s["node"].id for s in sites if s["kind"] == "advance"}
        for i, (head, body) in enumerate(sorted(C.loops(f), key=lambda hb: hb[0].id, reverse=True)):
            st = K.site(f, "loop", i)
            n += 1
            pg = S.pg(f)
            # progress elements: cursor advance; a skip helper tested true that advances when non-zero;
            # decrement of a counter the loop condition bounds from below
            prog_nodes = set(adv)
            cond = head.cond
            for c in f.calls():
                if f.where.get(c.id) and f.where[c.id][0].id in body and model.writes_cursor(c):
                    if LP.zero_unmoved(model, c.get("callee")):
                        # returns non-zero only if it advanced; counts when the loop continues on its truth
                        if cond is not None and any(x is c for x in cond.walk()):
                            prog_nodes.add(c.id)
            dec_ok = False
            if cond is not None and cond.k == "BinaryOperator" and cond.get("op") == ">" and C.const_of(cond.child(1)) == 0:
                v = cond.child(0).strip_all_casts().get("path")
                decs = [nn for nn, t in C.stores(f) if t.get("path") == v and nn.k == "UnaryOperator" and nn.get("op") == "--"
                        and f.where.get(nn.id) and f.where[nn.id][0].id in body]
                incs = [nn for nn, t in C.stores(f) if t.get("path") == v and nn not in decs
                        and f.where.get(nn.id) and f.where[nn.id][0].id in body]
                if decs and not incs:
                    prog_nodes |= {d.id for d in decs}
            # counting up: `i < N` (N a constant / sizeof expression) with i only incremented inside the loop
            if cond is not None and cond.k == "BinaryOperator" and cond.get("op") in ("<", "<=", "!=") and \
                    C.const_of(cond.child(1)) is not None:
                v = cond.child(0).strip_all_casts().get("path")
                lhs = cond.child(0).strip_all_casts()
                if v and lhs.k == "DeclRefExpr" and lhs["decl"]["kind"] == "local":
                    inside = [nn for nn, t in C.stores(f) if t.get("path") == v and f.where.get(nn.id) and f.where[nn.id][0].id in body]
                    incs = [nn for nn in inside if (nn.k == "UnaryOperator" and nn.get("op") == "++") or
                            (nn.get("op") == "+=" and C.const_of(nn.child(1)) == 1)]
                    addr = any(x.k == "UnaryOperator" and x.get("op") == "&" and x.child(0).strip_all_casts().get("path") == v
                               for x in f.nodes.values())
                    if incs and len(incs) == len(inside) and not addr:
                        prog_nodes |= {d.id for d in incs}
            # every cycle through the head passes a progress node
            starts = [e.dst for e in pg.out[(head.id, 0)]
                      if not (e.kind == "elem" and e.node.id in prog_nodes) and e.dst[0] in body]
            reach = pg.reachable(starts,
                                 blocked_edge=lambda e: (e.kind == "elem" and e.node.id in prog_nodes) or e.dst[0] not in body)
            if (head.id, 0) in reach:
                path = pg.find_path(starts,
                                    lambda p: p == (head.id, 0),
                                    blocked_edge=lambda e: (e.kind == "elem" and e.node.id in prog_nodes) or e.dst[0] not in body)
                ck.violated("C01-L6", st, K.loc(f, cond) if cond is not None else K.loc(f),
                            "a path round this loop of %s neither advances the cursor nor decrements its counter: the "
                            "lexer can spin on the same byte forever" % f.name, {"cycle": pg.describe_path(path or [])})
            else:
                ck.holds("C01-L6", st, K.loc(f, cond) if cond is not None else K.loc(f), "every cycle makes progress")
    ck.floor("C01-L6", 10)


# ---- SCPI_Input ----------------------------------------------------------------------------
def rule_input(ck, prog, S):
    got = K.need(ck, prog, "C01-I1", "SCPI_Input")
    if not got:
        return
    f = got[0]
    pg = S.pg(f)
    cps = list(f.calls("memcpy"))
    st = K.site(f, "append", 0)
    POS, LEN, DATA = "context->buffer.position", "context->buffer.length", "context->buffer.data"
    if len(cps) != 1:
        ck.anchor_lost("C01-I1", "expected one memcpy in SCPI_Input (found %d)" % len(cps))
        return
    cp = cps[0]
    a = C.call_args(cp)
    dst, n_arg = a[0].strip_all_casts(), a[2].strip_all_casts()
    dst_ok = (dst.get("path") or "").replace(" ", "") == "&%s[%s]" % (DATA, POS) or \
        (dst.k == "BinaryOperator" and dst.get("op") == "+" and dst.child(0).strip_all_casts().get("path") == DATA and
         dst.child(1).strip_all_casts().get("path") == POS)
    # the guard: a dominating false edge of  len > (free - 1)  with free = length - position, or equivalents
    facts = K.facts_at(S, f, cp) or []
    lenp = n_arg.get("path")
    guard = None
    for atom, pol in facts:
        if isinstance(pol, tuple) or atom.k != "BinaryOperator" or atom.get("op") not in (">", ">=", "<", "<="):
            continue
        guard = guard or classify_guard(f, atom, pol, lenp, POS, LEN)
    if not dst_ok:
        ck.violated("C01-I1", st, K.loc(f, cp), "the chunk is not appended at data[position] (`%s`)" % dst.src)
    elif guard is None:
        ck.violated("C01-I1", st, K.loc(f, cp), "the append is not dominated by an overrun guard relating the chunk length to the free space")
    elif guard is False:
        ck.violated("C01-I1", st, K.loc(f, cp),
                    "the overrun guard admits a chunk of exactly the free space: position + len can reach length and the "
                    "terminating NUL is written one byte past the input buffer (witness: length=16, position=5, len=11)")
    else:
        ck.holds("C01-I1", st, K.loc(f, cp), "position + len + 1 <= length follows from the dominating guard `%s`" % guard)
    # I2: NUL terminator after the last change of position before each parse/scan
    nul = [n for n, t in C.stores(f) if (t.get("path") or "").replace(" ", "") == "%s[%s]" % (DATA, POS)
           and n.get("op") == "=" and C.const_of(n.child(1)) == 0]
    posw = [n for n, t in C.stores(f) if t.get("path") == POS]
    consumers = [c for c in f.calls() if c.get("callee") in ("SCPI_Parse", "scpiParser_detectProgramMessageUnit")]

    def tr(state, e):
        if e.kind != "elem":
            return state
        if e.node in nul:
            return frozenset({"nul"})
        if e.node in posw or e.node is cp:
            return frozenset()
        if e.node.k == "CallExpr" and e.node.get("callee") == "memmove":
            # the remainder including its terminator is moved: position - consumed < old position,
            # data[old position] == 0 is moved along only if the length covers it
            return state
        return state
    stt = pg.must(tr)
    for i, c in enumerate(K.ordinal_sites(consumers)):
        st = K.site(f, "terminated-before(%s)" % c["callee"], i)
        have = stt.get(pg.before(c), frozenset())
        if "nul" in have:
            ck.holds("C01-I2", st, K.loc(f, c), "data[position] = 0 after the last change of position")
        else:
            # after the in-loop memmove+decrement the old terminator is not re-established: accept iff the
            # memmove length includes the terminator or the decrement keeps data[position]==0 by the move
            reason = loop_terminator_kept(f, pg, c, nul, posw, POS, DATA) \
                if c["callee"] == "scpiParser_detectProgramMessageUnit" else None
            if not reason and c["callee"] == "SCPI_Parse":
                nl = prog.enumconst.get("SCPI_MESSAGE_TERMINATION_NL")
                fs = K.facts_at(S, f, c) or []
                if any(not isinstance(pol, tuple) and pol and a.k == "BinaryOperator" and a.get("op") == "==" and
                       C.const_of(a.child(1)) == nl and "termination" in a.child(0).src for a, pol in fs):
                    reason = ("executed only when the scanner just consumed a line terminator: the parsed range ends with "
                              "NL, which stops every strto* conversion inside the range")
            if reason:
                ck.holds("C01-I2", st, K.loc(f, c), reason)
            else:
                ck.violated("C01-I2", st, K.loc(f, c),
                            "%s is reached on a path where the buffer is not NUL-terminated after the last change of the "
                            "fill level: strtol/strtod and the scanner can run into stale bytes" % c["callee"])
    # I3: stores to position
    for i, n in enumerate(K.ordinal_sites(posw)):
        st = K.site(f, "position-store", i)
        op = n.get("op")
        if op == "=" and C.const_of(n.child(1)) == 0:
            ck.holds("C01-I3", st, K.loc(f, n), "reset to 0")
        elif op == "+=" and n.child(1).strip_all_casts().get("path") == lenp and guard:
            r = pg.reachable([pg.after(cp)])
            ck.holds("C01-I3", st, K.loc(f, n), "increment by the guarded chunk length")
        elif op == "-=":
            amt = n.child(1).strip_all_casts().get("path")
            # amt accumulates detector results over (position - amt) bytes: amt <= position (P1 contract 0 <= r <= len)
            adds = [m for m, t in C.stores(f) if t.get("path") == amt and m.get("op") == "+="]
            okk = bool(adds) and all(
                any(x.k == "CallExpr" and x.get("callee") == "scpiParser_detectProgramMessageUnit" for x in
                    (src_of_var(f, m.child(1)) or m.child(1)).walk()) for m in adds)
            det = [c for c in f.calls("scpiParser_detectProgramMessageUnit")]
            arg_ok = det and all(C.call_args(c)[2].strip_all_casts().src.replace(" ", "") == "%s-%s" % (POS, amt) and
                                 C.call_args(c)[1].strip_all_casts().src.replace(" ", "") == "%s+%s" % (DATA, amt) for c in det)
            if okk and arg_ok:
                ck.holds("C01-I3", st, K.loc(f, n), "decrement by %s, the sum of detector results over position - %s bytes" % (amt, amt))
            else:
                ck.violated("C01-I3", st, K.loc(f, n), "position is decreased by `%s`, which is not bounded by the scanned amount" % n.child(1).src)
        else:
            ck.violated("C01-I3", st, K.loc(f, n), "unexpected store to the fill level: `%s`" % n.src)
    # other writers of buffer.position in the library
    for g in prog.functions.values():
        if g is f:
            continue
        for i, (n, t) in enumerate([(n, t) for n, t in C.stores(g) if (t.get("path") or "").endswith("buffer.position")]):
            st = K.site(g, "position-store", i)
            if g.name == "SCPI_Init" and C.const_of(n.child(1)) == 0:
                ck.holds("C01-I3", st, K.loc(g, n), "initialised to 0")
            else:
                ck.violated("C01-I3", st, K.loc(g, n), "fill level written outside SCPI_Input: `%s`" % n.src)
    ck.analysed(f)


def src_of_var(f, node):
    """if node is a local variable assigned once from an expression, return that expression"""
    s = node.strip_all_casts()
    if s.k == "DeclRefExpr" and s["decl"]["kind"] == "local":
        asg = [n for n, t in C.stores(f) if t.get("path") == s["decl"]["name"] and n.get("op") == "="]
        if len(asg) == 1:
            return asg[0].child(1)
    return None


def guard_slack(f, atom, pol, lenp, POS, LEN):
    """the guard (atom, pol) normalised to  len + position - length + k <= 0 : returns k (1 = exact: a chunk is
    accepted iff it fits together with its terminating NUL; > 1 = refuses chunks that fit; < 1 = unsafe), None if unrelated"""
    r = classify_guard(f, atom, pol, lenp, POS, LEN, want_slack=True)
    return r if isinstance(r, int) and not isinstance(r, bool) else None


def classify_guard(f, atom, pol, lenp, POS, LEN, want_slack=False):
    """does (atom, pol) entail  len + position + 1 <= length ?  returns the guard text, False when the
    guard is a bound that is off by one (admits len + position == length), None when unrelated"""
    def lin(n, depth=0):
        n = n.strip_all_casts()
        c = C.const_of(n)
        if c is not None and n.k != "DeclRefExpr":
            return {"1": c}
        p = n.get("path")
        if p == lenp:
            return {"len": 1}
        if p == LEN:
            return {"LEN": 1}
        if p == POS:
            return {"POS": 1}
        if n.k == "DeclRefExpr" and n["decl"]["kind"] == "local" and depth < 4:
            e = src_of_var(f, n)
            if e is not None:
                return lin(e, depth + 1)
            return None
        if n.k == "BinaryOperator" and n.get("op") in ("+", "-"):
            a, b = lin(n.child(0), depth), lin(n.child(1), depth)
            if a is None or b is None:
                return None
            sg = 1 if n["op"] == "+" else -1
            out = dict(a)
            for k_, v in b.items():
                out[k_] = out.get(k_, 0) + sg * v
            return out
        return None
    a, b = lin(atom.child(0)), lin(atom.child(1))
    if a is None or b is None:
        return None
    d = dict(a)
    for k_, v in b.items():
        d[k_] = d.get(k_, 0) - v
    c = d.pop("1", 0)
    d = {k_: v for k_, v in d.items() if v}
    neg = {">": "<=", ">=": "<", "<": ">=", "<=": ">"}
    rel = atom["op"] if pol else neg[atom["op"]]
    if want_slack:
        if d == {"len": 1, "POS": 1, "LEN": -1} and rel in ("<=", "<"):
            return c if rel == "<=" else c + 1
        if d == {"len": -1, "POS": -1, "LEN": 1} and rel in (">=", ">"):
            return -c if rel == ">=" else -c + 1
        return None
    if d == {"len": 1, "POS": 1, "LEN": -1}:
        if (rel == "<=" and c >= 1) or (rel == "<" and c >= 0):
            return atom.src
        return False if rel in ("<=", "<") else None
    if d == {"len": -1, "POS": -1, "LEN": 1}:
        if (rel == ">=" and c <= -1) or (rel == ">" and c <= 0):
            return atom.src
        return False if rel in (">=", ">") else None
    return None


def loop_terminator_kept(f, pg, consumer, nul, posw, POS, DATA):
    """inside the scan loop: after memmove(data, data+k, position-k); position -= k the byte
    data[position] is the old terminator only if it was moved too; the library instead relies on
    data[old position] == 0 staying in place and position shrinking.  We accept the path iff the
    only position change since the last NUL store is `position -= k` preceded by the memmove of
    exactly position-k bytes from data+k (so data[position_new .. ] still ends in the old NUL at
    data[position_old] and every byte in between was part of the moved remainder), AND the
    consumer's length argument is bounded by position (it never reads data[position] itself)."""
    mm = list(f.calls("memmove"))
    if len(mm) != 1:
        return None
    dec = [n for n in posw if n.get("op") == "-="]
    if len(dec) != 1:
        return None
    # all position changes reaching the consumer without a NUL store are `dec`
    others = [n for n in posw if n not in dec]
    reach = pg.reachable([pg.after(o) for o in others if pg.after(o)],
                         blocked_edge=lambda e: e.kind == "elem" and (e.node in nul))
    if pg.before(consumer) in reach:
        return None
    args = C.call_args(consumer)
    ln = args[2].strip_all_casts().src.replace(" ", "")
    if not ln.startswith(POS):
        return None
    return ("after the in-place removal of executed bytes the scan restarts on (data+consumed, position-consumed): it is "
            "bounded by position and never dereferences data[position]")


# ---- progress --------------------------------------------------------------------------------
def rule_progress(ck, prog, S, model):
    got = K.need(ck, prog, "C01-P1", "scpiParser_detectProgramMessageUnit", "SCPI_Parse", "SCPI_Input")
    if not got:
        return
    det, parse, inp = got
    # P1: on every path to return: a terminator recogniser returned non-zero, or the explicit pos++, or eos true
    sums = P.summarize(det)
    bad = []
    for ps in sums:
        okp = False
        for a, pol in ps.facts:
            if isinstance(pol, tuple):
                continue
            s = a.strip_all_casts()
            if s.k == "CallExpr" and s.get("callee") == "scpiLex_IsEos" and pol is True:
                okp = True
        for ev in ps.trace:
            if ev[0] == "elem":
                t = C.store_target(ev[1])
                if t is not None and t.k == "MemberExpr":
                    bm = base_of_member(t)
                    if bm and bm[1] == "pos" and ev[1].k == "UnaryOperator" and ev[1].get("op") == "++":
                        okp = True
        # result != 0 after NewLine/Semicolon: the last `result == 0` decision false
        res = [pol for a, pol in ps.facts if not isinstance(pol, tuple) and a.k == "BinaryOperator" and a.get("op") == "=="
               and a.child(0).strip_all_casts().get("path") == "result" and C.const_of(a.child(1)) == 0]
        if res and res[-1] is False:
            okp = True
        if not okp:
            bad.append(ps)
    st = K.site(det, "consumes-a-byte", 0)
    if bad:
        ck.violated("C01-P1", st, K.loc(det, bad[0].ret_node),
                    "a path of the unit detector returns without having consumed a terminator, advanced over an invalid "
                    "byte, or reached the end of input: on such input SCPI_Parse/SCPI_Input loop forever",
                    {"path": bad[0].describe()[-6:], "paths": len(bad)})
    else:
        ck.holds("C01-P1", st, K.loc(det), "%d paths: terminator consumed, invalid byte skipped, or end of input" % len(sums))
    # the returned value is the cursor offset
    rets = [n for n in det.nodes.values() if n.k == "ReturnStmt" and n.ch]
    st = K.site(det, "returns-offset", 0)
    okr = all(r.child(0).strip_all_casts().src.replace(" ", "") == "lex_state.pos-lex_state.buffer" for r in rets)
    if okr:
        ck.holds("C01-P1", st, K.loc(det, rets[0]), "returns pos - buffer (0 <= r <= len by L1-L4)")
    else:
        ck.violated("C01-P1", st, K.loc(det, rets[0]), "the detector does not return the number of bytes scanned")
    # P2
    pg = S.pg(parse)
    st = K.site(parse, "unit-loop", 0)
    loops = C.loops(parse)
    dcall = list(parse.calls("scpiParser_detectProgramMessageUnit"))
    okk = False
    why = "no unit loop"
    for head, body in loops:
        if not dcall or parse.where[dcall[0].id][0].id not in body:
            continue
        rvar = None
        par = parse.parent_of(dcall[0])
        while par is not None and par.k in ("ImplicitCastExpr", "ParenExpr"):
            par = parse.parent_of(par)
        if par is not None and par.get("op") == "=":
            rvar = par.child(0).strip().get("path")
        adv = [n for n, t in C.stores(parse) if n.get("op") == "+=" and n.child(1).strip_all_casts().get("path") == rvar]
        shr = [n for n, t in C.stores(parse) if n.get("op") == "-=" and n.child(1).strip_all_casts().get("path") == rvar]
        if not (rvar and adv and shr):
            why = "the loop does not advance data / shrink len by the detector's result"
            continue
        # every cycle passes both, and they are guarded by r < len
        cyc = pg.reachable_flags([pg.after(dcall[0])], blocked_edge=lambda e: e.kind == "elem" and (e.node in adv or e.node in shr))
        if pg.before(dcall[0]) in cyc:
            why = "a cycle of the unit loop does not consume the detected unit"
            continue
        facts = K.facts_at(S, parse, shr[0]) or []
        lenv = shr[0].child(0).strip().get("path")
        g = K.holds_rel(facts, rvar, "<", lenv)
        if not g:
            why = "`%s -= %s` is not guarded by %s < %s: the remaining length can become negative" % (lenv, rvar, rvar, lenv)
            continue
        okk = True
    if okk:
        ck.holds("C01-P2", st, K.loc(parse, dcall[0]), "data += r; len -= r under r < len on every cycle")
    else:
        ck.violated("C01-P2", st, K.loc(parse), why)
    # P3
    pgi = S.pg(inp)
    st = K.site(inp, "scan-loop", 0)
    loops = C.loops(inp)
    dcalls = list(inp.calls("scpiParser_detectProgramMessageUnit"))
    if not loops or not dcalls:
        ck.anchor_lost("C01-P3", "scan loop of SCPI_Input")
        return
    head, body = loops[0]
    tot = None
    for n, t in C.stores(inp):
        if n.get("op") == "+=" and inp.where.get(n.id) and inp.where[n.id][0].id in body:
            src = src_of_var(inp, n.child(1)) or n.child(1)
            if any(x.k == "CallExpr" and x.get("callee") == "scpiParser_detectProgramMessageUnit" for x in src.walk()):
                tot = (n, t.get("path"))
    if not tot:
        ck.violated("C01-P3", st, K.loc(inp), "the scan loop does not accumulate the detector's result")
        return
    # exits: a break guarded by tot >= position exists on the non-NL path; the NL path shrinks position by tot
    exits = []
    for p_, es in pgi.out.items():
        for e in es:
            if e.kind == "edge" and e.src[0] in body and e.dst[0] not in body:
                exits.append(e)
    has_ge = False
    for e in exits:
        b = inp.blocks[e.src[0]]
        # facts on the exiting block
        for pr in [b] + b.preds:
            c = pr.cond
            if c is not None and c.k == "BinaryOperator" and c.get("op") in (">=", ">") and \
                    c.child(0).strip_all_casts().get("path") == tot[1] and \
                    (c.child(1).strip_all_casts().get("path") or "").endswith("buffer.position"):
                has_ge = True
    shrink = [n for n, t in C.stores(inp) if (t.get("path") or "").endswith("buffer.position") and n.get("op") == "-="
              and inp.where[n.id][0].id in body]
    if has_ge and shrink:
        ck.holds("C01-P3", st, K.loc(inp, tot[0]), "%s grows by the detector's result (>= 1 by P1) until %s >= position; "
                 "executed lines shrink position" % (tot[1], tot[1]))
    else:
        ck.violated("C01-P3", st, K.loc(inp, tot[0]), "the scan loop has no exit on `%s >= position` or never shrinks the buffer" % tot[1])
    ck.analysed(det, parse, inp)


# ---- U1 advisory ----------------------------------------------------------------------------
def rule_u1(ck, prog, S):
    from sa.charset import CTYPE
    n = 0
    for f in sorted(prog.functions.values(), key=lambda f: (f.relfile, f.line)):
        k = 0
        for x in K.ordinal_sites([x for x in f.nodes.values() if x.k == "ArraySubscriptExpr" and x.get("omacro") in
                                  set(CTYPE) | {"tolower", "toupper"} and
                                  any(y.get("callee") in ("__ctype_b_loc", "__ctype_tolower_loc", "__ctype_toupper_loc")
                                      for y in x.child(0).walk())]):
            arg = x.child(1)
            s = arg
            while s.k in ("ParenExpr", "ImplicitCastExpr") or (s.k == "CStyleCastExpr" and s.get("ct") == "int"):
                s = s.child(0)
            okk = s.get("ct") in ("unsigned char",) or (s.k == "CStyleCastExpr" and s.get("ct") == "unsigned char")
            st = K.site(f, "ctype-arg", k)
            k += 1
            n += 1
            if okk:
                ck.holds("C01-U1", st, K.loc(f, x), "%s argument is unsigned char" % x["omacro"])
            else:
                ck.advisory("C01-U1", st, K.loc(f, x),
                            "%s(%s): a byte >= 0x80 reaches the classifier as a negative int (undefined by C11 7.4p1; "
                            "harmless on glibc, whose tables cover -128..255; no failing input can be shown on this "
                            "platform, therefore advisory)" % (x["omacro"], s.src))
    if n < 8:
        ck.anchor_lost("C01-U1", "only %d <ctype.h> uses found" % n)


def run(ck, fb, tier):
    for cfg in fb.configs:
        ck.config = cfg
        prog = fb[cfg]
        S = K.summaries(prog)
        model = LexModel(prog, S)
        if cfg == "A" or tier == "thorough":
            rule_l1_l2(ck, prog, S, model)
            rule_l3_l4(ck, prog, S, model)
            rule_l5(ck, prog, S, model)
            rule_t1(ck, prog, S)
            rule_l6(ck, prog, S, model)
            rule_input(ck, prog, S)
            rule_progress(ck, prog, S, model)
        if cfg in ("A", "E") or tier == "thorough":
            rule_u1(ck, prog, S)
        if cfg == "C":
            from . import c20
            c20.rule_h1_h2(K.RuleProxy(ck, {"C20-H1": "C01-W", "C20-H1c": "C01-W", "C20-H2": None}), prog)
        if cfg == "E" and prog.fn("OUR_strndup") is not None:
            from . import boundsrules as BR
            BR.check_function(K.RuleProxy(ck, {}, default="C01-W"), prog, "C01-W", "OUR_strndup")
        if cfg == "A" and tier != "thorough":
            from . import boundsrules as BR
            BR.check_function(K.RuleProxy(ck, {}, default="C01-W"), prog, "C01-W", "SCPI_ParamCopyText")
            BR.check_function(K.RuleProxy(ck, {}, default="C01-W"), prog, "C01-W", "SCPI_ResultArbitraryBlockHeader")
        if cfg == "A" and tier == "thorough":
            from . import boundsrules as BR
            for name in ("SCPI_NumberToStr", "SCPI_FloatToStr", "SCPI_DoubleToStr", "SCPI_ParamCopyText",
                         "UInt32ToStrBaseSign", "UInt64ToStrBaseSign", "channelSpec", "SCPI_ResultArbitraryBlockHeader"):
                BR.check_function(K.RuleProxy(ck, {}, default="C01-W"), prog, "C01-W", name)
    ck.assume("lex_state_t objects are only built by the library (L5) from (pointer, length) pairs that describe readable memory")
    ck.trust("libc contracts of memcpy/memmove/strto*")


TECHNIQUE = ("static analysis: must-dataflow of the end-of-input guard over clang CFGs with raw-reader summaries, "
             "path-sensitive cursor simulation (restore / block jump), linear guard classification for the input append, "
             "must-pass-through for NUL termination, progress (variant) check of every loop on the input path")
LEVEL_TEXT = ("Clause-level static decision per site, hence for all inputs, chunkings, buffer sizes and configurations: "
              "every cursor read/advance guarded, restores only to saved cursors, block jump checked, input append bounded, "
              "buffer terminated before every parse, every loop on the input path progresses. Does not decide libc's own "
              "behaviour on the terminated buffer nor value-dependent loops outside the input path.")
LEVEL_NOTE = ("Trusted: clang CFG, extractor, libc contracts. Write bounds of formatting/copying APIs are decided under "
              "C14/C15/C17-C20 and referenced here. The <ctype.h> domain rule is advisory only (not demonstrable on glibc).")
DESIGN_REF = "DESIGN.md section 5, C01"
