"""Path-sensitive abstract simulation of the token recognisers (C01-L3/L4, C13-T1/T2).

Abstract cursor value along a path: a version number that changes with every cursor store or
call that may advance it, a flag 'wild' after `pos += n` until the end check, and a relation to
the position at entry ('start' / 'moved' / 'end').  Saved cursors (token->ptr, locals) remember
the version they were copied from."""
import re
from sa import cfg as C
from sa import paths as P
from .lexmodel import base_of_member, arg_base, EOS_TESTS


_ZU = {}


def zero_unmoved(model, name, depth=0):
    """helper(cursor, ...) leaves the cursor where it was whenever it returns 0: on every path that
    moves the cursor the returned value is provably non-zero"""
    key = (id(model), name)
    if key in _ZU:
        return _ZU[key]
    f = model.prog.fn(name)
    _ZU[key] = False
    if f is None or depth > 3 or not f.params or "_lex_state_t" not in f.params[0]["type"]["ct"]:
        return False
    base = f.params[0]["name"]
    try:
        sums = P.summarize(f, max_visits=2)
    except P.TooManyPaths:
        return False
    ok = True
    for ps in sums:
        moved = False
        failed_calls = {a.id for a, pol in ps.facts if not isinstance(pol, tuple) and pol is False and a.k == "CallExpr"}
        for ev in ps.trace:
            if ev[0] != "elem":
                continue
            n = ev[1]
            t = C.store_target(n)
            if t is not None and t.k == "MemberExpr":
                bm = base_of_member(t)
                if bm and bm[0] == base and bm[1] == "pos":
                    moved = True
            if n.k == "CallExpr" and any(arg_base(a) == base for a in C.call_args(n)):
                mw = model.S.may_write(n.get("callee")) if n.get("callee") else {"*"}
                if mw is None or mw & {"pos", "*", "*deref"}:
                    if n.id in failed_calls and zero_unmoved(model, n.get("callee"), depth + 1):
                        continue
                    moved = True
        if moved and (ps.ret is None or ps.ret.truth() is not True):
            ok = False
            break
    _ZU[key] = ok
    return ok


class Sim:
    def __init__(self, model, fn, ps, base, tok):
        self.m, self.fn, self.ps, self.base, self.tok = model, fn, ps, base, tok
        self.ver = 0
        self.wild = False
        self.rel = "start"            # start | moved | end
        self.cells = {}               # path -> ('cur', ver) | ('end',) | ('other',)
        self.pos_of_ver = {0: "start"}
        self.len_from = None          # ('diff', ver, cellvalue) | ('const', v) | ('expr', src)
        self.type_val = None          # last constant stored into token->type (None = unknown / not stored)
        self.type_stored = False
        self.ptr_adjust = 0
        self.problems = []            # (rule-suffix, node, text)
        self.advancers = []           # calls that may have advanced since the last restore
        self.steps1 = 0               # own one-byte advances since the start / the last restore to the start
        self.call_pre = {}            # call node id -> (ver before, rel before, ver after)
        self.run()

    def cur(self):
        return ("cur", self.ver)

    def bump(self, rel="moved"):
        self.ver += 1
        self.pos_of_ver[self.ver] = rel
        self.rel = rel

    def val(self, n):
        """abstract pointer value of an expression"""
        s = n.strip_all_casts()
        bm = base_of_member(s) if s.k == "MemberExpr" else None
        if bm and bm[0] == self.base and bm[1] == "pos":
            return ("wild",) if self.wild else self.cur()
        p = s.get("path")
        if p in self.cells:
            return self.cells[p]
        if s.k == "BinaryOperator" and s.get("op") == "+":
            a, b = s.child(0).strip_all_casts(), s.child(1).strip_all_casts()
            ba, bb = (base_of_member(a) if a.k == "MemberExpr" else None), (base_of_member(b) if b.k == "MemberExpr" else None)
            if ba and bb and ba[0] == bb[0] == self.base and {ba[1], bb[1]} == {"buffer", "len"}:
                return ("end",)
        if s.k == "BinaryOperator" and s.get("op") == "-":
            a = s.child(0).strip_all_casts()
            ba = base_of_member(a) if a.k == "MemberExpr" else None
            if ba and ba[0] == self.base and ba[1] == "pos":
                return ("curminus", self.ver, s.child(1).strip_all_casts().src, self.wild)
        return ("other", s.src)

    def run(self):
        for ev in self.ps.trace:
            if ev[0] == "branch":
                self.on_branch(ev[1], ev[2])
            else:
                self.on_elem(ev[1])

    def on_branch(self, cond, pol):
        for atom, apol in C.cond_facts(cond, pol):
            a = atom.strip_all_casts()
            # (buffer + len) >= pos  true  => the jump stayed inside
            if a.k == "BinaryOperator" and a.get("op") in (">=", "<=", "<", ">"):
                l, r = self.val(a.child(0)), self.val(a.child(1))
                pair = None
                if l == ("end",) and r[0] in ("wild", "cur"):
                    pair = a["op"]
                elif r == ("end",) and l[0] in ("wild", "cur"):
                    pair = {">=": "<=", "<=": ">=", "<": ">", ">": "<"}[a["op"]]
                if pair in (">=", ">") and apol and self.wild:
                    self.wild = False   # end >= pos
                    self.rel = "moved"
                if pair in ("<", "<=") and not apol and self.wild:
                    self.wild = False
            # pre-check of a jump:  n <= remaining  with remaining = end - pos, in any of its spellings
            if a.k == "BinaryOperator" and a.get("op") in ("<=", "<", ">=", ">"):
                def canon(x):
                    return x.strip_all_casts().src.replace(" ", "").replace("(", "").replace(")", "")
                b_ = self.base
                rem = {"%s->len-%s->pos-%s->buffer" % (b_, b_, b_)}      # len - (pos - buffer), parens dropped
                rem2 = {"%s->buffer+%s->len-%s->pos" % (b_, b_, b_)}
                l_, r_ = canon(a.child(0)), canon(a.child(1))
                raw_l = a.child(0).strip_all_casts().src.replace(" ", "")
                raw_r = a.child(1).strip_all_casts().src.replace(" ", "")
                def is_rem(raw, c):
                    return (c in rem and "-(%s->pos-%s->buffer)" % (b_, b_) in raw) or c in rem2
                op_ = a["op"] if apol else {"<=": ">", "<": ">=", ">=": "<", ">": "<="}[a["op"]]
                if is_rem(raw_r, r_) and op_ in ("<=", "<") and not self.wild:
                    self.prechecked = getattr(self, "prechecked", {})
                    self.prechecked[a.child(0).strip_all_casts().src] = self.ver
                if is_rem(raw_l, l_) and op_ in (">=", ">") and not self.wild:
                    self.prechecked = getattr(self, "prechecked", {})
                    self.prechecked[a.child(1).strip_all_casts().src] = self.ver
            # token->len > 0 false with len = pos - ptr(start) at the current version => at start
            if a.k == "BinaryOperator" and a.get("op") == ">" and C.const_of(a.child(1)) == 0 and \
                    (a.child(0).strip_all_casts().get("path") or "") == self.tok + "->len" and not apol:
                lf = self.len_from
                if lf and lf[0] == "diff" and lf[1] == self.ver and lf[2] == ("cur", 0):
                    self.rel = "start"
                    self.pos_of_ver[self.ver] = "start"
            # a helper that provably leaves the cursor alone when it returns 0
            if a.k == "CallExpr" and not apol and a.id in self.call_pre:
                pre_ver, pre_rel, post_ver = self.call_pre[a.id]
                if post_ver == self.ver and zero_unmoved(self.m, a.get("callee")):
                    self.rel = pre_rel
                    self.pos_of_ver[self.ver] = pre_rel
                    self.same_as = getattr(self, "same_as", {})
                    self.same_as[self.ver] = pre_ver
                    if a in self.advancers:
                        self.advancers.remove(a)

    def on_elem(self, n):
        # reads while wild
        if n.k in ("ArraySubscriptExpr",) or (n.k == "UnaryOperator" and n.get("op") == "*"):
            inner = n.child(0).strip()
            bm = base_of_member(inner) if inner.k == "MemberExpr" else None
            if bm and bm[0] == self.base and bm[1] == "pos" and self.wild:
                self.problems.append(("L4", n, "the cursor is read after `pos += n` before it was checked against the end of input"))
        if n.k == "CallExpr":
            name = n.get("callee")
            for a in C.call_args(n):
                if arg_base(a) == self.base:
                    if self.wild and name not in EOS_TESTS:
                        self.problems.append(("L4", n, "%s is called with a cursor that may point past the end of input" % name))
                    mw = self.m.S.may_write(name) if name else {"*"}
                    if mw is None or mw & {"pos", "*", "*deref"}:
                        pre = (self.ver, self.rel)
                        self.bump("moved")
                        self.call_pre[n.id] = (pre[0], pre[1], self.ver)
                        self.advancers.append(n)
            return
        if n.k == "ReturnStmt":
            return
        if n.k == "DeclStmt":
            for d in n.get("decls", []):
                if "init" in d:
                    self.cells[d["name"]] = self.val(self.fn.nodes[d["init"]])
            return
        t = C.store_target(n)
        if t is None:
            return
        tp = t.get("path") or ""
        bm = base_of_member(t) if t.k == "MemberExpr" else None
        if bm and bm[0] == self.base and bm[1] == "pos":
            op = n.get("op")
            step1 = n.k == "UnaryOperator" or (op == "+=" and C.const_of(n.child(1)) == 1)
            if op == "=":
                r_ = n.child(1).strip_all_casts()
                if r_.k == "BinaryOperator" and r_.get("op") == "+" and C.const_of(r_.child(1)) == 1 and \
                        r_.child(0).strip_all_casts().k == "MemberExpr" and base_of_member(r_.child(0).strip_all_casts()) == bm:
                    step1 = True
            if step1:
                if self.wild:
                    self.problems.append(("L4", n, "cursor stepped while it may point past the end of input"))
                self.bump("moved")
                self.steps1 += 1
            elif op == "+=":
                amount = n.child(1).strip_all_casts().src
                pre = getattr(self, "prechecked", {}).get(amount)
                checked = pre is not None and pre == self.ver
                self.bump("moved")
                self.wild = not checked
                self.jump = n
            elif op == "=":
                v = self.val(n.child(1))
                if v[0] == "cur":
                    rel = self.pos_of_ver.get(v[1], "moved")
                    self.bump(rel)
                    self.wild = False
                    if rel == "start":
                        self.steps1 = 0
                elif v == ("end",):
                    self.bump("end")
                    self.wild = False
                elif v[0] == "curminus":
                    # pos - k where pos was in range and the result is a previously seen position:
                    # only the block recogniser's token->ptr = pos - length uses it (checked branch)
                    self.bump("moved")
                    self.problems.append(("L3", n, "cursor set to a computed position `%s`" % n.child(1).src))
                else:
                    self.bump("moved")
                    self.problems.append(("L3", n, "cursor set to `%s`, which is neither a saved cursor of this call nor the end of input" % n.child(1).src))
            return
        if bm and bm[0] == self.base and bm[1] in ("buffer", "len"):
            self.problems.append(("L3", n, "recogniser changes the extent of its input (`%s`)" % n.src))
            return
        # saved cursors and token fields
        if n.get("op") == "=":
            v = self.val(n.child(1))
            if tp == self.tok + "->len":
                rhs = n.child(1).strip_all_casts()
                if rhs.k == "BinaryOperator" and rhs.get("op") == "-":
                    a, b = self.val(rhs.child(0)), self.val(rhs.child(1))
                    if a[0] in ("cur", "wild"):
                        self.len_from = ("diff", self.ver, b, a[0] == "wild")
                    else:
                        self.len_from = ("expr", rhs.src)
                elif C.const_of(rhs) is not None:
                    self.len_from = ("const", C.const_of(rhs))
                else:
                    self.len_from = ("expr", rhs.src, self.ver)
                return
            if tp == self.tok + "->type":
                self.type_stored = True
                self.type_val = C.const_of(n.child(1))
                return
            if v[0] in ("cur", "end", "curminus", "wild"):
                self.cells[tp] = v
            elif tp in self.cells:
                self.cells[tp] = v
        elif n.get("op") == "+=" and tp in self.cells:
            c = C.const_of(n.child(1))
            v = self.cells[tp]
            if tp == self.tok + "->ptr" and c is not None:
                self.ptr_adjust += c
            self.cells[tp] = ("adjusted", v, c)
        elif n.get("op") in ("+=", "-=") and tp == self.tok + "->len":
            self.len_from = ("expr", n.src, self.ver)


def recognisers(prog):
    out = []
    for f in prog.functions.values():
        if not f.relfile.endswith("lexer.c"):
            continue
        if len(f.params) >= 2 and "_lex_state_t" in f.params[0]["type"]["ct"] and \
                re.search(r"\b_scpi_token_t\b", f.params[1]["type"]["ct"] or "") and f.params[1]["type"].get("tk") == "ptr":
            out.append(f)
    return sorted(out, key=lambda f: f.line)


def simulate(model, f):
    base, tok = f.params[0]["name"], f.params[1]["name"]
    sims = []
    for ps in P.summarize(f, max_visits=2):
        sims.append(Sim(model, f, ps, base, tok))
    return sims
