"""Structural model of SCPI_RegSet's propagation switch, shared by C11 and C12.

For every arm of `switch (register class)` the acyclic paths from the switch to either a return
or the loop condition are enumerated and evaluated symbolically: bitwise assignments become
truth tables over named leaves (sa/bits.py), other assignments become symbolic copies."""
from sa import cfg as C
from sa import bits as B


class ArmPath:
    def __init__(self):
        self.classes = []      # enum values routed into this path's first edge
        self.edges = []        # (block, si)
        self.ends = None       # 'return' | 'loop'
        self.env = {}          # path -> (leaves, f) bitwise value
        self.sym = {}          # path -> symbolic copy (path string or int)
        self.reg_stores = []   # (index desc, (leaves, f) or None, node)
        self.calls = []        # (call node, facts-so-far snapshot index)
        self.facts = []        # (cond node, polarity) branch decisions taken, in order
        self.events = []       # ordered ('store'|'call'|'branch', payload)
        self.notes = []
        self.truth = {}        # bool variable -> (leaves, f) whose non-zero-ness it holds


def idx_desc(node):
    c = C.const_of(node)
    if c is not None:
        return c
    s = node.strip_all_casts()
    return s.get("path") or s.src


def leaf_key_factory(path):
    def leaf_key(n):
        if n.k == "CallExpr" and n.get("callee") == "SCPI_RegGet":
            a = C.call_args(n)
            if len(a) == 2:
                d = idx_desc(a[1])
                d = path.sym.get(d, d)
                return "reg:%s" % d
            return None
        if n.k == "ArraySubscriptExpr":
            base = n.child(0).strip()
            if base.get("path", "").endswith("->registers") or base.get("member") == "registers":
                d = idx_desc(n.child(1))
                d = path.sym.get(d, d)
                return "reg:%s" % d
        p = n.get("path")
        if p is not None and n.k in ("DeclRefExpr", "MemberExpr") and n.get("tk") in ("int", "enum", "bool"):
            return p
        return None
    return leaf_key


def eval_bits(path, expr):
    try:
        return B.leaves_and_eval(expr, path.env, leaf_key_factory(path))
    except B.NotBitwise:
        return None


def truth_of(path, expr):
    """(leaves, f) such that expr is true iff f != 0, for `E != 0`, `0 != E` and bitwise E"""
    n = expr.strip_all_casts()
    if n.k == "BinaryOperator" and n.get("op") == "!=":
        a, b = n.child(0), n.child(1)
        if C.const_of(b) == 0:
            return eval_bits(path, a)
        if C.const_of(a) == 0:
            return eval_bits(path, b)
    p = n.get("path")
    if p in path.truth:
        return path.truth[p]
    return eval_bits(path, n)


def reg_path_key(path, target):
    """env key for a store target that is an element of context->registers[]"""
    if target.k == "ArraySubscriptExpr":
        base = target.child(0).strip()
        if base.get("member") == "registers":
            d = idx_desc(target.child(1))
            d = path.sym.get(d, d)
            return "reg:%s" % d
    return None


def process_elem(path, n):
    if n.k == "DeclStmt":
        for d in n.get("decls", []):
            if "init" in d:
                init = n.fn.nodes[d["init"]]
                v = eval_bits(path, init)
                if v is not None:
                    path.env[d["name"]] = v
                else:
                    tv = truth_of(path, init)
                    if tv is not None:
                        path.truth[d["name"]] = tv
                s = init.strip_all_casts()
                if s.get("path") and s.k in ("MemberExpr", "DeclRefExpr"):
                    path.sym[d["name"]] = path.sym.get(s["path"], s["path"])
                elif C.const_of(init) is not None:
                    path.sym[d["name"]] = C.const_of(init)
        return
    if n.k == "CallExpr":
        path.calls.append(n)
        path.events.append(("call", n))
        return
    t = C.store_target(n)
    if t is None:
        return
    op = n.get("op")
    key = reg_path_key(path, t)
    tp = t.get("path")
    if n.k == "UnaryOperator":
        if tp:
            path.env.pop(tp, None)
            path.sym.pop(tp, None)
        return
    rhs = n.child(1)
    if op == "=":
        v = eval_bits(path, rhs)
    else:
        bop = op[:-1]
        if bop in ("&", "|", "^"):
            cur = path.env.get(key or tp)
            if cur is None:
                k2 = key or tp
                cur = ({k2}, (lambda a, k2=k2: a[k2]))
            r = eval_bits(path, rhs)
            if r is None:
                v = None
            else:
                la, fa = cur
                lb, fb = r
                if bop == "&":
                    v = (la | lb, (lambda a, fa=fa, fb=fb: fa(a) & fb(a)))
                elif bop == "|":
                    v = (la | lb, (lambda a, fa=fa, fb=fb: fa(a) | fb(a)))
                else:
                    v = (la | lb, (lambda a, fa=fa, fb=fb: fa(a) ^ fb(a)))
        else:
            v = None
    if key is not None:
        path.reg_stores.append((key, v, n))
        path.events.append(("regstore", (key, v, n)))
        if v is not None:
            path.env[key] = v
        else:
            path.env.pop(key, None)
        return
    if tp:
        if v is not None:
            path.env[tp] = v
        else:
            path.env.pop(tp, None)
            # an opaque value: a fresh leaf named after the site
            name = "%s@%d" % (tp, n.get("line", 0))
            path.env[tp] = ({name}, (lambda a, name=name: a[name]))
        if op == "=":
            s = rhs.strip_all_casts()
            if s.get("path") and s.k in ("MemberExpr", "DeclRefExpr"):
                path.sym[tp] = path.sym.get(s["path"], s["path"])
            elif C.const_of(rhs) is not None:
                path.sym[tp] = C.const_of(rhs)
            else:
                path.sym.pop(tp, None)
        path.events.append(("store", (tp, v, n)))


def feasible(facts):
    """reject paths that decide `X == c` / `X != c` on an unmodified X both ways"""
    known = {}
    for cond, pol in facts:
        for atom, apol in C.cond_facts(cond, pol):
            if atom.k == "BinaryOperator" and atom.get("op") in ("==", "!="):
                l = atom.child(0).strip_all_casts().get("path")
                r = C.const_of(atom.child(1))
                if l is None or r is None:
                    continue
                eq = apol if atom["op"] == "==" else not apol
                if known.setdefault((l, r), eq) != eq:
                    return False
    return True


class RegSetModel:
    def __init__(self, fn):
        self.fn = fn
        self.switch = None
        self.paths = []
        self.problems = []
        self.cond_src = None
        self._build()

    def _build(self):
        fn = self.fn
        sw = [b for b in fn.blocks.values() if b.term_kind == "SwitchStmt"]
        if len(sw) != 1:
            self.problems.append("expected exactly one switch in %s, found %d" % (fn.name, len(sw)))
            return
        self.switch = sw[0]
        cond = self.switch.cond
        self.cond_src = cond.src if cond is not None else None
        # the switch operand must be the class of the register being written
        ok = False
        if cond is not None:
            from sa import ctx as X_
            al, resolve = X_.aliases(fn)

            def is_class_of_register(path):
                rp = resolve(path) if path else ""
                return rp.startswith("scpi_reg_details[") and rp.endswith(".type")
            p = cond.get("path", "")
            if is_class_of_register(p):
                ok = True
            elif cond.k == "DeclRefExpr":
                name = cond["decl"]["name"]
                for n in fn.nodes.values():
                    if n.k == "DeclStmt":
                        for d in n.get("decls", []):
                            if d["name"] == name and "init" in d:
                                if is_class_of_register(fn.nodes[d["init"]].strip_all_casts().get("path", "")):
                                    ok = True
                    t = C.store_target(n)
                    if t is not None and t.get("path") == name and n.get("op") == "=":
                        if is_class_of_register(n.child(1).strip_all_casts().get("path", "")):
                            ok = True
        if not ok:
            self.problems.append("switch operand `%s` is not scpi_reg_details[name].type" % self.cond_src)
            return

        def stop(b):
            return b.id == fn.exit.id or b.term_kind == "DoStmt"

        for si, s in enumerate(self.switch.succs):
            if s is None:
                continue
            lab = fn.edge_label(self.switch, si)
            if lab[0] == "case":
                classes = list(range(lab[1], lab[2] + 1))
            elif lab[0] == "default":
                classes = ["default"]
            else:
                classes = ["none"]
            try:
                for edges, _ in C.enumerate_paths(fn, start=s, stop=stop, max_visits=1):
                    ap = ArmPath()
                    ap.classes = classes
                    ap.edges = [(self.switch, si)] + edges
                    self._walk(ap, s, edges)
                    if feasible(ap.facts):
                        self.paths.append(ap)
            except C.PathTooMany:
                self.problems.append("too many paths in arm %s" % (classes,))

    def _walk(self, ap, first_block, edges):
        fn = self.fn
        seq = []
        if not edges:
            seq.append((first_block, None))
        for b, si in edges:
            seq.append((b, si))
        last = None
        for b, si in seq:
            for e in b.elems:
                process_elem(ap, e)
            if si is not None:
                lab = fn.edge_label(b, si)
                if lab[0] in ("true", "false") and lab[1] is not None:
                    ap.facts.append((lab[1], lab[0] == "true"))
                    ap.events.append(("branch", (lab[1], lab[0] == "true")))
                last = b.succs[si]
        if last is None:
            last = first_block
        if last.id == fn.exit.id:
            ap.ends = "return"
        else:
            ap.ends = "loop"
            # elements of the loop-condition block are evaluated but belong to the next round


def class_names(prog, values):
    e = prog.enums.get("_scpi_reg_class_t") or prog.enums.get("scpi_reg_class_t")
    out = []
    for v in values:
        name = None
        if e and isinstance(v, int):
            for k, x in e["consts"].items():
                if x == v:
                    name = k
        out.append(name or str(v))
    return out
