"""Structural model of SCPI_RegSet's propagation switch, shared by C11 and C12.

For every arm of `switch (register class)` the acyclic paths from the switch to either a return
or the loop condition are enumerated and evaluated symbolically: bitwise assignments become
truth tables over named leaves (sa/bits.py), other assignments become symbolic copies."""
from sa import cfg as C
from sa import bits as B


class ArmPath:
    def __init__(self):
        self.classes = []      # enum values routed into this path's first edge
        self.edges = []        # (block, si)
        self.ends = None       # 'return' | 'loop'
        self.env = {}          # path -> (leaves, f) bitwise value
        self.sym = {}          # path -> symbolic copy (path string or int)
        self.reg_stores = []   # (index desc, (leaves, f) or None, node)
        self.calls = []        # (call node, facts-so-far snapshot index)
        self.facts = []        # (cond node, polarity) branch decisions taken, in order
        self.events = []       # ordered ('store'|'call'|'branch', payload)
        self.notes = []
        self.truth = {}        # bool variable -> (leaves, f) whose non-zero-ness it holds
        self.btruth = {}       # condition node id -> (leaves, f) of the condition as evaluated when the branch was taken


def idx_desc(node):
    c = C.const_of(node)
    if c is not None:
        return c
    s = node.strip_all_casts()
    return s.get("path") or s.src


def leaf_key_factory(path):
    def leaf_key(n):
        if n.k == "CallExpr" and n.get("callee") == "SCPI_RegGet":
            a = C.call_args(n)
            if len(a) == 2:
                d = idx_desc(a[1])
                d = path.sym.get(d, d)
                return "reg:%s" % d
            return None
        if n.k == "ArraySubscriptExpr":
            base = n.child(0).strip()
            if base.get("path", "").endswith("->registers") or base.get("member") == "registers":
                d = idx_desc(n.child(1))
                d = path.sym.get(d, d)
                return "reg:%s" % d
        p = n.get("path")
        if p is not None and n.k in ("DeclRefExpr", "MemberExpr") and n.get("tk") in ("int", "enum", "bool"):
            return p
        return None
    return leaf_key


def eval_bits(path, expr):
    try:
        return B.leaves_and_eval(expr, path.env, leaf_key_factory(path))
    except B.NotBitwise:
        return None


def truth_of(path, expr):
    """(leaves, f) such that expr is true iff f != 0, for `E != 0`, `0 != E` and bitwise E"""
    n = expr.strip_all_casts()
    while n.k == "ParenExpr" and n.ch:
        n = n.child(0).strip_all_casts()
    if n.k == "BinaryOperator" and n.get("op") == "!=":
        a, b = n.child(0), n.child(1)
        if C.const_of(b) == 0:
            return eval_bits(path, a)
        if C.const_of(a) == 0:
            return eval_bits(path, b)
    p = n.get("path")
    if p in path.truth:
        return path.truth[p]
    return eval_bits(path, n)


def positive(cond, pol):
    """`!E` taken with polarity p is E taken with polarity not p (a guard clause `if (!(stb & sre)) {...; break;}` decides
    the same thing as `if (stb & sre) ... else ...`)"""
    n = cond
    while True:
        s = n.strip_all_casts()
        while s.k == "ParenExpr" and s.ch:
            s = s.child(0).strip_all_casts()
        if s.k == "UnaryOperator" and s.get("op") == "!" and s.ch:
            n, pol = s.child(0), not pol
            continue
        return s if s is not cond and n is not cond else cond, pol


def reg_path_key(path, target):
    """env key for a store target that is an element of context->registers[]"""
    if target.k == "ArraySubscriptExpr":
        base = target.child(0).strip()
        if base.get("member") == "registers":
            d = idx_desc(target.child(1))
            d = path.sym.get(d, d)
            return "reg:%s" % d
    return None


def process_elem(path, n):
    if n.k == "DeclStmt":
        for d in n.get("decls", []):
            if "init" in d:
                init = n.fn.nodes[d["init"]]
                v = eval_bits(path, init)
                if v is not None:
                    path.env[d["name"]] = v
                else:
                    tv = truth_of(path, init)
                    if tv is not None:
                        path.truth[d["name"]] = tv
                s = init.strip_all_casts()
                if s.get("path") and s.k in ("MemberExpr", "DeclRefExpr"):
                    path.sym[d["name"]] = path.sym.get(s["path"], s["path"])
                elif C.const_of(init) is not None:
                    path.sym[d["name"]] = C.const_of(init)
        return
    if n.k == "CallExpr":
        path.calls.append(n)
        path.events.append(("call", n))
        return
    t = C.store_target(n)
    if t is None:
        return
    op = n.get("op")
    key = reg_path_key(path, t)
    tp = t.get("path")
    if n.k == "UnaryOperator":
        if tp:
            path.env.pop(tp, None)
            path.sym.pop(tp, None)
        return
    rhs = n.child(1)
    if op == "=":
        v = eval_bits(path, rhs)
    else:
        bop = op[:-1]
        if bop in ("&", "|", "^"):
            cur = path.env.get(key or tp)
            if cur is None:
                k2 = key or tp
                cur = ({k2}, (lambda a, k2=k2: a[k2]))
            r = eval_bits(path, rhs)
            if r is None:
                v = None
            else:
                la, fa = cur
                lb, fb = r
                if bop == "&":
                    v = (la | lb, (lambda a, fa=fa, fb=fb: fa(a) & fb(a)))
                elif bop == "|":
                    v = (la | lb, (lambda a, fa=fa, fb=fb: fa(a) | fb(a)))
                else:
                    v = (la | lb, (lambda a, fa=fa, fb=fb: fa(a) ^ fb(a)))
        else:
            v = None
    if key is not None:
        path.reg_stores.append((key, v, n))
        path.events.append(("regstore", (key, v, n)))
        if v is not None:
            path.env[key] = v
        else:
            path.env.pop(key, None)
        return
    if tp:
        path.truth.pop(tp, None)
        if v is None and op == "=":
            # a truth value kept in a variable (`summary = (val & enable) != 0;` as a statement)
            rs = rhs.strip_all_casts()
            if rs.k == "BinaryOperator" and rs.get("op") == "!=":
                tv = truth_of(path, rhs)
                if tv is not None:
                    path.truth[tp] = tv
        if v is not None:
            path.env[tp] = v
        else:
            path.env.pop(tp, None)
            # an opaque value: a fresh leaf named after the site
            name = "%s@%d" % (tp, n.get("line", 0))
            path.env[tp] = ({name}, (lambda a, name=name: a[name]))
        if op == "=":
            s = rhs.strip_all_casts()
            if s.get("path") and s.k in ("MemberExpr", "DeclRefExpr"):
                path.sym[tp] = path.sym.get(s["path"], s["path"])
            elif C.const_of(rhs) is not None:
                path.sym[tp] = C.const_of(rhs)
            else:
                path.sym.pop(tp, None)
        path.events.append(("store", (tp, v, n)))


def feasible(facts):
    """reject paths that decide `X == c` / `X != c` on an unmodified X both ways"""
    known = {}
    for cond, pol in facts:
        for atom, apol in C.cond_facts(cond, pol):
            if atom.k == "BinaryOperator" and atom.get("op") in ("==", "!="):
                l = atom.child(0).strip_all_casts().get("path")
                r = C.const_of(atom.child(1))
                if l is None or r is None:
                    continue
                eq = apol if atom["op"] == "==" else not apol
                if known.setdefault((l, r), eq) != eq:
                    return False
    return True


class RegSetModel:
    def __init__(self, fn, prog=None):
        self.fn = fn
        self.prog = prog
        self.switch = None
        self.paths = []
        self.problems = []
        self.cond_src = None
        self._build()

    def _build(self):
        fn = self.fn
        sw = [b for b in fn.blocks.values() if b.term_kind == "SwitchStmt"]
        if len(sw) != 1:
            self.problems.append("expected exactly one switch in %s, found %d" % (fn.name, len(sw)))
            return
        self.switch = sw[0]
        cond = self.switch.cond
        self.cond_src = cond.src if cond is not None else None
        # the switch operand must be the class of the register being written
        ok = False
        if cond is not None:
            from sa import ctx as X_
            al, resolve = X_.aliases(fn)

            def is_class_of_register(path):
                rp = resolve(path) if path else ""
                return rp.startswith("scpi_reg_details[") and rp.endswith(".type")
            p = cond.get("path", "")
            if is_class_of_register(p):
                ok = True
            elif cond.k == "DeclRefExpr":
                name = cond["decl"]["name"]
                for n in fn.nodes.values():
                    if n.k == "DeclStmt":
                        for d in n.get("decls", []):
                            if d["name"] == name and "init" in d:
                                if is_class_of_register(fn.nodes[d["init"]].strip_all_casts().get("path", "")):
                                    ok = True
                    t = C.store_target(n)
                    if t is not None and t.get("path") == name and n.get("op") == "=":
                        if is_class_of_register(n.child(1).strip_all_casts().get("path", "")):
                            ok = True
        if not ok:
            self.problems.append("switch operand `%s` is not scpi_reg_details[name].type" % self.cond_src)
            return

        def stop(b):
            return b.id == fn.exit.id or b.term_kind == "DoStmt"

        for si, s in enumerate(self.switch.succs):
            if s is None:
                continue
            lab = fn.edge_label(self.switch, si)
            if lab[0] == "case":
                classes = list(range(lab[1], lab[2] + 1))
            elif lab[0] == "default":
                classes = ["default"]
            else:
                classes = ["none"]
            try:
                for edges, _ in C.enumerate_paths(fn, start=s, stop=stop, max_visits=1):
                    ap = ArmPath()
                    ap.classes = classes
                    ap.edges = [(self.switch, si)] + edges
                    for q in self._walk(ap, s, edges):
                        if feasible(q.facts):
                            self.paths.append(q)
            except C.PathTooMany:
                self.problems.append("too many paths in arm %s" % (classes,))

    def _walk(self, ap, first_block, edges):
        """evaluate one block path of the arm; a call to a small static helper whose value is assigned (val = helper(...))
        is inlined path by path (renamed copy of the helper, sa/facts.instantiate), so that a decision extracted into a
        helper is still seen as a decision of this arm.  Returns the list of resulting ArmPaths."""
        fn = self.fn
        steps = []
        seq = []
        if not edges:
            seq.append((first_block, None))
        for b, si in edges:
            seq.append((b, si))
        last = None
        for b, si in seq:
            for e in b.elems:
                steps.append(("elem", e))
            if si is not None:
                lab = fn.edge_label(b, si)
                if lab[0] in ("true", "false") and lab[1] is not None:
                    steps.append(("branch", positive(lab[1], lab[0] == "true")))
                last = b.succs[si]
        if last is None:
            last = first_block
        ends = "return" if last.id == fn.exit.id else "loop"
        out = []
        self._run(ap, steps, 0, out, 0)
        for q in out:
            q.ends = ends
        return out

    def _helper_of(self, n):
        """(call node, target path or decl name) if element n assigns the value of a small static helper"""
        prog = getattr(self, "prog", None)
        if prog is None:
            return None
        call = tgt = None
        if n.k in ("BinaryOperator",) and n.get("op") == "=":
            r = n.child(1).strip_all_casts()
            if r.k == "CallExpr":
                call, tgt = r, n.child(0).strip().get("path")
        elif n.k == "DeclStmt":
            for d in n.get("decls", []):
                if "init" in d:
                    r = n.fn.nodes[d["init"]].strip_all_casts()
                    if r.k == "CallExpr":
                        call, tgt = r, d["name"]
        if call is None or not call.get("callee") or not tgt:
            return None
        g = prog.fn(call["callee"])
        if g is None or not g.static or g.name == self.fn.name or len(g.blocks) > 14 or C.loops(g):
            return None
        return call, tgt, g

    def _run(self, ap, steps, i, out, depth):
        import copy
        from sa import facts as F_
        while i < len(steps):
            kind, x = steps[i]
            i += 1
            if kind == "branch":
                ap.facts.append(x)
                ap.events.append(("branch", x))
                cm = dict(ap.env.get("$cond") or {})
                cm[x[0].id] = x[1]
                ap.env = dict(ap.env)
                ap.env["$cond"] = cm
                try:
                    tv = truth_of(ap, x[0])
                except Exception:
                    tv = None
                if tv is not None:
                    ap.btruth[x[0].id] = tv
                continue
            h = self._helper_of(x) if depth < 2 else None
            if h is None:
                process_elem(ap, x)
                continue
            call, tgt, g = h
            self._inl = getattr(self, "_inl", 0) + 1
            clone, byvalue = F_.instantiate(g, call, "%s$%d::" % (g.name, self._inl))
            ap.calls.append(call)
            for edges, _ in C.enumerate_paths(clone, max_visits=1):
                q = copy.copy(ap)
                q.classes, q.edges = list(ap.classes), list(ap.edges)
                q.env, q.sym, q.truth, q.btruth = dict(ap.env), dict(ap.sym), dict(ap.truth), dict(ap.btruth)
                q.reg_stores, q.calls, q.facts, q.events, q.notes = list(ap.reg_stores), list(ap.calls), list(ap.facts), list(ap.events), list(ap.notes)
                for pname, arg in byvalue:
                    v = eval_bits(q, arg)
                    if v is not None:
                        q.env[pname] = v
                sub = []
                ret = None
                seqb = [(clone.entry, None)] if not edges else list(edges)
                for b, si in seqb:
                    for e in b.elems:
                        if e.k == "ReturnStmt":
                            ret = e
                        else:
                            sub.append(("elem", e))
                    if si is not None:
                        lab = clone.edge_label(b, si)
                        if lab[0] in ("true", "false") and lab[1] is not None:
                            sub.append(("branch", positive(lab[1], lab[0] == "true")))
                if edges:
                    lastb = edges[-1][0].succs[edges[-1][1]]
                    if lastb is not None:
                        for e in lastb.elems:
                            if e.k == "ReturnStmt":
                                ret = e
                            else:
                                sub.append(("elem", e))
                inner = []
                self._run(q, sub, 0, inner, depth + 1)
                for q2 in inner:
                    v = eval_bits(q2, ret.child(0)) if ret is not None and ret.ch else None
                    if v is not None:
                        q2.env[tgt] = v
                    else:
                        name = "%s@call%d" % (tgt, self._inl)
                        q2.env[tgt] = ({name}, (lambda a, name=name: a[name]))
                    q2.sym.pop(tgt, None)
                    q2.events.append(("store", (tgt, v, x)))
                    self._run(q2, steps, i, out, depth)
            return
        out.append(ap)


def class_names(prog, values):
    e = prog.enums.get("_scpi_reg_class_t") or prog.enums.get("scpi_reg_class_t")
    out = []
    for v in values:
        name = None
        if e and isinstance(v, int):
            for k, x in e["consts"].items():
                if x == v:
                    name = k
        out.append(name or str(v))
    return out
