"""C19 — numeric and channel lists decode entry by entry exactly as written."""
from sa import cfg as C
from sa import paths as P
from . import common as K
from . import boundsrules as BR

CONFIGS_QUICK = ["A"]
CONFIGS_THOROUGH = ["A", "B", "C", "D", "E"]

EXPLANATION = (
    "Static, clause-level decision of C19 by path enumeration of the two list walkers and their "
    "helpers. (X1) values are stored only below the announced dimension capacity (bounds engine) "
    "and the walker passes the caller's capacity only for the requested entry, 0 for the entries "
    "it skips. (X2) on every path that reports OK, what follows the requested entry is examined "
    "(a comma or the end of the expression) - necessary for 'OK only if the entry is well "
    "formed'; violated by both walkers as they are (known finding: '(1x,2)' entry 0 is reported "
    "OK with value 1). (X3) every path returning ERROR has queued an error (-170, or -104/-310 on "
    "the argument checks). (X4) channelRange reports ERROR when the two ends of a range differ "
    "in dimension count and stores the dimension count and the range flag on every OK path; "
    "numericRange stores the range flag on every OK path. (X6) the channel walker reports NO_MORE "
    "only after having seen the end of the expression. NOT decided: that values are 'exactly as "
    "written' (conversion, C04).")

RULES = {
    "C19-XC": "(thorough) decision tables of the configuration-independent functions of this property are identical in every build configuration",
    "C19-X1": "dimension values are stored below the announced capacity; skipped entries are decoded with capacity 0",
    "C19-X2": "every path reporting OK examined what follows the requested entry (comma or end of expression)",
    "C19-X3": "every path returning ERROR queued an error",
    "C19-X4": "range ends with different dimension counts => ERROR; dimension count and range flag stored on every OK path",
    "C19-X5": "channelSpec: number ('!' number)*; a '!' that is not followed by a number is ERROR, no number at all is NO_MORE, OK only after a number that is not followed by '!'",
    "C19-X7": "the integer readers the list walkers call without looking at their result deliver into the caller's variable whenever the conversion ran (no success-gated copy): an entry never keeps the previous entry's value",
    "C19-X8": "the value wrappers convert what the entry function delivered: the Int wrapper runs SCPI_ParamToInt32 and the Double wrapper SCPI_ParamToDouble on the very token objects SCPI_ExprNumericListEntry filled (from -> valueFrom, to -> valueTo); no detour through another type or a copy of the text",
    "C19-X6": "channel list: NO_MORE only after the end of the expression was seen (malformed rest => ERROR with -170) and only behind an entry that was parsed and found well formed (an empty channel list is malformed)",
}

WALKERS = (("SCPI_ExprNumericListEntry", "numericRange"), ("SCPI_ExprChannelListEntry", "channelRange"))


def final_result(ps, prog, var="res"):
    """('const', v) / ('call', node, {value: bool}) of the returned result on a path"""
    r = ps.ret
    if r is None:
        return None
    if r.kind == "const":
        return ("const", r.v)
    known = {}
    for a, pol in ps.facts:
        if isinstance(pol, tuple):
            continue
        if a.k == "BinaryOperator" and a.get("op") in ("==", "!=") and a.child(0).strip_all_casts().get("path") == var:
            c = C.const_of(a.child(1))
            if c is not None:
                known[c] = pol if a["op"] == "==" else not pol
    return ("call", r.node if r.kind in ("call", "callres") else None, known)


def rule_walkers(ck, prog, S):
    ec = prog.enumconst
    OK, ERR, NOMORE = ec.get("SCPI_EXPR_OK"), ec.get("SCPI_EXPR_ERROR"), ec.get("SCPI_EXPR_NO_MORE")
    for wname, rname in WALKERS:
        f = prog.fn(wname)
        if f is None:
            ck.anchor_lost("C19-X2", wname)
            continue
        ck.analysed(f)
        sums = P.summarize(f, max_visits=2)
        ok_paths = unexamined = 0
        err_silent = []
        nomore_bad = []
        nomore_empty = []
        n_nomore_const = 0
        for ps in sums:
            fr = final_result(ps, prog)
            if fr is None:
                continue
            calls = [c.get("callee") for c in ps.calls]
            may_ok = (fr[0] == "const" and fr[1] == OK) or (fr[0] == "call" and fr[2].get(OK) is not False and
                                                             not any(v for k_, v in fr[2].items() if k_ != OK))
            may_err = (fr[0] == "const" and fr[1] == ERR) or (fr[0] == "call" and fr[2].get(ERR) is not False and
                                                               not any(v for k_, v in fr[2].items() if k_ != ERR))
            may_nomore = (fr[0] == "const" and fr[1] == NOMORE) or (fr[0] == "call" and fr[2].get(NOMORE) is True)
            pushed = any((c or "").startswith("SCPI_ErrorPush") for c in calls)
            if rname in calls:
                last = max(i for i, c in enumerate(calls) if c == rname)
                after = calls[last + 1:]
            else:
                after = calls
                last = -1
            if may_ok and last >= 0:
                # the path really is an OK path only if the last range call was not found != OK
                neq = [pol for a, pol in ps.facts if not isinstance(pol, tuple) and a.k == "BinaryOperator" and
                       a.get("op") == "!=" and a.child(0).strip_all_casts().get("path") == "res" and C.const_of(a.child(1)) == OK]
                if neq and neq[-1] is True:
                    pass
                else:
                    ok_paths += 1
                    if not any(c in ("scpiLex_Comma", "scpiLex_IsEos") for c in after):
                        unexamined += 1
            if may_err and not pushed:
                err_silent.append(ps)
            if wname == "SCPI_ExprChannelListEntry" and may_nomore:
                eos = [pol for a, pol in ps.facts if not isinstance(pol, tuple) and a.k == "CallExpr" and a.get("callee") == "scpiLex_IsEos"]
                if not eos or eos[-1] is not True:
                    nomore_bad.append(ps)
                # an end of list follows an entry: NO_MORE decided by the walker (itself or through a helper of its own, not
                # handed up from the range parser) needs an entry that was parsed and found OK on the same path
                own = fr[0] == "const" or (fr[0] == "call" and fr[1] is not None and fr[1].get("callee") != rname)
                if own:
                    n_nomore_const += 1
                    entry_ok = None
                    seen_range = False
                    for ev in ps.events:
                        if ev[0] == "call" and ev[1].get("callee") == rname:
                            seen_range, entry_ok = True, None
                        elif ev[0] == "branch" and seen_range and entry_ok is None and not isinstance(ev[2], tuple):
                            a = ev[1]
                            l_ = a.child(0).strip_all_casts() if a.k == "BinaryOperator" else None
                            if a.k == "BinaryOperator" and a.get("op") in ("!=", "==") and C.const_of(a.child(1)) == OK and \
                                    (l_.get("path") == "res" or (l_.k == "CallExpr" and l_.get("callee") == rname)):
                                entry_ok = (ev[2] is False) if a["op"] == "!=" else (ev[2] is True)
                    if not entry_ok:
                        nomore_empty.append(ps)
        st = K.site(f, "delimiter-after-requested-entry", 0)
        if ok_paths == 0:
            ck.anchor_lost("C19-X2", "%s has no OK path" % wname)
        elif unexamined:
            ck.violated("C19-X2", st, K.loc(f),
                        "%s can report OK for the requested entry without examining what follows it (%d of %d OK paths): a "
                        "malformed entry such as `1x` is delivered as `1`" % (wname, unexamined, ok_paths))
        else:
            ck.holds("C19-X2", st, K.loc(f), "%d OK paths, each looks at the comma / end of expression after the entry" % ok_paths)
        st = K.site(f, "error-queued", 0)
        if err_silent:
            ck.violated("C19-X3", st, K.loc(f, err_silent[0].ret_node),
                        "%s can return ERROR without queuing an error: %s" % (wname, err_silent[0].describe()[-4:]))
        else:
            ck.holds("C19-X3", st, K.loc(f), "every ERROR path queues an error (%d paths enumerated)" % len(sums))
        if wname == "SCPI_ExprChannelListEntry":
            st = K.site(f, "no-more-only-at-end", 0)
            if nomore_bad:
                ck.violated("C19-X6", st, K.loc(f, nomore_bad[0].ret_node),
                            "the channel walker can report NO_MORE although the expression has not ended: a malformed channel "
                            "list is taken for a clean end of list (no -170)", {"path": nomore_bad[0].describe()[-6:]})
            else:
                ck.holds("C19-X6", st, K.loc(f), "NO_MORE only with scpiLex_IsEos true")
            st = K.site(f, "no-more-only-behind-an-entry", 0)
            if nomore_empty:
                ck.violated("C19-X6", st, K.loc(f, nomore_empty[0].ret_node),
                            "the channel walker decides NO_MORE on a path on which no entry was parsed and found well formed: a list "
                            "without any channel (`(@)`) is reported as a clean end of list, nothing is queued",
                            {"path": nomore_empty[0].describe()[-6:]})
            elif not n_nomore_const:
                ck.anchor_lost("C19-X6", "%s: no path on which the walker itself decides NO_MORE" % wname)
            else:
                ck.holds("C19-X6", st, K.loc(f), "%d path(s) deciding NO_MORE, each behind an entry found OK" % n_nomore_const)
            # capacity passed only for the requested entry
            st = K.site(f, "capacity-for-requested-entry-only", 0)
            rc = list(f.calls(rname))
            okc = False
            if rc:
                a = C.call_args(rc[0])[5].strip_all_casts()
                if a.k == "ConditionalOperator":
                    c, t, e = a.child(0).strip_all_casts(), a.child(1).strip_all_casts(), a.child(2)
                    if c.k == "BinaryOperator" and c.get("op") == "==" and {c.child(0).strip_all_casts().get("path"), c.child(1).strip_all_casts().get("path")} == {"i", "index"} \
                            and t.get("path") == "length" and C.const_of(e) == 0:
                        okc = True
            if okc:
                ck.holds("C19-X1", st, K.loc(f, rc[0]), "(i == index) ? length : 0")
            else:
                ck.violated("C19-X1", st, K.loc(f, rc[0]) if rc else K.loc(f),
                            "skipped entries are decoded into the caller's arrays (capacity not limited to the requested entry)")


def rule_x1(ck, prog):
    BR.check_function(ck, prog, "C19-X1", "channelSpec", min_sites=1, only=lambda s: s.kind in ("store", "call"))
    # the walker itself: whatever it writes into the caller's arrays (directly or by a bulk call) stays below the capacity
    BR.check_function(ck, prog, "C19-X1", "SCPI_ExprChannelListEntry", min_sites=0, only=lambda s: s.kind in ("store", "call"))


def rule_x5(ck, prog):
    f = prog.fn("channelSpec")
    if f is None:
        ck.anchor_lost("C19-X5", "channelSpec")
        return
    ec = prog.enumconst
    OK, ERR, NOMORE = ec.get("SCPI_EXPR_OK"), ec.get("SCPI_EXPR_ERROR"), ec.get("SCPI_EXPR_NO_MORE")
    st = K.site(f, "dimension-grammar", 0)
    probs = []
    rows = set()
    for ps in P.summarize(f, max_visits=3):
        seq = []
        for e in ps.events:
            if e[0] == "branch" and e[1].k == "CallExpr":
                name = e[1].get("callee")
                if name == "scpiLex_DecimalNumericProgramData":
                    seq.append(("D", bool(e[2])))
                elif name == "scpiLex_SpecificCharacter" and C.const_of(K.arg(e[1], 2)) == ord("!"):
                    seq.append(("!", bool(e[2])))
        if not seq or ps.ret is None:
            continue
        rv = ps.ret.v if ps.ret.kind == "const" else None
        last = seq[-1]
        if seq == [("D", False)]:
            want, row = NOMORE, "nothing"
        elif last == ("D", False) and len(seq) >= 2 and seq[-2] == ("!", True):
            want, row = ERR, "dangling-!"
        elif last == ("!", False) and len(seq) >= 2 and seq[-2] == ("D", True):
            want, row = OK, "complete"
        elif last == ("!", True) or last == ("D", True):
            continue           # truncated by the visit bound
        else:
            want, row = None, "other"
        rows.add(row)
        if want is not None and rv != want:
            names = {OK: "OK", ERR: "ERROR", NOMORE: "NO_MORE"}
            probs.append("after %s channelSpec returns %s, expected %s" % (
                " ".join("%s%s" % (k_, "+" if v_ else "-") for k_, v_ in seq[-3:]), names.get(rv, rv), names.get(want)))
        if row == "complete":
            stores = [C.store_target(e[1]).get("path") for e in ps.events if e[0] == "store"]
            if "*dimensions" not in stores:
                probs.append("an OK path does not store the dimension count")
    if probs:
        ck.violated("C19-X5", st, K.loc(f), sorted(set(probs))[0] + " (D = number recognised, ! = separator recognised): a malformed "
                    "channel such as `(@1!)` is not refused", {"all": sorted(set(probs))})
    elif not {"nothing", "dangling-!", "complete"} <= rows:
        ck.anchor_lost("C19-X5", "rows of channelSpec: %s" % sorted(rows))
    else:
        ck.holds("C19-X5", st, K.loc(f), "no number: NO_MORE; number not followed by '!': OK; '!' not followed by a number: ERROR")
    ck.analysed(f)


def rule_x7(ck, prog, S):
    # which readers are called with their result ignored by the list code
    users = [prog.fn(n) for n in ("channelSpec", "numericRange", "SCPI_ExprNumericListEntryInt", "SCPI_ExprNumericListEntry")]
    ignored = set()
    for u in users:
        if u is None:
            continue
        for c in u.calls():
            nm = c.get("callee") or ""
            if nm.startswith("SCPI_ParamTo"):
                par = u.parent_of(c)
                while par is not None and par.k in ("ImplicitCastExpr", "ParenExpr"):
                    par = u.parent_of(par)
                if par is None or par.k in ("CompoundStmt", "IfStmt", "WhileStmt", "ForStmt") or par.k not in ("BinaryOperator", "UnaryOperator", "DeclStmt", "ReturnStmt", "ConditionalOperator", "CallExpr"):
                    ignored.add(nm)
    if not ignored:
        ck.anchor_lost("C19-X7", "no reader is called with its result ignored by the list walkers")
        return
    for nm in sorted(ignored):
        f = prog.fn(nm)
        if f is None:
            continue
        ck.analysed(f)
        st = K.site(f, "delivers-whenever-converted", 0)
        vp = f.params[2]["name"]
        pg = S.pg(f)
        convs = [c for c in f.calls() if (c.get("callee") or "").startswith(("ParamSignTo", "strBaseTo", "strTo"))]
        if not convs:
            ck.undecided("C19-X7", st, K.loc(f), "conversion call not found")
            continue
        direct = all(any(any(x.get("path") == vp for x in a.walk()) and not any(x.k == "ConditionalOperator" for x in a.walk())
                         for a in C.call_args(c)) for c in convs)
        if direct:
            ck.holds("C19-X7", st, K.loc(f, convs[0]), "the converter writes through the caller's pointer")
            continue
        stores = [n for n, t in C.stores(f) if t.get("path") == "*" + vp]
        gated = False
        for c in convs:
            r = pg.reachable([pg.after(c)], blocked_edge=lambda e: e.kind == "elem" and e.node in stores)
            if pg.exit in r:
                gated = True
        if gated:
            ck.violated("C19-X7", st, K.loc(f, convs[0]),
                        "%s copies the converted value to the caller only on some paths after the conversion, but channelSpec / the list "
                        "walkers call it without looking at its result: for `(3,.5)` or `(@4!6,.5!-.75)` the entry keeps the value of "
                        "the previous entry and is still reported OK" % nm)
        else:
            ck.holds("C19-X7", st, K.loc(f, convs[0]), "*%s stored on every path after the conversion" % vp)


def rule_x4(ck, prog, S):
    ec = prog.enumconst
    OK, ERR = ec.get("SCPI_EXPR_OK"), ec.get("SCPI_EXPR_ERROR")
    # channelRange
    f = prog.fn("channelRange")
    if f is None:
        ck.anchor_lost("C19-X4", "channelRange")
    else:
        sums = P.summarize(f)
        probs = []
        nok = 0
        for ps in sums:
            fr = final_result(ps, prog, var="err")
            retok = fr is not None and ((fr[0] == "const" and fr[1] == OK) or
                                        (fr[0] == "call" and fr[2].get(OK) is True))
            stores = [C.store_target(e[1]).get("path") for e in ps.events if e[0] == "store"]
            dimcmp = [pol for a, pol in ps.facts if not isinstance(pol, tuple) and a.k == "BinaryOperator" and a.get("op") == "!="
                      and "Dimensions" in a.child(0).src and "Dimensions" in a.child(1).src]
            if dimcmp and dimcmp[-1] is True and not (fr[0] == "const" and fr[1] == ERR):
                probs.append("range ends with different dimension counts are not reported as ERROR")
            colon = [pol for a, pol in ps.facts if not isinstance(pol, tuple) and a.k == "CallExpr" and a.get("callee") == "scpiLex_Colon"]
            if retok:
                nok += 1
                if "*dimensions" not in stores:
                    probs.append("an OK path does not store the dimension count")
                if "*isRange" not in stores:
                    probs.append("an OK path does not store the range flag")
                if colon and colon[-1] is True and not dimcmp:
                    probs.append("a range is reported OK without comparing the dimension counts of its two ends")
        st = K.site(f, "dimension-equality", 0)
        if probs:
            ck.violated("C19-X4", st, K.loc(f), sorted(set(probs))[0], {"all": sorted(set(probs))})
        elif nok == 0:
            ck.anchor_lost("C19-X4", "OK paths of channelRange")
        else:
            ck.holds("C19-X4", st, K.loc(f), "%d OK paths store *dimensions and *isRange; unequal ends => ERROR" % nok)
        ck.analysed(f)
    f = prog.fn("numericRange")
    if f is None:
        ck.anchor_lost("C19-X4", "numericRange")
        return
    sums = P.summarize(f)
    st = K.site(f, "range-flag", 0)
    bad = []
    nok = 0
    for ps in sums:
        if ps.ret is not None and ps.ret.kind == "const" and ps.ret.v == OK:
            nok += 1
            stores = [(C.store_target(e[1]).get("path"), C.const_of(e[1].child(1))) for e in ps.events if e[0] == "store"]
            colon = [pol for a, pol in ps.facts if not isinstance(pol, tuple) and a.k == "CallExpr" and a.get("callee") == "scpiLex_Colon"]
            want = 1 if (colon and colon[-1]) else 0
            if ("*isRange", want) not in stores:
                bad.append(ps)
    if bad:
        ck.violated("C19-X4", st, K.loc(f, bad[0].ret_node),
                    "numericRange reports OK without storing whether the entry is a range: the flag of an earlier entry is "
                    "returned for this one", {"path": bad[0].describe()})
    elif nok == 0:
        ck.anchor_lost("C19-X4", "OK paths of numericRange")
    else:
        ck.holds("C19-X4", st, K.loc(f), "%d OK paths store *isRange (TRUE after ':', FALSE otherwise)" % nok)
    ck.analysed(f)


def _conversions(prog, fn, pairs, conv, skip=None, depth=0):
    """(pairs converted, problems): every call of fn that is handed one of the token / value names must be `conv` on a
    matching (token, value) pair - or a static helper that does exactly that with its own parameters"""
    got, probs = set(), []
    names = {x for pr in pairs for x in pr}
    for c in fn.calls():
        if c is skip:
            continue
        args = [a.strip_all_casts().get("path") for a in C.call_args(c)]
        touches = [x for x in args if x in names or (x or "").lstrip("&*") in {n.lstrip("&*") for n in names}]
        if not touches:
            continue
        if c.get("callee") == conv:
            if len(args) >= 3:
                got.add((args[1], args[2]))
            continue
        g = prog.fn(c.get("callee") or "")
        if g is not None and g.static and depth < 2:
            sub = set()
            gnames = [p_["name"] for p_ in g.params]
            for tk, vl in pairs:
                if tk in args and vl in args:
                    sub.add((gnames[args.index(tk)], gnames[args.index(vl)]))
            if sub:
                g_got, g_probs = _conversions(prog, g, sub, conv, depth=depth + 1)
                probs += ["in %s: %s" % (g.name, x) for x in g_probs]
                if not g_probs and g_got == sub:
                    got |= {(tk, vl) for tk, vl in pairs if tk in args and vl in args}
                elif not g_probs:
                    probs.append("%s converts %s, expected %s" % (g.name, sorted(g_got), sorted(sub)))
                continue
        probs.append("`%s` handles the entry's %s instead of %s" % (c.src[:60], "token or value", conv))
    for n_, t in C.stores(fn):
        tp = t.get("path") or ""
        if any(tp == "*" + vl.lstrip("&") for _tk, vl in pairs):
            probs.append("`%s` stores the value itself, bypassing %s" % (n_.src[:50], conv))
    # a token parameter that is read field by field is being re-interpreted
    if depth > 0:
        for n_ in fn.nodes.values():
            if n_.k == "MemberExpr" and any((n_.child(0).strip_all_casts().get("path") or "") == tk for tk, _vl in pairs):
                probs.append("`%s` takes the token apart instead of handing it to %s" % (n_.src[:40], conv))
                break
    return got, probs


def _x8_by_trace(prog, f, conv):
    """decide X8 on the calls the wrapper ends in (every library call logged with its evaluated arguments, unknown results
    followed both ways): on every path on which the entry function was asked, each converter call is `conv` on one of the
    token objects the entry function was given and the matching value pointer of the wrapper; a wrapper that only delegates
    to a static worker with constants is judged on that worker with those constants.  None = not decidable this way."""
    from sa import interp as I
    if len(f.params) < 6:
        return None
    args = [I.Sym("arg:" + p_["name"]) for p_ in f.params]
    g = f
    for _ in range(2):
        # thin delegate: the body is one call handing on parameters and constants
        calls = [c for c in g.calls() if prog.fn(c.get("callee") or "") is not None]
        if len(calls) == 1 and prog.fn(calls[0]["callee"]).static and len(g.blocks) <= 4 and \
                calls[0]["callee"] not in ("SCPI_ExprNumericListEntry",):
            names = [p_["name"] for p_ in g.params]
            nxt = []
            for a in C.call_args(calls[0]):
                pth = a.strip_all_casts().get("path")
                cv = C.const_of(a)
                sa_ = a.strip_all_casts()
                if pth in names:
                    nxt.append(args[names.index(pth)])
                elif cv is not None:
                    nxt.append(cv)
                elif sa_.k == "DeclRefExpr" and sa_.get("decl", {}).get("kind") == "function":
                    nxt.append(("fn", sa_["decl"]["name"]))      # a converter handed over as a function pointer
                else:
                    return None
            g, args = prog.fn(calls[0]["callee"]), nxt
        else:
            break
    try:
        outs, m = I.explore(prog, g.name, args, follow=lambda n_: prog.fn(n_) is not None and prog.fn(n_).static)
    except I.Stuck:
        return None
    vfrom, vto = None, None
    vfrom, vto = "arg:" + f.params[4]["name"], "arg:" + f.params[5]["name"]
    npaths = 0
    entry_call = next((c for c in g.calls("SCPI_ExprNumericListEntry")), None)
    for out in outs:
        fr = out[1]
        log = getattr(fr, "plog", None)
        if log is None:
            return None
        ent = [(n, a) for n, a in log if n == "SCPI_ExprNumericListEntry"]
        if not ent:
            continue
        if len(ent) != 1 or len(ent[0][1]) < 6:
            return None
        tf, tt = ent[0][1][4], ent[0][1][5]
        if not isinstance(tf, I.Ptr) or not isinstance(tt, I.Ptr):
            return None
        npaths += 1
        for n, a in log:
            if n == "SCPI_ExprNumericListEntry":
                continue
            hands = [x for x in a if (isinstance(x, I.Ptr) and (x == tf or x == tt)) or
                     (isinstance(x, I.Sym) and x.name in (vfrom, vto))]
            if not hands:
                continue
            if n != conv:
                return False, "`%s` is handed the entry's token / the caller's value pointer instead of %s" % (n, conv), entry_call
            tok, val = (a[1], a[2]) if len(a) >= 3 else (None, None)
            pair_ok = (isinstance(tok, I.Ptr) and isinstance(val, I.Sym) and val.intact() and
                       ((tok == tf and val.name == vfrom) or (tok == tt and val.name == vto)))
            if not pair_ok:
                return False, "%s is applied to a token / destination pair that does not belong together" % conv, entry_call
    if not npaths:
        return None
    return True, "%d path(s) through %s: only %s on (from -> %s) and (to -> %s)" % (npaths, g.name, conv, f.params[4]["name"], f.params[5]["name"]), entry_call


def rule_x8(ck, prog, S):
    for wname, conv in (("SCPI_ExprNumericListEntryInt", "SCPI_ParamToInt32"), ("SCPI_ExprNumericListEntryDouble", "SCPI_ParamToDouble")):
        f = prog.fn(wname)
        if f is None:
            ck.anchor_lost("C19-X8", wname)
            continue
        ck.analysed(f)
        st = K.site(f, "converts-the-delivered-tokens", 0)
        verdict = _x8_by_trace(prog, f, conv)
        if verdict is not None:
            okk, text, node = verdict
            (ck.holds if okk else ck.violated)("C19-X8", st, K.loc(f, node) if node is not None else K.loc(f),
                                               text if okk else "%s: %s: the value is not the entry as written (a detour through another "
                                               "type rounds it, a bounded copy of the text cuts it)" % (wname, text))
            continue
        ent = list(f.calls("SCPI_ExprNumericListEntry"))
        if len(ent) != 1 or len(f.params) < 6:
            ck.anchor_lost("C19-X8", "%s: one call of SCPI_ExprNumericListEntry" % wname)
            continue
        ea = C.call_args(ent[0])
        tok_from, tok_to = ea[4].strip_all_casts().get("path"), ea[5].strip_all_casts().get("path")
        vfrom, vto = f.params[4]["name"], f.params[5]["name"]
        want = {(tok_from, vfrom), (tok_to, vto)}
        got, probs = _conversions(prog, f, want, conv, skip=ent[0])
        if not probs and got != want:
            probs.append("%s is applied to %s, expected %s" % (conv, sorted(got), sorted(want)))
        if probs:
            ck.violated("C19-X8", st, K.loc(f, ent[0]), "%s: %s: the value is not the entry as written (a detour through another type "
                        "rounds it, a bounded copy of the text cuts it)" % (wname, "; ".join(list(dict.fromkeys(probs))[:3])))
        else:
            ck.holds("C19-X8", st, K.loc(f, ent[0]), "%s(&%s -> %s), %s(&%s -> %s)" % (conv, tok_from, vfrom, conv, tok_to, vto))


def run(ck, fb, tier):
    for cfg in fb.configs:
        ck.config = cfg
        prog = fb[cfg]
        S = K.summaries(prog)
        rule_x1(ck, prog)
        rule_walkers(ck, prog, S)
        rule_x4(ck, prog, S)
        rule_x5(ck, prog)
        rule_x7(ck, prog, S)
        rule_x8(ck, prog, S)
    if tier == "thorough":
        K.cross_config(ck, fb, "C19-XC", ['numericRange', 'channelRange', 'channelSpec', 'SCPI_ExprNumericListEntry', 'SCPI_ExprChannelListEntry'])


TECHNIQUE = ("static analysis: decision tables of the list walkers by exhaustive path enumeration with result tracking, "
             "must-examine / must-queue obligations per returning path, bounds engine for the dimension arrays")
LEVEL_TEXT = ("Clause-level static decision over all CFG paths of the walkers (all list contents, indices and capacities, "
              "since rows are per path). Values 'exactly as written' are conversion (C04) and not decided here.")
LEVEL_NOTE = "Trusted: clang CFG, extractor. The lexer recognisers the walkers call are covered by C13."
DESIGN_REF = "DESIGN.md section 5, C19"
