"""Cursor discipline model of the lexer (shared by C01 and C13).

A *cursor* is an object of type lex_state_t {buffer, pos, len}, named by the access path of the
object ("state" for a pointer parameter, "lex_state" for a local struct, ...).  G(B) = "the
end-of-input test on B was false since the last change of B" is a forward must-dataflow."""
from sa import cfg as C

LEX = "_lex_state_t"
EOS_TESTS = ("iseos", "scpiLex_IsEos")


def base_of_member(node):
    """for a MemberExpr naming a field of a lex_state_t: (base path, field)"""
    if node.k != "MemberExpr" or node.get("record") != LEX:
        return None
    p = node.get("path")
    if not p:
        return None
    f = node["member"]
    if p.endswith("->" + f):
        return p[:-len("->" + f)], f
    if p.endswith("." + f):
        return p[:-len("." + f)], f
    return None


def arg_base(arg):
    """base path named by an argument of type lex_state_t* : `state` or `&lex_state`"""
    s = arg.strip_all_casts()
    t = (s.get("ct") or "")
    if "_lex_state_t" not in t:
        return None
    p = s.get("path")
    if not p:
        return None
    return p[1:] if p.startswith("&") else p


class LexModel:
    def __init__(self, prog, S):
        self.prog, self.S = prog, S
        self.raw = {}       # function name -> set of parameter indices read without guard
        self.sites = {}     # function name -> list of site dicts
        self._g = {}
        self.fns = [f for f in prog.functions.values() if self.uses_cursor(f)]
        self._fixpoint()

    def uses_cursor(self, f):
        for n in f.nodes.values():
            if n.k == "MemberExpr" and n.get("record") == LEX:
                return True
        return False

    # ---- G dataflow ---------------------------------------------------------------------
    def writes_cursor(self, call):
        """bases whose cursor a call may modify"""
        out = set()
        name = call.get("callee")
        mw = self.S.may_write(name) if name else {"*"}
        for a in C.call_args(call):
            b = arg_base(a)
            if b is None:
                continue
            if mw is None or mw & {"pos", "buffer", "len", "*", "*deref"}:
                out.add(b)
        return out

    def g_states(self, f):
        if f.name in self._g:
            return self._g[f.name]
        pg = self.S.pg(f)

        def transfer(state, e):
            if e.kind == "edge":
                lab = e.label
                if lab[0] in ("true", "false") and lab[1] is not None:
                    add = set()
                    for atom, pol in C.cond_facts(lab[1], lab[0] == "true"):
                        if atom.k == "CallExpr" and atom.get("callee") in EOS_TESTS and pol is False:
                            b = arg_base(C.call_args(atom)[0])
                            if b:
                                add.add(b)
                    if add:
                        return state | frozenset(add)
                return state
            n = e.node
            t = C.store_target(n)
            if t is not None:
                bm = base_of_member(t)
                if bm:
                    return state - {bm[0]}
                # whole-struct assignment of a cursor
                if (t.get("ct") or "").endswith(LEX) and t.get("path"):
                    return state - {t["path"]}
                return state
            if n.k == "CallExpr":
                w = self.writes_cursor(n)
                if w:
                    return state - w
            return state

        st = pg.must(transfer)
        self._g[f.name] = (pg, st)
        return pg, st

    def room_for(self, f, node, base, k):
        """is `base->pos + k < base->buffer + base->len` (k more bytes after the current one exist) a branch fact at node ?"""
        from . import common as K
        facts = K.facts_at(self.S, f, node) or []
        sep = "->" if not base.endswith(")") else "->"
        for atom, pol in facts:
            if isinstance(pol, tuple) or atom.k != "BinaryOperator" or atom.get("op") not in ("<", "<=", ">", ">="):
                continue
            txt = atom.src.replace(" ", "").replace("(", "").replace(")", "")
            for b_ in (base + "->", base + "."):
                lhs = "%spos+%d" % (b_, k)
                rhs = "%sbuffer+%slen" % (b_, b_)
                if pol is True and txt in ("%s<%s" % (lhs, rhs), "%s>%s" % (rhs, lhs)):
                    return True
                lhs2 = "%spos+%d" % (b_, k + 1)
                if pol is True and txt in ("%s<=%s" % (lhs2, rhs), "%s>=%s" % (rhs, lhs2)):
                    return True
        return False

    # ---- sites --------------------------------------------------------------------------
    def collect(self, f):
        """read / advance / retreat / jump / restore sites of f with their G verdict"""
        pg, st = self.g_states(f)
        sites = []
        for n in f.nodes.values():
            p = pg.before(n)
            if p is None or p not in st:
                continue
            g = st[p]
            if n.k == "ArraySubscriptExpr" or (n.k == "UnaryOperator" and n.get("op") == "*"):
                inner = n.child(0).strip()
                bm = base_of_member(inner) if inner.k == "MemberExpr" else None
                if bm and bm[1] == "pos":
                    par = f.parent_of(n)
                    # rvalue read (all uses in the lexer are reads); pos[k] with k > 0 is a look-ahead that needs its own room test
                    k_ = C.const_of(n.child(1)) if n.k == "ArraySubscriptExpr" else 0
                    if k_ in (0, None):
                        sites.append({"kind": "read", "node": n, "base": bm[0], "ok": bm[0] in g and k_ == 0})
                    else:
                        sites.append({"kind": "read", "node": n, "base": bm[0], "ok": k_ > 0 and self.room_for(f, n, bm[0], k_)})
            elif n.k == "CallExpr" and n.get("callee") in self.raw:
                for i in self.raw[n["callee"]]:
                    a = C.call_args(n)
                    if i < len(a):
                        b = arg_base(a[i])
                        if b:
                            sites.append({"kind": "read-via", "node": n, "base": b, "ok": b in g,
                                          "via": n["callee"]})
            t = C.store_target(n)
            if t is not None:
                bm = base_of_member(t)
                if bm and bm[1] == "pos":
                    is_adv = (n.k == "UnaryOperator" and n.get("op") == "++") or \
                             (n.get("op") == "+=" and C.const_of(n.child(1)) == 1)
                    if n.get("op") == "=":
                        r_ = n.child(1).strip_all_casts()
                        if r_.k == "BinaryOperator" and r_.get("op") == "+" and C.const_of(r_.child(1)) == 1:
                            l_ = r_.child(0).strip_all_casts()
                            if l_.k == "MemberExpr" and base_of_member(l_) == bm:
                                is_adv = True
                    if is_adv:
                        sites.append({"kind": "advance", "node": n, "base": bm[0], "ok": bm[0] in g})
                    elif n.k == "UnaryOperator" and n.get("op") == "--":
                        sites.append({"kind": "retreat", "node": n, "base": bm[0], "ok": None})
                    elif n.get("op") == "+=" and (C.const_of(n.child(1)) or 0) >= 2:
                        # advance over k characters that a look-ahead has examined
                        k_ = C.const_of(n.child(1))
                        sites.append({"kind": "advance", "node": n, "base": bm[0], "width": k_,
                                      "ok": self.room_for(f, n, bm[0], k_ - 1)})
                    elif n.get("op") == "+=":
                        sites.append({"kind": "jump", "node": n, "base": bm[0], "ok": None})
                    elif n.get("op") == "=":
                        sites.append({"kind": "restore", "node": n, "base": bm[0], "ok": None})
                    else:
                        sites.append({"kind": "other-store", "node": n, "base": bm[0], "ok": False})
        return sites

    def _fixpoint(self):
        changed = True
        rounds = 0
        while changed and rounds < 6:
            changed = False
            rounds += 1
            for f in self.fns:
                sites = self.collect(f)
                self.sites[f.name] = sites
                if not f.static:
                    continue
                # a static helper with an unguarded read of a *parameter* cursor is a raw reader
                pidx = {p["name"]: i for i, p in enumerate(f.params)}
                raw = set()
                for s in sites:
                    if s["kind"] in ("read", "read-via") and not s["ok"] and s["base"] in pidx:
                        raw.add(pidx[s["base"]])
                if raw and self.raw.get(f.name) != raw:
                    self.raw[f.name] = raw
                    changed = True
        for f in self.fns:
            self.sites[f.name] = self.collect(f)
