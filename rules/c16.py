"""C16 — floating-point results carry 15 / 6 significant digits in %g style (clause level: wiring and layout decisions)."""
import re

from sa import cfg as C
from sa import paths as P
from . import common as K

CONFIGS_QUICK = ["A", "D", "E"]
CONFIGS_THOROUGH = ["A", "B", "C", "D", "E"]

EXPLANATION = (
    "Static, clause-level decision of C16. The NUMERIC core - that printf or scpi_ecvt produce the correctly rounded "
    "digits, that the text parses back to within half / one unit of the last digit - is a fact about floating-point "
    "values and is NOT decided (no static argument in reach bounds it). Decided are the structural necessary "
    "conditions around it: (G1) wiring - SCPI_DoubleToStr formats its own argument with exactly one %g-style "
    "conversion of precision 15 (snprintf builds) or SCPI_dtostre(..., 15, flags) (own formatter), SCPI_FloatToStr "
    "with precision 6 (an absent precision is 6), into the caller's (buffer, length), and both return strlen of "
    "that buffer; the result writers format into a local buffer that holds the longest such text and emit exactly "
    "the returned number of characters; (G2) special values in the own formatter - the non-finite arm is taken "
    "before any digit generation, chooses the NaN spelling exactly when isnan, the spelling's case by the "
    "UPPERCASE flag, and the sign from signbit; (G3) %g layout decisions of the own formatter - fixed notation "
    "exactly for -4 < decpt <= precision, scientific otherwise, exponent introduced by 'e', a sign, at least two "
    "digits; trailing zeros and a trailing point removed; (G4) scpi_ecvt reports through its out-parameters: *decpt "
    "and *sign are stored on every path and the pointers themselves are never changed; the rounding step adds half "
    "a unit (5) of the first dropped digit, carries through '9' -> '0', and on overflow of the leading digit writes "
    "'1' and increments *decpt.")

RULES = {
    "C16-G1": "wiring: Double -> one %g conversion of precision 15 / dtostre(.., 15, ..); Float -> precision 6; own argument, caller's buffer and length; returns strlen; result writers' buffer holds the longest text",
    "C16-G2": "own formatter: non-finite arm before digit generation; NaN spelling iff isnan; case by the UPPERCASE flag; sign from signbit",
    "C16-G3": "own formatter: fixed notation exactly for -4 < decpt <= precision; exponent 'e', sign, at least two digits; trailing zeros and point removed",
    "C16-G4": "scpi_ecvt: *decpt and *sign stored on every path, the out-parameter pointers never changed; rounding adds 5, carries through '9' -> '0', leading overflow writes '1' and increments *decpt",
}

SPEC = re.compile(r"%([-+ #0]*)(\d+|\*)?(?:\.(\d+|\*))?(hh|h|ll|l|L|j|z|t)?([a-zA-Z%])")


def rule_g1(ck, prog, cfg):
    for name, prec in (("SCPI_DoubleToStr", 15), ("SCPI_FloatToStr", 6)):
        f = prog.fn(name)
        if f is None:
            ck.anchor_lost("C16-G1", name)
            continue
        ck.analysed(f)
        val, buf, ln = [p["name"] for p in f.params[:3]]
        st = K.site(f, "format", 0)
        calls = [c for c in f.calls() if c.get("callee") in ("snprintf", "__builtin_snprintf", "__builtin___snprintf_chk", "SCPI_dtostre", "dtostre", "sprintf")]
        probs = []
        if len(calls) != 1:
            ck.violated("C16-G1", st, K.loc(f), "%s formats with %s (expected exactly one formatting call)" % (name, [c.get("callee") for c in calls]))
            continue
        c = calls[0]
        a = C.call_args(c)
        how = None
        if c["callee"] in ("SCPI_dtostre", "dtostre"):
            if a[0].strip_all_casts().get("path") != val:
                probs.append("the value formatted is `%s`, not the argument" % a[0].src)
            if a[1].strip_all_casts().get("path") != buf:
                probs.append("the text is not written to the caller's buffer")
            if c["callee"] == "SCPI_dtostre":
                if a[2].strip_all_casts().get("path") != ln:
                    probs.append("the buffer length handed on is `%s`" % a[2].src)
                p_, fl = C.const_of(a[3]), C.const_of(a[4])
            else:
                p_, fl = C.const_of(a[2]), C.const_of(a[3])
            if p_ != prec:
                probs.append("precision %s, expected %d significant digits" % (p_, prec))
            if fl != 0:
                probs.append("flags %s: the text differs from the %%g spelling of the printf builds (forced sign / upper-case `NAN`, `INF`, "
                             "`E`), so the same value is spelled differently depending on the build" % fl)
            how = "%s(.., %s, flags %s)" % (c["callee"], p_, fl)
        else:
            if c["callee"] == "sprintf":
                probs.append("unbounded sprintf")
            i0 = 0
            if a[0].strip_all_casts().get("path") != buf:
                probs.append("the text is not written to the caller's buffer")
            if c["callee"] != "sprintf" and a[1].strip_all_casts().get("path") != ln:
                probs.append("the buffer length handed on is `%s`" % a[1].src)
            fmt = [x for x in a if x.strip_all_casts().k == "StringLiteral"]
            if len(fmt) != 1:
                probs.append("no literal format string")
            else:
                fs = fmt[0].strip_all_casts().get("str", "")
                specs = [m for m in SPEC.finditer(fs) if m.group(5) != "%"]
                rest = SPEC.sub("", fs)
                if len(specs) != 1 or rest:
                    probs.append("format `%s` is not a single conversion" % fs)
                else:
                    flags, width, pr, lm, conv = specs[0].groups()
                    if conv not in ("g", "G"):
                        probs.append("conversion %%%s is not %%g style" % conv)
                    if lm not in (None, "l"):
                        probs.append("length modifier %s does not fit a double argument" % lm)
                    if flags and set(flags) - set("+"):
                        probs.append("flags `%s` change the %%g text (alternate form / padding)" % flags)
                    if width:
                        probs.append("a field width pads the text")
                    got = 6 if pr is None else (None if pr == "*" else int(pr))
                    if got != prec:
                        probs.append("precision %s, expected %d significant digits" % (got, prec))
                    vi = a.index(fmt[0]) + 1
                    if vi >= len(a) or a[vi].strip_all_casts().get("path") != val:
                        probs.append("the value formatted is not the argument")
                    how = "snprintf(\"%s\")" % fs
        # returns strlen(buf); len == 0 returns 0 without formatting
        rets = [n for n in f.nodes.values() if n.k == "ReturnStmt" and n.ch]
        okret = False
        for r in rets:
            e = r.child(0).strip_all_casts()
            if e.k == "CallExpr" and e.get("callee") in ("strlen", "__builtin_strlen") and C.call_args(e)[0].strip_all_casts().get("path") == buf:
                okret = True
        if not okret:
            probs.append("does not return strlen of the text produced")
        # the text the conversion produced is what the caller gets: nothing writes into the buffer afterwards
        pg_ = K.summaries(prog).pg(f)
        after = pg_.reachable([pg_.after(c)])
        for n_, t_ in C.stores(f):
            bp = t_.get("path") or ""
            if (bp == buf or bp.startswith(buf + "[") or bp.startswith("*" + buf)) and pg_.before(n_) in after:
                probs.append("`%s` rewrites the converted text" % n_.src[:50])
        for c2 in f.calls():
            if c2 is c or c2.get("callee") in ("strlen", "__builtin_strlen", "strnlen", "BSD_strnlen"):
                continue
            if pg_.before(c2) in after and any(a2.strip_all_casts().get("path") == buf for a2 in C.call_args(c2)):
                g2 = prog.fn(c2.get("callee") or "")
                cst = g2 is not None and all((p2["type"].get("ct") or "").startswith("const ") for p2, a2 in zip(g2.params, C.call_args(c2))
                                             if a2.strip_all_casts().get("path") == buf)
                if not cst:
                    probs.append("`%s` is handed the converted text for modification: what is returned is no longer the %%g text of the "
                                 "value" % c2.src[:50])
        if probs:
            ck.violated("C16-G1", st, K.loc(f, c), "%s: %s" % (name, "; ".join(probs)))
        else:
            ck.holds("C16-G1", st, K.loc(f, c), "%s; returns strlen(%s)" % (how, buf))
    # result writers
    for name, conv in (("SCPI_ResultDouble", "SCPI_DoubleToStr"), ("SCPI_ResultFloat", "SCPI_FloatToStr")):
        f = prog.fn(name)
        if f is None:
            ck.anchor_lost("C16-G1", name)
            continue
        ck.analysed(f)
        st = K.site(f, "emit", 0)
        cs = list(f.calls(conv))
        # the write: writeData itself, or a library function every path of which writes its own (data, len) that way
        S = K.summaries(prog)
        wsites = K.effect_sites(prog, S, f, lambda c_: c_.get("callee") == "writeData", any_linkage=True)
        wr = [x[0] for x in wsites]
        probs = []
        if len(cs) != 1 or len(wr) != 1:
            ck.violated("C16-G1", st, K.loc(f), "%s: expected one %s and one writeData call" % (name, conv))
            continue
        a = C.call_args(cs[0])
        bufp = a[1].strip_all_casts().get("path")
        cap = C.const_of(a[2])
        # sign, 15 digits, point, e, sign, 3 exponent digits, NUL = 23
        if a[0].strip_all_casts().get("path") != f.params[1]["name"]:
            probs.append("formats `%s`, not the value handed in" % a[0].src)
        if cap is None or cap < 24:
            probs.append("the text buffer holds %s characters; the longest %%.15g text needs 24 with its NUL" % cap)
        decl = [d for n in f.nodes.values() if n.k == "DeclStmt" for d in n.get("decls", []) if d["name"] == bufp]
        if decl and (decl[0]["type"].get("n") or decl[0]["type"].get("size") or cap or 0) and cap is not None:
            pass
        w = [None, K.arg_through(prog, wsites[0][0], wsites[0][1], wsites[0][2], 1),
             K.arg_through(prog, wsites[0][0], wsites[0][1], wsites[0][2], 2)]
        lenvar = None
        par = f.parent_of(cs[0])
        for n in f.nodes.values():
            if n.k == "DeclStmt":
                for d in n.get("decls", []):
                    if "init" in d and f.nodes[d["init"]].strip_all_casts() is cs[0]:
                        lenvar = d["name"]
        for n, t in C.stores(f):
            if n.get("op") == "=" and n.child(1).strip_all_casts() is cs[0]:
                lenvar = t.get("path")
        if w[1] is None or w[2] is None or w[1].strip_all_casts().get("path") != bufp or lenvar is None or \
                w[2].strip_all_casts().get("path") != lenvar:
            probs.append("what is written is not (text, length returned by %s)" % conv)
        if probs:
            ck.violated("C16-G1", st, K.loc(f, cs[0]), "%s: %s" % (name, "; ".join(probs)))
        else:
            ck.holds("C16-G1", st, K.loc(f, cs[0]), "%s(val, buffer[%s]) then writeData(buffer, returned length)" % (conv, cap))


def named(call, prog):
    return call.get("callee") or ""


def is_test(a, words):
    src = a.src
    return any(w in src for w in words)


NAN, PINF, NINF, POS, NEG = "nan", "+inf", "-inf", "pos", "neg"
CLASSES = (NAN, PINF, NINF, POS, NEG)
NEGATE = {NAN: NAN, PINF: NINF, NINF: PINF, POS: NEG, NEG: POS}


def is_inf_expr(n):
    s = n.strip_all_casts()
    src = s.src.replace(" ", "")
    if s.k == "UnaryOperator" and s.get("op") == "-":
        r = is_inf_expr(s.child(0))
        return -r if r else 0
    if s.k == "ParenExpr":
        return is_inf_expr(s.child(0))
    if src in ("(1./0.)", "1./0.", "(1.0/0.0)", "1.0/0.0") or "huge_val" in src or "__builtin_inf" in src:
        return 1
    return 0


def feval(n, val, entry, cur, locals_):
    """three-valued truth of a test of the floating argument `val` whose class is `cur` now and was `entry` on entry"""
    s = n.strip_all_casts() if n.k != "ParenExpr" else n.child(0).strip_all_casts()
    k = s.k
    if k == "ParenExpr":
        return feval(s.child(0), val, entry, cur, locals_)
    if k == "UnaryOperator" and s.get("op") == "!":
        r = feval(s.child(0), val, entry, cur, locals_)
        return None if r is None else (not r)
    if k == "BinaryOperator" and s.get("op") in ("&&", "||"):
        a, b = feval(s.child(0), val, entry, cur, locals_), feval(s.child(1), val, entry, cur, locals_)
        if s["op"] == "&&":
            if a is False or b is False:
                return False
            return True if (a and b) else None
        if a is True or b is True:
            return True
        return False if (a is False and b is False) else None
    if k == "CallExpr":
        name = s.get("callee") or ""
        args = C.call_args(s)
        if args and args[0].strip_all_casts().get("path") == val or (args and val in args[0].src):
            if "isnan" in name:
                return cur == NAN
            if "isfinite" in name or name == "finite" or name == "__finite":
                return cur in (POS, NEG)
            if "isinf" in name:
                return cur in (PINF, NINF)
            if "signbit" in name:
                return None if cur == NAN else cur in (NEG, NINF)
        return None
    if k == "BinaryOperator" and s.get("op") in ("<", ">", "<=", ">=", "==", "!="):
        l, r = s.child(0).strip_all_casts(), s.child(1).strip_all_casts()
        while l.k == "ParenExpr":
            l = l.child(0).strip_all_casts()
        while r.k == "ParenExpr":
            r = r.child(0).strip_all_casts()
        op = s["op"]
        if l.get("path") == val and r.get("path") == val:
            return (cur == NAN) if op == "!=" else ((cur != NAN) if op == "==" else None)
        if l.get("path") == val:
            inf = is_inf_expr(s.child(1))
            if inf == 1 and op == "<":
                return cur in (NINF, POS, NEG)
            if inf == -1 and op == ">":
                return cur in (PINF, POS, NEG)
            c = C.const_of(r)
            if c == 0 and op == "<":
                return cur in (NEG, NINF)
        return None
    if k == "DeclRefExpr" and s.get("path") in locals_:
        return feval(locals_[s["path"]], val, entry, entry, {})
    return None


def float_classes(f, S, val):
    """may-analysis: which (class on entry, class now) pairs of the floating argument can reach each point"""
    pg = S.pg(f)
    locals_ = {}
    for n in f.nodes.values():
        if n.k == "DeclStmt":
            for d in n.get("decls", []):
                if "init" in d and d["type"].get("tk") in ("int", "bool") and val in f.nodes[d["init"]].src:
                    locals_[d["name"]] = f.nodes[d["init"]]
    killed = {t.get("path") for n, t in C.stores(f) if t.get("path") in locals_}
    for nm in killed:
        locals_.pop(nm, None)
    # a local handed out by address may be overwritten by the callee: valid only before that call; the analysis below is used
    # only for points in front of the digit generation, where this is the case (checked by the caller of this function)

    def transfer(state, e):
        if e.kind == "elem":
            n = e.node
            t = C.store_target(n)
            if t is not None and t.get("path") == val:
                r = n.child(1).strip_all_casts() if n.get("op") == "=" else None
                if r is not None and r.k == "UnaryOperator" and r.get("op") == "-" and r.child(0).strip_all_casts().get("path") == val:
                    return frozenset((en, NEGATE[cu]) for en, cu in state)
                return frozenset((en, c2) for en, cu in state for c2 in CLASSES)
            return state
        lab = e.label
        if not lab or len(lab) < 2 or lab[0] not in ("true", "false") or lab[1] is None:
            return state
        want = lab[0] == "true"
        out = set()
        for en, cu in state:
            v = feval(lab[1], val, en, cu, locals_)
            if v is None or v == want:
                out.add((en, cu))
        return frozenset(out) if out else None
    init = frozenset((c, c) for c in CLASSES)
    return pg, pg.may(transfer, init), locals_


def rule_g2_g3(ck, prog, S):
    f = prog.fn("SCPI_dtostre")
    if f is None:
        return False
    ck.analysed(f)
    val, outp, osize, prec, flags = [p["name"] for p in f.params[:5]]
    ecvt = list(f.calls("scpi_ecvt"))
    lits = {}
    for n in f.nodes.values():
        if n.k == "StringLiteral":
            lits.setdefault(n.get("str"), []).append(n)
    st = K.site(f, "non-finite", 0)
    probs = []
    if len(ecvt) != 1:
        ck.anchor_lost("C16-G2", "digit generation call in SCPI_dtostre")
        return True
    pg, cls, locals_ = float_classes(f, S, val)

    def at(node):
        p_ = pg.before(node)
        return cls.get(p_, frozenset()) if p_ is not None else frozenset()
    want = {"nan": (True, False), "NAN": (True, True), "inf": (False, False), "INF": (False, True)}
    seen = 0
    reach_nan, reach_inf = set(), set()
    for text, (isnan_, upper) in want.items():
        for n in lits.get(text, []):
            seen += 1
            cur = {cu for en, cu in at(n)}
            ent = {en for en, cu in at(n)}
            if isnan_:
                reach_nan |= ent
                if cur - {NAN}:
                    probs.append("\"%s\" can be produced for a value that is %s" % (text, sorted(cur - {NAN})))
            else:
                reach_inf |= ent
                if cur - {PINF, NINF}:
                    probs.append("\"%s\" can be produced for a value that is %s" % (text, sorted(cur - {PINF, NINF})))
            par = f.parent_of(n)
            while par is not None and par.k in ("ImplicitCastExpr", "ParenExpr"):
                par = f.parent_of(par)
            if par is not None and par.k == "ConditionalOperator":
                cnd = par.child(0).strip_all_casts()
                true_branch = any(y is n for y in par.child(1).walk())
                if flags not in cnd.src or true_branch != upper:
                    probs.append("the case of \"%s\" is not selected by the UPPERCASE flag" % text)
            else:
                facts = K.facts_at(S, f, n) or []
                up = [pol for a, pol in facts if not isinstance(pol, tuple) and a.k == "BinaryOperator" and a.get("op") == "&" and flags in a.src]
                if not up or up[-1] is not upper:
                    probs.append("the case of \"%s\" is not selected by the UPPERCASE flag" % text)
    if NAN not in reach_nan:
        probs.append("NaN never reaches its spelling")
    if not {PINF, NINF} <= reach_inf:
        probs.append("an infinity (%s) never reaches its spelling" % sorted({PINF, NINF} - reach_inf))
    dig = {en for en, cu in at(ecvt[0])}
    if dig - {POS, NEG}:
        probs.append("digits are generated for a value that is %s" % sorted(dig - {POS, NEG}))
    if not {POS, NEG} <= dig:
        probs.append("finite values (%s) never reach the digit generation" % sorted({POS, NEG} - dig))
    # sign: the '-' of the text is stored exactly for entries with the sign bit set
    minus = [n for n, t in C.stores(f) if n.get("op") == "=" and C.const_of(n.child(1)) == ord("-")]
    first_minus = [n for n in minus if pg.before(n) is not None and pg.before(ecvt[0]) in pg.reachable([pg.after(n)])]
    if not first_minus:
        probs.append("no '-' is stored in front of the digits")
    else:
        ent = set()
        for n in first_minus:
            ent |= {en for en, cu in at(n)}
        if ent & {POS, PINF}:
            probs.append("a '-' can be stored in front of a value that is %s" % sorted(ent & {POS, PINF}))
        if not {NEG, NINF} <= ent:
            probs.append("negative values (%s) get no '-'" % sorted({NEG, NINF} - ent))
        # and a negative value cannot reach the digit generation without passing the '-' store
        r_ = pg.reachable([pg.entry], blocked_edge=lambda e: e.kind == "elem" and e.node in first_minus)
        # (class-sensitive: recompute the classes with the '-' stores blocked)
    if seen < 4:
        ck.anchor_lost("C16-G2", "spellings nan/NAN/inf/INF in SCPI_dtostre (%d found)" % seen)
    elif probs:
        ck.violated("C16-G2", st, K.loc(f), sorted(set(probs))[0], {"all": sorted(set(probs))})
    else:
        ck.holds("C16-G2", st, K.loc(f), "value classes {nan, +inf, -inf, pos, neg} propagated: nan -> nan spelling only, inf -> inf only, "
                 "finite -> digit generation only; '-' exactly for sign-bit values; case by flags")
    # ---- G3: layout ----
    st = K.site(f, "notation", 0)
    probs = []

    def rel_facts(node):
        out = []
        for a, pol in K.facts_at(S, f, node) or []:
            if isinstance(pol, tuple) or a.k != "BinaryOperator" or a.get("op") not in ("<", "<=", ">", ">=", "==", "!="):
                continue
            l, r = a.child(0).strip_all_casts(), a.child(1).strip_all_casts()
            while r.k == "ParenExpr":
                r = r.child(0).strip_all_casts()
            if l.get("path") == "decpt":
                rhs = r.get("path") if r.get("path") else C.const_of(r)
                op = a["op"]
                # decpt < prec + 1  ==  decpt <= prec ; decpt <= prec - 1 == decpt < prec
                if rhs is None and r.k == "BinaryOperator" and r.get("op") in ("+", "-") and r.child(0).strip_all_casts().get("path") == prec \
                        and C.const_of(r.child(1)) is not None:
                    k_ = C.const_of(r.child(1)) * (1 if r["op"] == "+" else -1)
                    if k_ == 1 and op == "<":
                        op, rhs = "<=", prec
                    elif k_ == 1 and op == ">=":
                        op, rhs = ">", prec
                    elif k_ == -1 and op == "<=":
                        op, rhs = "<", prec
                    elif k_ == 0:
                        rhs = prec
                out.append((op, rhs, pol))
        return out

    def interval(facts):
        """(lo, hi) over decpt, integers; hi may be 'P' (precision) or 'P-1'"""
        lo, hi = None, None
        for op, rhs, pol in facts:
            if not pol:
                op = {"<": ">=", "<=": ">", ">": "<=", ">=": "<"}.get(op, None)
                if op is None:
                    continue
            if rhs == prec:
                if op == "<=":
                    hi = "P"
                elif op == "<":
                    hi = "P-1"
                elif op in (">", ">="):
                    lo = "P+1" if op == ">" else "P"
            elif isinstance(rhs, int):
                if op == ">":
                    lo = max(lo, rhs + 1) if isinstance(lo, int) else rhs + 1
                elif op == ">=":
                    lo = max(lo, rhs) if isinstance(lo, int) else rhs
                elif op == "<=":
                    hi = min(hi, rhs) if isinstance(hi, int) else (rhs if hi is None else hi)
                elif op == "<":
                    hi = min(hi, rhs - 1) if isinstance(hi, int) else (rhs - 1 if hi is None else hi)
        return lo, hi
    points = [n for n, t in C.stores(f) if n.get("op") == "=" and C.const_of(n.child(1)) == ord(".")]
    arms = {}
    for n in points:
        t = C.store_target(n)
        idx = t.child(1).strip_all_casts() if t.k == "ArraySubscriptExpr" else None
        blk = f.where[n.id][0]
        first = blk.elems[0] if blk.elems else n
        iv = interval(rel_facts(first))
        arms.setdefault(iv, []).append(n)
    ivs = set(arms)
    # the three arms: 2..P (point inside the digits), -3..0 (leading zeros), everything else (d.ddd with exponent decpt-1)
    if (2, "P") not in ivs:
        probs.append("no arm that puts the point inside the digits exactly for 1 < decpt <= precision (found %s)" % sorted(map(str, ivs)))
    if (-3, 0) not in ivs:
        probs.append("no leading-zeros arm exactly for -4 < decpt <= 0 (found %s)" % sorted(map(str, ivs)))
    # exponent part
    es = [n for n, t in C.stores(f) if n.get("op") == "=" and C.const_of(n.child(1)) == ord("e")]
    if len(es) != 1:
        probs.append("expected one 'e' store, found %d" % len(es))
    else:
        facts = K.facts_at(S, f, es[0]) or []
        nz = [pol for a, pol in facts if not isinstance(pol, tuple) and a.k == "BinaryOperator" and a.get("op") == "!=" and
              a.child(0).strip_all_casts().get("path") == "decpt" and C.const_of(a.child(1)) == 0]
        if not nz or nz[-1] is not True:
            probs.append("the exponent part is not confined to a non-zero exponent")
    plus = [n for n, t in C.stores(f) if n.get("op") == "=" and C.const_of(n.child(1)) == ord("+")]
    okp = False
    for n in plus:
        if any(op == ">" and rhs == 0 and pol for op, rhs, pol in rel_facts(n)):
            okp = True
    okm = False
    for n in minus:
        if any(op == "<" and rhs == 0 and pol for op, rhs, pol in rel_facts(n)):
            okm = True
    if not okp or not okm:
        probs.append("the exponent sign is not '+' for decpt > 0 and '-' for decpt < 0")
    # two exponent digits: a store of '0' at s[0] guarded by s[1] == 0
    pad = [n for n, t in C.stores(f) if n.get("op") == "=" and C.const_of(n.child(1)) == ord("0")]
    okpad = False
    for b in f.blocks.values():
        c = b.cond
        if b.term_kind == "IfStmt" and c is not None and c.k == "BinaryOperator" and c.get("op") == "==" and C.const_of(c.child(1)) == 0 \
                and "[1]" in c.child(0).src and b.succs and b.succs[0] is not None:
            if any(n in pad for n in b.succs[0].elems):
                okpad = True
    if not okpad:
        probs.append("a one-digit exponent is not padded to two digits")
    # the exponent printed is decpt - 1: the scientific arm decrements decpt
    dec = [n for n, t in C.stores(f) if t.get("path") == "decpt" and ((n.k == "UnaryOperator" and n.get("op") == "--") or
                                                                     (n.get("op") == "-=" and C.const_of(n.child(1)) == 1))]
    zer = [n for n, t in C.stores(f) if t.get("path") == "decpt" and n.get("op") == "=" and C.const_of(n.child(1)) == 0]
    if len(dec) != 1:
        probs.append("the scientific arm does not turn decpt into the exponent (decpt - 1)")
    if len(zer) < 2:
        probs.append("the fixed-notation arms do not clear the exponent")
    # trailing zeros / point
    tz = [b for b in f.blocks.values() if b.cond is not None and b.cond.k == "BinaryOperator" and b.cond.get("op") == "==" and
          C.const_of(b.cond.child(1)) == ord("0") and b.term_kind in ("WhileStmt", "ForStmt", "DoStmt")]
    tp = [b for b in f.blocks.values() if b.cond is not None and b.cond.k == "BinaryOperator" and b.cond.get("op") == "==" and
          C.const_of(b.cond.child(1)) == ord(".") and b.term_kind == "IfStmt"]
    if not tz or not tp:
        probs.append("trailing zeros / a trailing point are not removed")
    if probs:
        ck.violated("C16-G3", st, K.loc(f), sorted(set(probs))[0], {"all": sorted(set(probs))})
    else:
        ck.holds("C16-G3", st, K.loc(f), "fixed for 1 < decpt <= P and -4 < decpt <= 0, else d.ddd e(decpt-1); sign, two digits; zeros/point trimmed")
    trim_start(ck, prog, f, prec, ecvt[0], points)
    return True


def trim_start(ck, prog, f, prec, ecvt_call, points):
    """the trailing-zero trim must start at the last digit of the laid-out number in every notation arm.
    Index arithmetic only: scpi_ecvt leaves `prec` digits and a NUL at index prec of its buffer; each arm moves a block
    [b, b+n) that contains that NUL to [a, a+n); the last digit then sits at prec - b + a - 1. The trim starts at
    (advance of the cursor in that arm) + (index used by the trim start)."""
    from sa.linear import Lin
    D, P_ = "decpt", prec

    def lin(n, env):
        n = n.strip_all_casts()
        while n.k == "ParenExpr":
            n = n.child(0).strip_all_casts()
        c = C.const_of(n)
        if c is not None and n.k != "DeclRefExpr":
            return Lin.const(c)
        p = n.get("path")
        if p == D:
            return env["d"]
        if p == P_:
            return Lin.sym("P")
        if n.k == "UnaryOperator" and n.get("op") == "-":
            v = lin(n.child(0), env)
            return None if v is None else v.scale(-1)
        if n.k == "BinaryOperator" and n.get("op") in ("+", "-"):
            a, b = lin(n.child(0), env), lin(n.child(1), env)
            if a is None or b is None:
                return None
            return a + b if n["op"] == "+" else a - b
        return None

    def ptr_off(n, env, base):
        """offset of pointer expression n relative to the digit cursor `base`"""
        n = n.strip_all_casts()
        while n.k == "ParenExpr":
            n = n.child(0).strip_all_casts()
        if n.get("path") == base:
            return env["s"]
        if n.k == "BinaryOperator" and n.get("op") in ("+", "-"):
            a = ptr_off(n.child(0), env, base)
            b = lin(n.child(1), env)
            if a is None or b is None:
                return None
            return a + b if n["op"] == "+" else a - b
        if n.k == "UnaryOperator" and n.get("op") == "&":
            i_ = n.child(0).strip_all_casts()
            if i_.k == "ArraySubscriptExpr" and i_.child(0).strip_all_casts().get("path") == base:
                b = lin(i_.child(1), env)
                return None if b is None else env["s"] + b
        return None
    a4 = C.call_args(ecvt_call)
    # the digit buffer handed to the generator: its `char *` parameter, wherever it sits in the parameter list
    g_ = prog.fn(ecvt_call.get("callee") or "")
    bi_ = [i for i, p_ in enumerate(g_.params) if (p_["type"].get("ct") or "").replace(" ", "") == "char*"] if g_ is not None else []
    bi_ = bi_[0] if bi_ else 4
    base = a4[bi_].strip_all_casts().get("path") if len(a4) > bi_ else None
    st = K.site(f, "trim-starts-at-last-digit", 0)
    # the trim start: `base = &base[<idx>]` (or base += idx) at the join after the arms
    starts = [n for n, t in C.stores(f) if t.get("path") == base and n.get("op") == "=" and
              n.child(1).strip_all_casts().k == "UnaryOperator" and n.child(1).strip_all_casts().get("op") == "&"]
    if not starts:
        # the same cursor move written as `s += <index>` after the notation arms have joined
        arm_blocks = {f.where[pt.id][0].id for pt in points if pt.id in f.where}
        starts = [n for n, t in C.stores(f) if t.get("path") == base and n.get("op") == "+=" and f.where.get(n.id, (None,))[0] is not None
                  and f.where[n.id][0].id not in arm_blocks and any(x.get("path") == prec for x in n.child(1).walk())]
    if not base or not starts:
        ck.undecided("C16-G3", st, K.loc(f), "trim start `%s = &%s[...]` not found" % (base, base))
        return
    arms_seen = 0
    for pt in points:
        blk = f.where[pt.id][0]
        env = {"d": Lin.sym("d"), "s": Lin.const(0)}
        last = None
        for e in blk.elems:
            t = C.store_target(e)
            if t is not None and t.get("path") == D:
                if e.get("op") == "=":
                    v = lin(e.child(1), env)
                    env["d"] = v if v is not None else Lin.sym("d?")
                elif e.k == "UnaryOperator":
                    env["d"] = env["d"] + Lin.const(1 if e["op"] == "++" else -1)
            elif t is not None and t.get("path") == base:
                if e.get("op") in ("+=", "-="):
                    v = lin(e.child(1), env)
                    if v is not None:
                        env["s"] = env["s"] + (v if e["op"] == "+=" else v.scale(-1))
                elif e.k == "UnaryOperator":
                    env["s"] = env["s"] + Lin.const(1 if e["op"] == "++" else -1)
            elif e.k == "CallExpr" and e.get("callee") in ("memmove", "__builtin_memmove", "__builtin___memmove_chk"):
                ar = C.call_args(e)
                a_, b_ = ptr_off(ar[0], env, base), ptr_off(ar[1], env, base)
                if a_ is not None and b_ is not None:
                    last = Lin.sym("P") - b_ + a_ - Lin.const(1)
        if last is None:
            continue
        arms_seen += 1
        env2 = dict(env)
        if starts[0].get("op") == "+=":
            start = lin(starts[0].child(1), env2)
        else:
            idx = starts[0].child(1).strip_all_casts().child(0).strip_all_casts()
            start = lin(idx.child(1), env2)
        if start is None:
            ck.undecided("C16-G3", st, K.loc(f, starts[0]), "trim start index not linear")
            return
        start = env["s"] + start
        diff = last - start
        if not (diff.is_const() and diff.k == 0):
            ck.violated("C16-G3", st, K.loc(f, pt),
                        "in this notation arm the last digit sits at index %r but the trailing-zero trim starts at index %r "
                        "(d = decpt on entry to the arm, P = precision): digits behind an inner zero are cut and trailing zeros "
                        "survive, e.g. 0.00123456789012000 is printed with its zeros and 0.0012345678901045 loses its last digits"
                        % (last, start))
            return
    if arms_seen < 3:
        ck.anchor_lost("C16-G3", "notation arms with a block move (%d found)" % arms_seen)
    else:
        ck.holds("C16-G3", st, K.loc(f, starts[0]), "in each of the %d notation arms the trim starts at the last digit" % arms_seen)


def rule_g4(ck, prog, S):
    f = prog.fn("scpi_ecvt")
    if f is None:
        return False
    ck.analysed(f)
    pg = S.pg(f)
    outs = [p["name"] for p in f.params if p["type"].get("tk") == "ptr" and p["name"] in ("decpt", "sign")]
    st = K.site(f, "out-parameters", 0)
    probs = []
    expvar = "*decpt"
    if "decpt" not in outs:
        # the decimal exponent may be delivered as the function's value instead: every return hands back the same integer
        # local (the sign is the caller's business then, unless a sign out-parameter exists)
        rets_ = [n for n in f.nodes.values() if n.k == "ReturnStmt" and n.ch and n.id in f.where]
        rv = {n.child(0).strip_all_casts().get("path") for n in rets_ if n.child(0).strip_all_casts().k == "DeclRefExpr" and
              n.child(0).strip_all_casts()["decl"]["kind"] == "local"}
        if f.ret.get("tk") == "int" and rets_ and len(rv) == 1 and all(n.child(0).strip_all_casts().get("path") in rv for n in rets_):
            expvar = sorted(rv)[0]
            first_store = [n for n, t in C.stores(f) if t.get("path") == expvar]
            reach0 = pg.reachable([pg.entry], blocked_edge=lambda e: e.kind == "elem" and e.node in first_store)
            if any(pg.before(n) in reach0 for n in rets_):
                probs.append("a path returns `%s` before it was given a value" % expvar)
        else:
            ck.anchor_lost("C16-G4", "out-parameters decpt/sign of scpi_ecvt")
            return True
    for o in outs:
        ptr_changes = [n for n, t in C.stores(f) if t.k == "DeclRefExpr" and t.get("path") == o]
        if ptr_changes:
            probs.append("the pointer `%s` itself is changed (`%s`): the caller's variable is not what gets updated" % (o, ptr_changes[0].src))
        sts = [n for n, t in C.stores(f) if t.get("path") == "*" + o]
        if not sts:
            probs.append("*%s is never stored" % o)
            continue
        reach = pg.reachable([pg.entry], blocked_edge=lambda e: e.kind == "elem" and e.node in sts)
        if pg.exit in reach:
            probs.append("a path returns without storing *%s" % o)
    if probs:
        ck.violated("C16-G4", st, K.loc(f), sorted(set(probs))[0], {"all": sorted(set(probs))})
    else:
        ck.holds("C16-G4", st, K.loc(f), "*decpt and *sign stored on every path; pointers unchanged" if expvar == "*decpt" else
                 "the decimal exponent `%s` is returned on every path%s" % (expvar, "; *sign stored on every path" if "sign" in outs else ""))
    # rounding
    st = K.site(f, "rounding-carry", 0)
    probs = []
    add = [n for n, t in C.stores(f) if n.get("op") == "+=" and t.k == "ArraySubscriptExpr" and t.child(0).strip_all_casts().get("path") == "buf"]
    if len(add) != 1 or C.const_of(add[0].child(1)) != 5:
        probs.append("the rounding step adds %s to the first dropped digit (half a unit is 5)" % ([C.const_of(n.child(1)) for n in add]))
    loops = [b for b in f.blocks.values() if b.term_kind == "WhileStmt" and b.cond is not None and b.cond.k == "BinaryOperator" and
             b.cond.get("op") == ">" and C.const_of(b.cond.child(1)) == ord("9")]
    if len(loops) != 1:
        probs.append("no carry loop testing a digit against '9'")
    else:
        body = None
        for h, bd in C.loops(f):
            if h.id == loops[0].id:
                body = bd
        inb = lambda n: body is not None and f.where[n.id][0].id in body
        z = [n for n, t in C.stores(f) if inb(n) and n.get("op") == "=" and C.const_of(n.child(1)) == ord("0")]
        one = [n for n, t in C.stores(f) if inb(n) and n.get("op") == "=" and C.const_of(n.child(1)) == ord("1")]
        inc = [n for n, t in C.stores(f) if inb(n) and n.k == "UnaryOperator" and n.get("op") == "++" and t.get("path") == expvar]
        car = [n for n, t in C.stores(f) if inb(n) and n.k == "UnaryOperator" and n.get("op") == "++" and t.k == "ArraySubscriptExpr"]
        if not z:
            probs.append("an overflowing digit is not reset to '0'")
        if not car:
            probs.append("the carry is not added to the next higher digit")
        if not one or not inc:
            probs.append("overflow of the leading digit does not write '1' and increment *decpt")
        else:
            for n in one + inc:
                facts = K.facts_at(S, f, n) or []
                if not any(a.k == "BinaryOperator" and a.get("op") == ">" and C.const_of(a.child(1)) == 0 and pol is False
                           for a, pol in facts if not isinstance(pol, tuple)):
                    probs.append("`%s` is not confined to the leading digit (index 0)" % n.src)
    if probs:
        ck.violated("C16-G4", st, K.loc(f), sorted(set(probs))[0], {"all": sorted(set(probs))})
    else:
        ck.holds("C16-G4", st, K.loc(f), "+= 5; > '9' -> '0', carry to the left; leading overflow -> '1', (*decpt)++")
    return True


def run(ck, fb, tier):
    own = False
    for cfg in fb.configs:
        ck.config = cfg
        prog = fb[cfg]
        S = K.summaries(prog)
        rule_g1(ck, prog, cfg)
        a = rule_g2_g3(ck, prog, S)
        b = rule_g4(ck, prog, S)
        own = own or (a and b)
    if "D" in fb.configs and not own:
        ck.anchor_lost("C16-G2", "SCPI_dtostre / scpi_ecvt are not compiled in the USE_CUSTOM_DTOSTRE configuration")
    ck.trust("printf's %g conversion (snprintf builds)", "frexp/modf of libm")


TECHNIQUE = ("static analysis: format-string and argument audit of the two formatting entry points, guard facts of the "
             "special-value and notation arms of the own formatter, must-store / never-modified rules for scpi_ecvt's "
             "out-parameters, constant audit of the rounding carry chain")
LEVEL_TEXT = ("Clause level, structural only: precision / conversion wiring, special-value spellings, %g notation thresholds, "
              "out-parameter discipline and the shape of the rounding carry are decided on all CFG paths. The numeric clauses "
              "of C16 (correct rounding, parse-back within half / one unit) are NOT decided by any static argument here.")
LEVEL_NOTE = "Trusted: clang CFG, extractor, printf's %g, libm."
DESIGN_REF = "DESIGN.md section 5, C16"
