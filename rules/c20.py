"""C20 — the allocation-free build stores error texts intact or not at all (configuration C)."""
from sa import cfg as C
from sa import bounds as B
from sa.linear import Lin, le, lt
from . import common as K
from . import boundsrules as BR
from .c10 import typestate_function, FREE_CALLS

CONFIGS_QUICK = ["C"]
CONFIGS_THOROUGH = ["C"]

EXPLANATION = (
    "Static, clause-level decision of C20 in the configuration with the static text heap "
    "(-DUSE_MEMORY_ALLOCATION_FREE=0). (H1) with the field invariant wr < size, count <= size "
    "assumed on entry, every memcpy/memset/store of scpiheap_strndup/free/init stays inside "
    "[data, data+size) and the invariant holds again on every exit (inductive over all writers "
    "of wr/count) - decided by the bounds engine; the two-part readout scpiheap_get_parts is "
    "verified against its contract (first part ends inside the heap; a second part exists iff "
    "the first ends exactly at the end of the heap; otherwise its length is 0), and "
    "scpiheap_free is decided against that contract. (H2) conservation: on every path of strndup "
    "the free-byte counter decreases by exactly the bytes copied, on every path of free it "
    "increases by exactly the bytes cleared (ghost counters). (H3) the heap fields are written "
    "only by scpiheap_*, which are called only through the SCPIDEFINE_* sites of error.c, "
    "minimal.c, parser.c. (H4) ownership typestate of texts (as C10-Q4) with the rollback "
    "argument TRUE exactly at the two releases of the overflow arm and FALSE at pop/clear. NOT "
    "decided: 'exactly the text it was pushed with' across wrap-around histories (string "
    "contents).")

RULES = {
    "C20-H1": "heap writers: every write inside [data, data+size); field invariant wr < size, count <= size re-established on every exit",
    "C20-H1c": "scpiheap_get_parts satisfies its contract: part 1 ends inside the heap, part 2 exists iff part 1 ends exactly at the end, else length 0",
    "C20-H2": "conservation: bytes copied == decrease of count (strndup), the pieces copied are consecutive pieces of the source; bytes cleared == increase of count (free)",
    "C20-H3": "heap fields are written only by scpiheap_*; scpiheap_* are called only from the error-queue code",
    "C20-H5": "read-out: the two heap pieces of one text are emitted back to back (the response's ';' is written only before part 1; shared with C18-K7)",
    "C20-H4": "text ownership typestate in the static-heap build; rollback TRUE only for the newest allocations (overflow arm), FALSE at pop/clear",
}

INV = [("heap->size", ">=", 1), ("heap->wr", "<", "heap->size"), ("heap->count", "<=", "heap->size")]


def report_sites(ck, rule, f, an, sites, kinds, extra_rule=None):
    occ = {}
    n = 0
    for key, s in sorted(sites.items(), key=lambda kv: (kv[1].node.get("line", 0), kv[1].node.get("col", 0), str(kv[0]))):
        if s.kind not in kinds:
            continue
        v, r = s.verdict()
        label = "%s:%s" % (s.kind, (s.what if s.kind == "exit" else s.node.src).replace(" ", "")[:48])
        k = occ.get(label, 0)
        occ[label] = k + 1
        st = K.site(f, label, k)
        rl = (extra_rule or {}).get(s.kind, rule)
        n += 1
        where = K.loc(f, s.node) if s.kind != "exit" else K.loc(f)
        if v == "HOLDS":
            ck.holds(rl, st, where, "%s (%d paths)" % (s.what[:80], len(s.results)))
        elif v == "VIOLATED":
            ck.violated(rl, st, where, "%s is NOT guaranteed: %s; witness %s" % (s.what[:90], r[3][:160], r[5]),
                        {"facts": r[4], "witness": r[5]})
        elif v == "UNDECIDED":
            ck.undecided(rl, st, where, "%s: %s" % (s.what[:90], r[3][:200]), {"facts": r[4]})
    return n


def exit_inv(an, st):
    wr, cnt, size = an.cur(st, "heap->wr"), an.cur(st, "heap->count"), an.cur(st, "heap->size")
    return [lt(wr, size), le(cnt, size)]


def rule_h1_h2(ck, prog):
    caps = {"heap->data": "heap->size"}
    contracts = BR.spec()["contracts"]
    # ---- strndup ----
    f = prog.fn("scpiheap_strndup")
    if f is None:
        ck.anchor_lost("C20-H1", "scpiheap_strndup")
    else:
        ck.analysed(f)

        def ghost_copy(an, st, n):
            d = an.pointer(st, C.call_args(n)[0])
            ext = an.value(st, C.call_args(n)[2])
            if d is not None and d[0] == "heap->data":
                cur = st.env.get("$copied", Lin.const(0))
                st.env["$copied"] = cur + ext if ext is not None else an.opaque(st, "$copied", nonneg=True)
                # the pieces copied are consecutive pieces of the source text, starting at its first byte
                src = an.pointer(st, C.call_args(n)[1])
                want = st.env.get("$srcnext", Lin.const(0))
                key = ("src", n.id)
                what = "`%s` copies from the source text at the offset where the previous piece ended" % n.src
                if src is None or ext is None:
                    site = an.sites.setdefault(key, B.Site(n, "source", what))
                    site.results.append((False, False, True, "source pointer of the copy not expressible", None, None))
                else:
                    for g in (src[1] - want, want - src[1]):
                        an.oblige_fact(st, n, "source", g, what, key=key)
                    st.env["$srcnext"] = src[1] + ext

        def exit_cons(an, st):
            # only on paths that allocated (returned the head pointer): copied == count@entry - count@exit
            cp = st.env.get("$copied")
            if cp is None:
                # nothing copied: count must be unchanged
                return [le(an.cur(st, "heap->count"), Lin.sym("heap->count@0")), le(Lin.sym("heap->count@0"), an.cur(st, "heap->count"))]
            dec = Lin.sym("heap->count@0") - an.cur(st, "heap->count")
            return [le(cp, dec), le(dec, cp)]
        an = B.Analysis(prog, f, caps, contracts, assume=INV, nowrap=True,
                        ghost={"memcpy": ghost_copy, "__builtin_memcpy": ghost_copy},
                        exit_obligations=[("field invariant wr < size, count <= size on exit", exit_inv),
                                          ("bytes copied == decrease of the free-byte counter", exit_cons)])
        an.symbolic_bases = True
        sites = an.run()
        n = report_sites(ck, "C20-H1", f, an, sites, ("store", "call", "load", "arith"))
        nsrc = report_sites(ck, "C20-H2", f, an, sites, ("source",))
        if nsrc < 2:
            ck.anchor_lost("C20-H2", "scpiheap_strndup: %d copies with a tracked source (expected 2)" % nsrc)
        n2 = 0
        for key, s in sites.items():
            if s.kind == "exit":
                rl = "C20-H2" if "copied" in s.what else "C20-H1"
                v, r = s.verdict()
                st = K.site(f, "exit:%s" % s.what.replace(" ", "")[:40], 0)
                n2 += 1
                if v == "HOLDS":
                    ck.holds(rl, st, K.loc(f), "%s on all %d exits" % (s.what, len(s.results)))
                elif v == "VIOLATED":
                    ck.violated(rl, st, K.loc(f), "%s is NOT guaranteed; witness %s" % (s.what, r[5]), {"facts": r[4]})
                else:
                    ck.undecided(rl, st, K.loc(f), "%s: not provable" % s.what, {"facts": r[4] if r else None})
        if n < 3 or n2 < 2:
            ck.anchor_lost("C20-H1", "scpiheap_strndup: %d write sites, %d exit obligations" % (n, n2))
        # every allocating path terminates the stored text inside the heap (supports clause C' of the
        # get_parts contract: a wrapped second part has its NUL before the end of the heap)
        S = K.summaries(prog)
        pg = S.pg(f)
        nul = [n for n, t in C.stores(f) if t.k == "ArraySubscriptExpr" and t.child(0).strip_all_casts().get("path") == "heap->data"
               and n.get("op") == "=" and C.const_of(n.child(1)) == 0]
        rets = [n for n in f.nodes.values() if n.k == "ReturnStmt" and n.ch and not C.is_null(n.child(0))]
        st = K.site(f, "text-terminated", 0)
        bad = False
        for r in rets:
            reach = pg.reachable([pg.entry], blocked_edge=lambda e: e.kind == "elem" and e.node in nul)
            if pg.before(r) in reach:
                bad = True
        if not nul or not rets:
            ck.anchor_lost("C20-H1", "NUL stores / allocating return of scpiheap_strndup")
        elif bad:
            ck.violated("C20-H1", st, K.loc(f, rets[0]), "a text can be stored without its terminating NUL: the next readout runs into the following text")
        else:
            ck.holds("C20-H1", st, K.loc(f, nul[0]), "every allocating path stores the terminating NUL (at wr-1 or at size-1)")
    # ---- init ----
    BR.check_function(ck, prog, "C20-H1", "scpiheap_init", min_sites=1)
    f = prog.fn("scpiheap_init")
    if f is not None:
        st = K.site(f, "establishes-invariant", 0)
        sto = {t.get("path"): n for n, t in C.stores(f)}
        ok = ("heap->wr" in sto and C.const_of(sto["heap->wr"].child(1)) == 0 and
              "heap->count" in sto and sto["heap->count"].child(1).strip_all_casts().get("path") == "heap->size" and
              "heap->size" in sto and "heap->data" in sto)
        ms = list(f.calls("memset"))
        if ok and ms:
            ck.holds("C20-H1", st, K.loc(f), "wr = 0, count = size, data cleared")
        else:
            ck.violated("C20-H1", st, K.loc(f), "scpiheap_init does not establish wr = 0, count = size and a cleared heap")
    # ---- get_parts contract ----
    f = prog.fn("scpiheap_get_parts")
    if f is None:
        ck.anchor_lost("C20-H1c", "scpiheap_get_parts")
    else:
        ck.analysed(f)

        def exit_parts(an, st):
            ret_true = any(True for _ in [0])
            l1 = st.env.get("*len1")
            l2 = st.env.get("*len2")
            sp = st.ptr.get("s")
            size = an.cur(st, "heap->size")
            goals = []
            if l1 is None or sp is None:
                return None
            if not getattr(st, "returned_true", True):
                return None
            goals.append(le(sp[1] + l1, size))                                    # (A)
            if "*s2" in getattr(st, "nullptr", set()):
                goals.append(lt(sp[1] + l1, size))                                # (B2)
                if l2 is not None:
                    goals += [l2, l2.scale(-1)]
            elif "*s2" in st.ptr:
                goals += [le(sp[1] + l1, size), le(size, sp[1] + l1)]             # (B1)
                if l2 is not None:
                    goals.append(le(l2, size))                                    # (C) weak form; C' (len2 < size) is assumed, see text-terminated
            return goals
        def ghost_scan(an, st, n):
            # a part's length is measured up to the end of the heap: scanning less cuts the text, scanning more leaves the heap
            a = C.call_args(n)
            d = an.pointer(st, a[0])
            bound = an.value(st, a[1]) if len(a) > 1 else None
            size = an.cur(st, "heap->size")
            key = ("scan", n.id)
            what = "`%s` measures the part up to the last byte of the heap" % n.src
            if d is None or d[0] != "heap->data" or bound is None:
                site = an.sites.setdefault(key, B.Site(n, "scan", what))
                site.results.append((False, False, True, "scanned range not expressible", None, None))
                return
            for g in (d[1] + bound - size, size - d[1] - bound):
                an.oblige_fact(st, n, "scan", g, what, key=key)
        an = B.Analysis(prog, f, caps, contracts, assume=[("heap->size", ">=", 1)], ptr_assume={"s": "heap->data"},
                        ghost={k_: ghost_scan for k_, v_ in contracts.items() if v_.get("kind") == "strnlen"},
                        exit_obligations=[("contract of scpiheap_get_parts (A, B, C)", exit_parts)])
        # only paths that return TRUE matter: mark via a ReturnStmt hook
        orig = an.do_elem

        def hook(st, n):
            if n.k == "ReturnStmt" and n.ch:
                st.returned_true = bool(C.const_of(n.child(0)))
            return orig(st, n)
        an.do_elem = hook
        sites = an.run()
        got = False
        for key, s in sites.items():
            if s.kind != "exit":
                continue
            got = True
            v, r = s.verdict()
            st = K.site(f, "contract", 0)
            if v == "HOLDS":
                ck.holds("C20-H1c", st, K.loc(f), "first part inside the heap; second part iff the first ends at the last byte; else len2 = 0")
            elif v == "VIOLATED":
                ck.violated("C20-H1c", st, K.loc(f),
                            "scpiheap_get_parts can hand out a second part although the first does not end exactly at the end "
                            "of the heap (or miss it when it does): a foreign text is appended to / cut from the reported one; "
                            "witness %s" % r[5], {"facts": r[4]})
            else:
                ck.undecided("C20-H1c", st, K.loc(f), "contract not provable: %s" % (r[3] if r else ""), {"facts": r[4] if r else None})
        if not got:
            ck.anchor_lost("C20-H1c", "no TRUE-returning path of scpiheap_get_parts reached")
        if report_sites(ck, "C20-H1c", f, an, sites, ("scan",)) < 2:
            ck.anchor_lost("C20-H1c", "length scans of the two parts in scpiheap_get_parts")
    # ---- free ----
    f = prog.fn("scpiheap_free")
    if f is None:
        ck.anchor_lost("C20-H1", "scpiheap_free")
        return
    ck.analysed(f)

    def ghost_clear(an, st, n):
        d = an.pointer(st, C.call_args(n)[0])
        ext = an.value(st, C.call_args(n)[2])
        if d is not None and d[0] == "heap->data":
            cur = st.env.get("$cleared", Lin.const(0))
            st.env["$cleared"] = cur + ext if ext is not None else an.opaque(st, "$cleared", nonneg=True)

    def exit_cons2(an, st):
        cl = st.env.get("$cleared")
        inc = an.cur(st, "heap->count") - Lin.sym("heap->count@0")
        if cl is None:
            return [inc, inc.scale(-1)]
        return [le(cl, inc), le(inc, cl)]
    def exit_wr(an, st):
        # assumed: the text being released, with its terminators, is not longer than the heap (heap consistency: texts do not
        # overlap) - what is decided is that the roll-back arithmetic then keeps the write position inside the heap
        size = an.cur(st, "heap->size")
        return [lt(an.cur(st, "heap->wr"), size)]
    an = B.Analysis(prog, f, caps, contracts, assume=INV, ptr_assume={"s": "heap->data"}, elem_scalars=True, nowrap=True,
                    ghost={"memset": ghost_clear, "__builtin_memset": ghost_clear},
                    exit_obligations=[("bytes cleared == increase of the free-byte counter", exit_cons2),
                                      ("write position stays inside the heap (wr < size) on exit", exit_wr)])
    an.symbolic_bases = False
    sites = an.run()
    n = report_sites(ck, "C20-H1", f, an, sites, ("store", "call", "load", "arith"))
    for key, s in sites.items():
        if s.kind == "exit":
            v, r = s.verdict()
            st = K.site(f, "exit:%s" % s.what.replace(" ", "")[:40], 0)
            if v == "HOLDS":
                ck.holds("C20-H2", st, K.loc(f), "%s on all %d exits" % (s.what, len(s.results)))
            elif v == "VIOLATED":
                ck.violated("C20-H2", st, K.loc(f), "%s is NOT guaranteed; witness %s" % (s.what, r[5]), {"facts": r[4]})
            else:
                ck.undecided("C20-H2", st, K.loc(f), "%s: not provable" % s.what, {"facts": r[4] if r else None})
    if n < 2:
        ck.anchor_lost("C20-H1", "scpiheap_free: %d write sites" % n)


def K_address_taken(prog, name):
    from . import c01
    return c01._address_taken(prog, name)


def rule_h3(ck, prog):
    rec = prog.records.get("_scpi_error_info_heap_t")
    if not rec:
        ck.anchor_lost("C20-H3", "struct _scpi_error_info_heap_t")
        return
    fields = {f["name"] for f in rec["fields"]}
    n = 0
    for f in sorted(prog.functions.values(), key=lambda f: (f.relfile, f.line)):
        for node, t in C.stores(f):
            m = [x for x in t.walk() if x.k == "MemberExpr" and x.get("record") == "_scpi_error_info_heap_t"]
            if not m:
                continue
            st = K.site(f, "heap-field-store", n)
            n += 1
            if f.name.startswith("scpiheap_"):
                ck.holds("C20-H3", st, K.loc(f, node), "`%s` inside %s" % (node.src[:50], f.name), nontrivial=(n < 4))
            else:
                ck.violated("C20-H3", st, K.loc(f, node), "heap bookkeeping field written outside scpiheap_*: `%s`" % node.src)
    allowed = {"scpiheap_strndup": {"SCPI_ErrorAddInternal", "SCPI_ErrorPushEx"}, "scpiheap_free": {"SCPI_ErrorAddInternal", "SCPI_ErrorClear", "SCPI_SystemErrorNextQ"},
               "scpiheap_get_parts": {"SCPI_ResultError", "scpiheap_free"}, "scpiheap_init": {"SCPI_InitHeap"}}
    for callee, okc in allowed.items():
        callers = {g.name for g, c in prog.callers(callee)}
        # a file-local helper that only the allowed functions (or other such helpers) call belongs to them
        changed = True
        while changed:
            changed = False
            for nm in sorted(callers - okc):
                g_ = prog.fn(nm)
                up = {h.name for h, _c in prog.callers(nm)} if g_ is not None and g_.static else set()
                if up and not K_address_taken(prog, nm):
                    callers = (callers - {nm}) | up
                    changed = True
        st = "%s/callers#0" % callee
        if callers - okc:
            ck.violated("C20-H3", st, "libscpi/src/utils.c:0", "%s is called from %s (allowed: %s)" % (callee, sorted(callers - okc), sorted(okc)))
        elif not callers:
            ck.anchor_lost("C20-H3", "%s has no caller" % callee)
        else:
            ck.holds("C20-H3", st, "libscpi/src/utils.c:0", "called only from %s" % sorted(callers))


def rule_h4(ck, prog, S):
    total = 0
    for name in ("SCPI_ErrorAddInternal", "SCPI_ErrorClear", "SCPI_ErrorPop", "SCPI_SystemErrorNextQ"):
        f = prog.fn(name)
        if f is None:
            ck.anchor_lost("C20-H4", name)
            continue
        ck.analysed(f)
        total += typestate_function(ck, prog, S, f, "C", rule="C20-H4")
    if total < 8:
        ck.anchor_lost("C20-H4", "only %d ownership events" % total)
    # rollback argument
    want = {"SCPI_ErrorAddInternal": 1, "SCPI_ErrorClear": 0, "SCPI_SystemErrorNextQ": 0}
    n = 0
    for fname, rb in want.items():
        f = prog.fn(fname)
        if f is None:
            continue
        for c in K.ordinal_sites(list(f.calls("scpiheap_free"))):
            st = K.site(f, "rollback-argument", n)
            n += 1
            got = C.const_of(K.arg(c, 2))
            if got is None:
                got = 1 if K.arg(c, 2).strip_all_casts().src in ("true", "1") else (0 if K.arg(c, 2).strip_all_casts().src in ("false", "0") else None)
            if got == rb:
                ck.holds("C20-H4", st, K.loc(f, c), "rollback = %s (%s)" % (bool(rb), "newest allocation" if rb else "oldest text"))
            else:
                ck.violated("C20-H4", st, K.loc(f, c),
                            "%s releases a text with rollback = %s: the write cursor is %s although the text is %s the newest allocation"
                            % (fname, got, "rolled back" if got else "left in place", "not" if not rb else ""))
    if n < 4:
        ck.anchor_lost("C20-H4", "only %d scpiheap_free call sites" % n)


def run(ck, fb, tier):
    for cfg in fb.configs:
        ck.config = cfg
        prog = fb[cfg]
        S = K.summaries(prog)
        rule_h1_h2(ck, prog)
        rule_h3(ck, prog)
        rule_h4(ck, prog, S)
        from . import c18
        c18.rule_k7(ck, prog, S, rule="C20-H5")
    ck.assume("the heap passed to SCPI_InitHeap has the announced size >= 1 and is used by one context only")
    ck.assume("a wrapped second part read by scpiheap_get_parts has its NUL before the end of the heap (string-content fact, not "
              "linear; supported by rule text-terminated: every allocating path of scpiheap_strndup stores the terminating NUL)")
    ck.trust("libc memcpy/memset/strnlen contracts")


TECHNIQUE = ("static analysis: bounds engine with assumed/re-established field invariant (inductive over all heap "
             "writers), ghost byte counters for conservation, contract verification of the two-part readout, who-may-write "
             "index, ownership typestate with rollback-argument audit")
LEVEL_TEXT = ("Proof-like obligations per write site and per exit (for every heap size and every history, because the field "
              "invariant is shown inductive); contents of the stored strings ('exactly the text') are not decided.")
LEVEL_NOTE = "Trusted: clang CFG, extractor, libc contracts. Assumes heap size >= 1. Only configuration C contains this code."
DESIGN_REF = "DESIGN.md section 5, C20"
