"""C02 — each message unit runs exactly the first command matching its effective header."""
from sa import cfg as C
from sa import ctx as X
from sa import paths as P
from . import common as K

CONFIGS_QUICK = ["A"]
CONFIGS_THOROUGH = ["A", "B", "C", "D", "E"]

EXPLANATION = (
    "Static, clause-level decision of C02 (dispatch discipline; which header a pattern accepts is "
    "C03 and is not decided). Decided: (D1) findCommandHeader scans the table from index 0 "
    "upwards, stops at the NULL pattern, and returns at the first entry for which matchCommand is "
    "true, storing that very entry; (D2) processCommand invokes a non-NULL call-back exactly once "
    "on every path; SCPI_Parse dispatches at most once per unit and only on the found edge; "
    "(D3) the previous-header token is empty at the start of every message and is assigned from "
    "the composed header on EVERY path from composeCompoundCommand to the next unit - necessary "
    "because composition overwrites the bytes in front of the current header; (D4) the not-found "
    "edge queues exactly one -113 carrying the unit's text and forces the result to FALSE; (D5) "
    "the identity the handler can query (param_list.cmd, cmd_raw.*) is stored on the found edge "
    "from the matched entry and the composed header; (D6) the characters that decide 'header as "
    "written' in composeCompoundCommand are '*' and ':' on the current header, '*' on the previous "
    "one, and the path delimiter searched from the end is ':'; the amount subtracted from the "
    "pointer, added to the length and copied is one expression.")

RULES = {
    "C02-N": "no integer on this property's data path is narrowed by an implicit conversion (parameter handed to a narrower parameter, stored in a narrower field, or a narrow field behind a wider accessor)",
    "C02-XC": "(thorough) decision tables of the configuration-independent functions of this property are identical in every build configuration",
    "C02-D1": "findCommandHeader: index from 0 upwards, ends at NULL pattern, first matchCommand hit stores that entry and returns TRUE",
    "C02-D2": "exactly one call-back invocation per dispatched unit; dispatch at most once per unit, only on the found edge",
    "C02-D3": "previous-header token: empty per message; assigned from the composed header on every path from the composition to the next unit",
    "C02-D4": "not-found edge: exactly one -113 with the unit text, result FALSE, no handler",
    "C02-D8": "the -113 text starts at the header token (as lexed or as composed), never at the unit start: the bytes between unit start and header are overwritten by the path composition",
    "C02-D9": "identity queries: SCPI_IsCmd matches the given text in its full length against the matched entry's pattern; SCPI_CommandNumbers matches (cmd_raw.data, cmd_raw.length) and passes array, capacity and default through",
    "C02-D5": "handler-visible identity (param_list.cmd, cmd_raw.data/length) stored from the matched entry / composed header before the call-back",
    "C02-D7": "the path is prepended with an overlap-safe copy: source (previous header) and destination (in front of the current header) lie in the same buffer, destination above source",
    "C02-D6": "composeCompoundCommand: deciding characters {'*', ':'} / {'*'} / ':'; pointer, length and copy use the same amount",
}


def rule_d1(ck, prog, S):
    got = K.need(ck, prog, "C02-D1", "findCommandHeader")
    if not got:
        return
    f = got[0]
    st = K.site(f, "first-match", 0)
    mc = list(f.calls("matchCommand"))
    if len(mc) != 1:
        ck.anchor_lost("C02-D1", "expected one matchCommand call in findCommandHeader (found %d)" % len(mc))
        return
    call = mc[0]
    problems = []
    al, resolve = X.aliases(f)

    def obj_of_pointer(path):
        """object a pointer-valued expression points to"""
        if path in al:
            return al[path]
        if path.startswith("&"):
            return path[1:]
        return "*" + path
    pat = C.call_args(call)[0].strip_all_casts()
    P_ = pat.get("path") or ""
    entry = None      # the table entry whose pattern is tested
    if P_.endswith("->pattern"):
        entry = obj_of_pointer(P_[:-len("->pattern")])
    elif P_.endswith(".pattern"):
        entry = P_[:-len(".pattern")]
    idx = None        # the iteration variable
    if entry is None:
        problems.append("matchCommand is not applied to the pattern of a table entry (`%s`)" % pat.src)
    elif "cmdlist[" in entry:
        idx = entry[entry.index("cmdlist[") + 8: entry.index("]", entry.index("cmdlist["))]
        start_ok = lambda n_: n_.get("op") == "=" and C.const_of(n_.child(1)) == 0
        decl_ok = lambda init: C.const_of(init) == 0
    elif entry.startswith("*"):
        idx = entry[1:]
        start_ok = lambda n_: n_.get("op") == "=" and (n_.child(1).strip_all_casts().get("path") or "").endswith("->cmdlist")
        decl_ok = lambda init: (init.strip_all_casts().get("path") or "").endswith("->cmdlist")
    else:
        problems.append("cannot identify the table iteration in `%s`" % pat.src)
    if idx:
        stores = [(n, t) for n, t in C.stores(f) if t.get("path") == idx]
        init0 = any(start_ok(n) for n, t in stores)
        for d in f.nodes.values():
            if d.k == "DeclStmt":
                for dd in d.get("decls", []):
                    if dd["name"] == idx and "init" in dd and decl_ok(f.nodes[dd["init"]]):
                        init0 = True
        steps = [n for n, t in stores if not start_ok(n)]
        up = all((n.k == "UnaryOperator" and n.get("op") == "++") or
                 (n.get("op") == "+=" and C.const_of(n.child(1)) == 1) or
                 (n.get("op") == "=" and n.child(1).strip_all_casts().k == "BinaryOperator" and n.child(1).strip_all_casts().get("op") == "+"
                  and n.child(1).strip_all_casts().child(0).strip_all_casts().get("path") == idx and C.const_of(n.child(1).strip_all_casts().child(1)) == 1)
                 for n in steps)
        if not init0:
            problems.append("the scan does not start at the first table entry (`%s`)" % idx)
        if not up or not steps:
            problems.append("the scan does not advance by exactly one entry per iteration")
        heads = C.loops(f)
        cond_ok = False
        for h, body in heads:
            c = h.cond
            if c is None:
                continue
            for atom, pol in C.cond_facts(c, True):
                cand = atom
                if atom.k == "BinaryOperator" and atom.get("op") == "!=":
                    cand = atom.child(0).strip_all_casts()
                pp = cand.get("path") or ""
                if pp.endswith("pattern"):
                    e2 = obj_of_pointer(pp[:-len("->pattern")]) if pp.endswith("->pattern") else pp[:-len(".pattern")]
                    if e2 == entry:
                        cond_ok = True
        if not cond_ok:
            problems.append("the scan does not end at the first NULL pattern")
    # on the true edge of matchCommand: store param_list.cmd = &cmdlist[i] (same i) and return TRUE
    # without passing the back edge
    sums = P.summarize(f, max_visits=2)
    hit_paths = [ps for ps in sums if any(a is call and pol is True for a, pol in ps.facts if not isinstance(pol, tuple))]
    if not hit_paths:
        problems.append("no path on which matchCommand is true")
    for ps in hit_paths:
        # events after the first true branch of matchCommand
        evs = ps.events
        k = next(i for i, e in enumerate(evs) if e[0] == "branch" and e[1] is call and e[2] is True)
        after = evs[k + 1:]
        if any(e[0] == "call" and e[1].get("callee") == "matchCommand" for e in after):
            problems.append("after a match the scan continues to later entries (last match wins, not first)")
            break
        if any(e[0] == "store" and C.store_target(e[1]).get("path") == idx for e in after):
            problems.append("after a match the index is advanced before returning")
            break
        returns_entry = f.ret.get("tk") == "ptr"
        if returns_entry:
            # the lookup hands the matched entry back (the caller stores it): the pointer returned is that entry
            rexp = ps.ret_node.child(0).strip_all_casts() if ps.ret_node is not None and ps.ret_node.ch else None
            got = obj_of_pointer(rexp.get("path") or rexp.src) if rexp is not None else None
            if entry is None or got != entry:
                problems.append("a matching path returns `%s`, not the entry whose pattern matched" % (rexp.src if rexp is not None else None))
                break
            continue
        if ps.ret is None or ps.ret.truth() is not True:
            problems.append("a matching path returns %s" % ps.ret)
            break
        cmdstores = [e[1] for e in evs if e[0] == "store" and
                     X.norm(resolve(C.store_target(e[1]).get("path") or "")) == "context->param_list.cmd"]
        if not cmdstores:
            problems.append("the matched entry is not stored in param_list.cmd")
            break
        rhs = cmdstores[-1].child(1).strip_all_casts()
        got = obj_of_pointer(rhs.get("path") or rhs.src)
        if entry is not None and got != entry:
            problems.append("param_list.cmd is set to `%s`, not to the entry whose pattern matched" % rhs.src)
            break
    miss = [ps for ps in sums if not any(a is call and pol is True for a, pol in ps.facts if not isinstance(pol, tuple))]
    if f.ret.get("tk") == "ptr":
        if any(ps.ret_node is None or not ps.ret_node.ch or not (C.is_null(ps.ret_node.child(0)) or C.const_of(ps.ret_node.child(0)) == 0) for ps in miss):
            problems.append("a path without any match does not return NULL")
        # ... and the caller stores exactly that result as the matched entry on the found edge
        par_ = prog.fn("SCPI_Parse")
        if par_ is not None:
            fc_ = list(par_.calls(f.name))
            pgp = S.pg(par_)
            if len(fc_) == 1:
                td_, fd_, hold_ = K.call_truth_edges(par_, pgp, fc_[0])
                sts_ = [n_ for n_, t_ in C.stores(par_) if X.norm(t_.get("path") or "").endswith("param_list.cmd") and n_.get("op") == "=" and
                        (n_.child(1).strip_all_casts() is fc_[0] or n_.child(1).strip_all_casts().get("path") in hold_)]
                if not sts_:
                    problems.append("the caller does not store the entry returned by the lookup in param_list.cmd")
    elif any(ps.ret is None or ps.ret.truth() is not False for ps in miss):
        problems.append("a path without any match does not return FALSE")
    # every entry is handed to the matcher: no cycle of the scan gets round the matchCommand call (a pre-filter on the first
    # letter, a cache, ... decides 'no match' on its own and is wrong for patterns it does not understand)
    pg = S.pg(f)
    for h, body in C.loops(f):
        if f.where[call.id][0].id not in body:
            continue
        starts = [e.dst for e in pg.out[(h.id, 0)] if e.dst[0] in body and not (e.kind == "elem" and e.node is call)]
        reach = pg.reachable(starts, blocked_edge=lambda e: (e.kind == "elem" and e.node is call) or e.dst[0] not in body)
        if (h.id, 0) in reach and not (h.id == f.where[call.id][0].id and f.where[call.id][1] == 0):
            path = pg.find_path(starts, lambda p_: p_ == (h.id, 0),
                                blocked_edge=lambda e: (e.kind == "elem" and e.node is call) or e.dst[0] not in body)
            skipping = [e_ for e_ in (path or []) if e_.kind == "edge" and e_.label and e_.label[0] in ("true", "false")]
            problems.append("an entry of the command table can be passed over without asking matchCommand (%s): which "
                            "entry accepts a header is decided by the matcher alone" % (
                                ", ".join("`%s` is %s" % (e_.label[1].src, e_.label[0]) for e_ in skipping[:3]) or "cycle without the call"))
    if problems:
        ck.violated("C02-D1", st, K.loc(f, call), "; ".join(problems))
    else:
        ck.holds("C02-D1", st, K.loc(f, call), "scan 0.. until NULL, first hit stored and returned (%d paths)" % len(sums))
    ck.analysed(f)


def rule_d2_d5(ck, prog, S):
    got = K.need(ck, prog, "C02-D2", "processCommand", "SCPI_Parse", "findCommandHeader")
    if not got:
        return
    proc, parse, find = got
    # exactly one call-back invocation per path where callback != NULL
    sums = P.summarize(proc)
    st = K.site(proc, "one-invocation", 0)
    bad = None
    n = 0
    for ps in sums:
        cb = [c for c in ps.calls if c.get("callee") is None and "callback" in (c.get("callee_path") or "")]
        nullfact = [pol for a, pol in ps.facts if not isinstance(pol, tuple) and
                    "callback" in a.src and a.k in ("BinaryOperator", "MemberExpr", "ImplicitCastExpr") and a.k != "CallExpr"
                    and not any(x.k == "CallExpr" for x in a.walk())]
        nonnull = (nullfact[0] if nullfact else None)
        if nonnull is True or nonnull is None:
            n += 1
            if len(cb) != 1:
                bad = (ps, len(cb))
        elif cb:
            bad = (ps, len(cb))
    if bad:
        ck.violated("C02-D2", st, K.loc(proc), "a path through processCommand invokes the handler %d times: %s"
                    % (bad[1], bad[0].describe()[:4]))
    elif n == 0:
        ck.anchor_lost("C02-D2", "no handler path in processCommand")
    else:
        ck.holds("C02-D2", st, K.loc(proc), "%d handler paths, one invocation each" % n)
    # dispatch once per unit, on the found edge
    pg = S.pg(parse)
    pcs = K.ordinal_sites(list(parse.calls("processCommand")))
    det = K.ordinal_sites(list(parse.calls("scpiParser_detectProgramMessageUnit")))
    fch = list(parse.calls("findCommandHeader"))
    st = K.site(parse, "dispatch", 0)
    if len(pcs) != 1 or not det or len(fch) != 1:
        ck.violated("C02-D2", st, K.loc(parse), "SCPI_Parse must contain one lookup and one dispatch per unit "
                    "(found %d findCommandHeader, %d processCommand)" % (len(fch), len(pcs)))
        return
    pc = pcs[0]
    # from after(pc) the dispatch cannot be reached again without passing the detection
    r = pg.reachable([pg.after(pc)], blocked_edge=lambda e: e.kind == "elem" and e.node in det)
    if pg.before(pc) in r:
        ck.violated("C02-D2", st, K.loc(parse, pc), "a unit can be dispatched twice")
    else:
        # only on the found edge: unreachable from the false edge of findCommandHeader within the unit
        true_dst, false_dst, _h = K.call_truth_edges(parse, pg, fch[0])
        r2 = pg.reachable(false_dst, blocked_edge=lambda e: e.kind == "elem" and e.node in det)
        r3 = pg.reachable([pg.after(det[0])], blocked_edge=lambda e: e.kind == "elem" and e.node is fch[0])
        if not false_dst or not true_dst:
            ck.violated("C02-D2", st, K.loc(parse, fch[0]), "the lookup result does not decide the dispatch")
        elif pg.before(pc) in r2:
            ck.violated("C02-D2", st, K.loc(parse, pc), "the handler is dispatched although no entry matched")
        elif pg.before(pc) in r3:
            ck.violated("C02-D2", st, K.loc(parse, pc), "the handler is dispatched without a table lookup for this unit")
        else:
            ck.holds("C02-D2", st, K.loc(parse, pc), "one dispatch per unit, only after a successful lookup")
    # D5 identity
    summ = {"findCommandHeader": X.return_stores(find)}
    pgs, sts = X.must_stored(parse, reset_calls=("scpiParser_detectProgramMessageUnit",), callee_summaries=summ, prog=prog)
    have = sts.get(pgs.before(pc), frozenset())
    hdr_arg = C.call_args(fch[0])[1].strip_all_casts().get("path") or ""
    # the header looked up: handed over as (token.ptr, token.len) or as the token itself (&token)
    hdr_tok = hdr_arg[:-len(".ptr")] if hdr_arg.endswith(".ptr") else (hdr_arg[1:] if hdr_arg.startswith("&") else None)
    for field, src_field in (("context->param_list.cmd", None), ("context->param_list.cmd_raw.data", "ptr"),
                             ("context->param_list.cmd_raw.length", "len")):
        st = K.site(parse, "identity(%s)" % field, 0)
        if not X.covers(field, have):
            ck.violated("C02-D5", st, K.loc(parse, pc), "`%s` is not set for this unit before the handler runs: "
                        "SCPI_IsCmd/SCPI_CmdTag/SCPI_CommandNumbers answer for another unit" % field)
            continue
        if src_field:
            sts_ = [n for n, t in C.stores(parse) if X.norm(t.get("path") or "") == field and n.get("op") == "="]
            okv = hdr_tok and all(n.child(1).strip_all_casts().get("path") == "%s.%s" % (hdr_tok, src_field) for n in sts_)
            if not okv:
                ck.violated("C02-D5", st, K.loc(parse, sts_[0] if sts_ else pc),
                            "`%s` is not taken from the composed header that was looked up (%s.%s)" % (field, hdr_tok, src_field))
                continue
            # ... and the header token is not rewritten (composed) between that copy and the dispatch
            def rewrites(n):
                if n.k != "CallExpr":
                    t = C.store_target(n)
                    return t is not None and (t.get("path") or "").startswith(hdr_tok + ".")
                mw = S.may_write(n.get("callee")) if n.get("callee") else None
                return any(a.strip_all_casts().get("path") == "&" + hdr_tok for a in C.call_args(n)) and (mw is None or len(mw) > 0)
            stale = None
            for n in sts_:
                r_ = pgs.reachable([pgs.after(n)], blocked_edge=lambda e: e.kind == "elem" and (e.node in det or e.node is pc))
                for q, es in pgs.out.items():
                    if q in r_:
                        for e in es:
                            if e.kind == "elem" and rewrites(e.node) and e.node not in det:
                                stale = stale or (n, e.node)
            if stale:
                ck.violated("C02-D5", st, K.loc(parse, stale[0]),
                            "`%s` is copied from the header token before `%s` rewrites that token: the handler sees the raw, "
                            "uncomposed header of the unit (SCPI_CommandNumbers / SCPI_IsCmd answer for other text than was matched)"
                            % (field, stale[1].src[:60]))
                continue
        ck.holds("C02-D5", st, K.loc(parse, pc), "stored on the found edge before dispatch")
    # readers read exactly these
    for name, fields in (("SCPI_IsCmd", ["param_list.cmd"]), ("SCPI_CmdTag", ["param_list.cmd"]),
                         ("SCPI_CommandNumbers", ["param_list.cmd", "param_list.cmd_raw.data", "param_list.cmd_raw.length"])):
        f = prog.fn(name)
        if f is None:
            if name != "SCPI_CmdTag":
                ck.anchor_lost("C02-D5", name)
            continue
        acc = {p for n, p, k in X.accesses(f) if p.startswith("context->")}
        st = K.site(f, "reads-identity", 0)
        missing = [x for x in fields if not any(a.startswith("context->" + x) for a in acc)]
        other = [a for a in acc if not a.startswith("context->param_list.cmd")]
        if missing or other:
            ck.violated("C02-D5", st, K.loc(f), "%s reads %s (expected the matched entry / composed header: %s)"
                        % (name, sorted(acc), fields))
        else:
            ck.holds("C02-D5", st, K.loc(f), "reads %s" % sorted(acc))
        ck.analysed(f)
    ck.analysed(proc, parse)


def rule_d9(ck, prog):
    """What the identity queries hand to the matcher (by evaluation with named unknowns, sa/interp.py): SCPI_IsCmd tests the
    TEXT IT IS GIVEN, in its full length, against the pattern of the matched entry; SCPI_CommandNumbers matches the effective
    header (cmd_raw.data, cmd_raw.length) against that pattern and passes the caller's array, capacity and default."""
    from sa import interp as I

    def ctx_with(entry_pattern, raw, rawlen):
        ctx = I.zero_object(prog, {"tk": "record", "ct": "struct _scpi_t"})
        pl = ctx.get("param_list")
        if not isinstance(pl, dict) or "cmd" not in pl or "cmd_raw" not in pl:
            raise I.Stuck("unexpected parameter list layout")
        pl["cmd"] = I.Ptr([{"pattern": entry_pattern, "callback": 0, "tag": 0}], 0)
        pl["cmd_raw"] = {"data": raw, "length": rawlen, "position": 0}
        return ctx
    f = prog.fn("SCPI_IsCmd")
    if f is not None:
        st = K.site(f, "probe-matched-in-full", 0)
        pat, probe = I.mkstring("AB"), I.mkstring("ABCDEFG")
        try:
            ctx = ctx_with(pat, I.mkstring("X"), 1)
            outs, m = I.explore(prog, f.name, [I.Ptr([ctx], 0), probe], follow=lambda n_: prog.fn(n_) is not None,
                                effects={"matchCommand": "fresh"})
            bad = None
            for _r, fr in outs:
                mc = [a for nm, a in fr.plog if nm == "matchCommand"]
                if len(mc) != 1:
                    bad = "%d matcher calls" % len(mc)
                    continue
                a = mc[0]
                if not (isinstance(a[0], I.Ptr) and a[0].cont is pat.cont):
                    bad = "the pattern handed to the matcher is not the matched entry's pattern"
                elif not (isinstance(a[1], I.Ptr) and a[1].cont is probe.cont and a[1].key == 0):
                    bad = "the text handed to the matcher is not the text given to SCPI_IsCmd"
                elif a[2] != 7:
                    bad = "a 7-character text is matched with length %r: a header longer than that is cut and SCPI_IsCmd answers for another text" % (a[2],)
            if bad:
                ck.violated("C02-D9", st, K.loc(f), bad)
            else:
                ck.holds("C02-D9", st, K.loc(f), "matchCommand(entry pattern, given text, strlen(given text))")
        except I.Stuck as e:
            ck.undecided("C02-D9", st, K.loc(f), "SCPI_IsCmd cannot be evaluated: %s" % e)
        ck.analysed(f)
    g = prog.fn("SCPI_CommandNumbers")
    if g is not None:
        st = K.site(g, "effective-header-matched", 0)
        pat, raw = I.mkstring("AB#"), I.mkstring("AB12")
        nums = [0, 0, 0]
        try:
            ctx = ctx_with(pat, raw, I.Sym("rawlen", 64))
            outs, m = I.explore(prog, g.name, [I.Ptr([ctx], 0), I.Ptr(nums, 0), I.Sym("cap", 64), I.Sym("dflt", 32)],
                                follow=lambda n_: prog.fn(n_) is not None, effects={"matchCommand": "fresh"})
            bad = None
            for _r, fr in outs:
                mc = [a for nm, a in fr.plog if nm == "matchCommand"]
                if len(mc) != 1 or len(mc[0]) < 6:
                    bad = "%d matcher calls" % len(mc)
                    continue
                a = mc[0]
                okk = isinstance(a[0], I.Ptr) and a[0].cont is pat.cont and isinstance(a[1], I.Ptr) and a[1].cont is raw.cont and a[1].key == 0 and \
                    isinstance(a[2], I.Sym) and a[2].name == "rawlen" and a[2].intact() and isinstance(a[3], I.Ptr) and a[3].cont is nums and \
                    isinstance(a[4], I.Sym) and a[4].name == "cap" and a[4].intact() and isinstance(a[5], I.Sym) and a[5].name == "dflt" and a[5].intact()
                if not okk:
                    bad = "the matcher is not called with (entry pattern, cmd_raw.data, cmd_raw.length, numbers, capacity, default): %r" % (a[:6],)
            if bad:
                ck.violated("C02-D9", st, K.loc(g), bad)
            else:
                ck.holds("C02-D9", st, K.loc(g), "matchCommand(entry pattern, cmd_raw.data, cmd_raw.length, numbers, len, default)")
        except I.Stuck as e:
            ck.undecided("C02-D9", st, K.loc(g), "SCPI_CommandNumbers cannot be evaluated: %s" % e)
        ck.analysed(g)


def rule_d3_d4(ck, prog, S):
    got = K.need(ck, prog, "C02-D3", "SCPI_Parse")
    if not got:
        return
    parse = got[0]
    pg = S.pg(parse)
    comp = K.ordinal_sites(list(parse.calls("composeCompoundCommand")))
    det = K.ordinal_sites(list(parse.calls("scpiParser_detectProgramMessageUnit")))
    if len(comp) != 1 or not det:
        ck.anchor_lost("C02-D3", "composeCompoundCommand / unit detection calls in SCPI_Parse")
        return
    a = C.call_args(comp[0])
    prev = (a[0].strip_all_casts().get("path") or "").lstrip("&")
    cur = (a[1].strip_all_casts().get("path") or "").lstrip("&")
    # (a) empty at the start of every message
    st = K.site(parse, "prev-empty-per-message", 0)
    init = None
    for d in parse.nodes.values():
        if d.k == "DeclStmt":
            for dd in d.get("decls", []):
                if dd["name"] == prev and "init" in dd:
                    init = parse.nodes[dd["init"]]
    ok_init = False
    if init is not None and init.k == "InitListExpr":
        vals = [C.const_of(x) for x in init.ch]
        # {type, ptr, len}: ptr NULL / len 0
        ok_init = len(vals) == 3 and vals[2] == 0 and (vals[1] == 0 or init.ch[1].strip_all_casts().get("cv") == 0
                                                       or "NULL" in init.ch[1].src or init.ch[1].src in ("((void *)0)", "0"))
    if ok_init:
        ck.holds("C02-D3", st, K.loc(parse, init), "previous header starts empty in every SCPI_Parse call")
    else:
        ck.violated("C02-D3", st, K.loc(parse), "the previous-header token is not initialised empty per message: "
                    "the first unit of a message is composed with the path of an earlier message")
    # (b) assigned from the composed header on every path from the composition to the next unit / exit
    st = K.site(parse, "prev-updated-after-compose", 0)
    upd = [n for n, t in C.stores(parse) if t.get("path") == prev and n.get("op") == "=" and
           n.child(1).strip_all_casts().get("path") == cur]
    reach = pg.reachable([pg.after(comp[0])], blocked_edge=lambda e: e.kind == "elem" and e.node in upd)
    if pg.before(det[0]) in reach:
        path = pg.find_path([pg.after(comp[0])], lambda p: p == pg.before(det[0]),
                            blocked_edge=lambda e: e.kind == "elem" and e.node in upd)
        ck.violated("C02-D3", st, K.loc(parse, comp[0]),
                    "after composeCompoundCommand rewrote the bytes in front of the current header there is a path to "
                    "the next unit on which `%s` still refers to the older header: the next relative header is resolved "
                    "against overwritten bytes" % prev, {"path": pg.describe_path(path or [])})
    else:
        ck.holds("C02-D3", st, K.loc(parse, comp[0]), "`%s = %s` on every path to the next unit" % (prev, cur))
    # other writers of prev
    others = [n for n, t in C.stores(parse) if (t.get("path") or "").split(".")[0] == prev and n not in upd]
    st = K.site(parse, "prev-writers", 0)
    if others:
        ck.violated("C02-D3", st, K.loc(parse, others[0]), "unexpected store to the previous-header token: `%s`" % others[0].src)
    else:
        ck.holds("C02-D3", st, K.loc(parse), "only the composed header is ever assigned")
    # the looked-up header is the composed one
    fch = list(parse.calls("findCommandHeader"))
    st = K.site(parse, "lookup-uses-composed-header", 0)
    if fch:
        fa = C.call_args(fch[0])
        ok = (len(fa) > 2 and fa[1].strip_all_casts().get("path") == cur + ".ptr" and fa[2].strip_all_casts().get("path") == cur + ".len") or \
            fa[1].strip_all_casts().get("path") == "&" + cur           # the token itself instead of its (ptr, len)
        r = pg.reachable([pg.after(det[0])], blocked_edge=lambda e: e.kind == "elem" and e.node is comp[0])
        if not ok:
            ck.violated("C02-D3", st, K.loc(parse, fch[0]), "the table lookup does not use the composed header token")
        elif pg.before(fch[0]) in r:
            ck.violated("C02-D3", st, K.loc(parse, fch[0]), "a unit can be looked up without composing its header first")
        else:
            ck.holds("C02-D3", st, K.loc(parse, fch[0]), "lookup of (%s.ptr, %s.len) after composition" % (cur, cur))
    # D4
    undef = prog.enumconst.get("SCPI_ERROR_UNDEFINED_HEADER", -113)
    sites = K.effect_sites(prog, S, parse, lambda c: c.get("callee") in ("SCPI_ErrorPushEx", "SCPI_ErrorPush") and C.const_of(K.arg(c, 1)) == -113)
    st = K.site(parse, "undefined-header", 0)
    if len(sites) != 1:
        if not sites:
            ck.anchor_lost("C02-D4", "no -113 site reachable from SCPI_Parse (directly or through a helper that always queues it)")
        else:
            ck.violated("C02-D4", st, K.loc(parse), "expected exactly one -113 site in SCPI_Parse, found %d" % len(sites))
    elif fch:
        p, real, host = sites[0]
        true_dst, false_dst, _h = K.call_truth_edges(parse, pg, fch[0])
        r_nf = pg.reachable(false_dst, blocked_edge=lambda e: e.kind == "elem" and (e.node is p))
        r_f = pg.reachable(true_dst, blocked_edge=lambda e: e.kind == "elem" and e.node in det)
        in_loop = any(parse.where[p.id][0].id in body and parse.where[fch[0].id][0].id not in body for h, body in C.loops(parse))
        ta = K.arg_through(prog, p, real, host, 2)
        text_ok = real.get("callee") == "SCPI_ErrorPushEx" and ta is not None
        if pg.before(det[0]) in r_nf or pg.exit in r_nf:
            ck.violated("C02-D4", st, K.loc(parse, p), "an undefined header can pass without queuing -113")
        elif pg.before(p) in r_f:
            ck.violated("C02-D4", st, K.loc(parse, p), "-113 can be queued although an entry matched")
        elif in_loop:
            ck.violated("C02-D4", st, K.loc(parse, p), "-113 is queued inside an inner loop (more than once per unit)")
        elif not text_ok:
            ck.violated("C02-D4", st, K.loc(parse, p), "-113 does not carry the text of the offending unit (`%s`)" % real.src)
        else:
            ck.holds("C02-D4", st, K.loc(parse, p), "exactly one -113 with the unit text on the not-found edge")
    # D8: where the -113 text starts.  The path composition copies the previous path IN FRONT of the current header,
    # i.e. over the bytes between the unit start and the header (the white space the unit detection skipped, and further
    # back).  A text that starts at the unit start therefore shows a torn piece of the copied path whenever white space
    # precedes a relative header; a text that starts at the header token (as lexed: saved before the composition, or as
    # composed: read after it) does not.
    if len(sites) == 1 and fch:
        p, real, host = sites[0]
        st = K.site(parse, "undefined-header-text", 0)
        ta = K.arg_through(prog, p, real, host, 2)
        unit_start = C.call_args(det[0])[1].strip_all_casts().get("path")
        tokptr = cur + ".ptr"

        def origin(e, depth=0):
            e = e.strip_all_casts()
            while e.k == "ParenExpr":
                e = e.child(0).strip_all_casts()
            pth = e.get("path")
            if pth == tokptr or pth == tokptr.replace("->", ".", 0):
                return {"header"}
            if pth == unit_start:
                return {"unit-start"}
            if e.k == "DeclRefExpr" and e["decl"]["kind"] == "local" and depth < 3:
                out = set()
                defs = [n for n, t in C.stores(parse) if t.get("path") == pth and n.get("op") == "="]
                for d in parse.nodes.values():
                    if d.k == "DeclStmt":
                        for dd in d.get("decls", []):
                            if dd["name"] == pth and "init" in dd:
                                out |= origin(parse.nodes[dd["init"]], depth + 1)
                for n in defs:
                    out |= origin(n.child(1), depth + 1)
                return out or {"?"}
            return {"?"}
        if ta is None or real.get("callee") != "SCPI_ErrorPushEx":
            ck.violated("C02-D8", st, K.loc(parse, p), "-113 is queued without the offending text (`%s`)" % real.src)
        else:
            og = origin(ta)
            if og == {"header"}:
                ck.holds("C02-D8", st, K.loc(parse, p), "-113 text starts at the header token `%s` (`%s`)" % (tokptr, ta.src))
            elif "unit-start" in og:
                ck.violated("C02-D8", st, K.loc(parse, p),
                            "the -113 text starts at the unit start `%s`; the unit detection skips white space in front of the header "
                            "and composeCompoundCommand copies the previous path over exactly those bytes, so a relative undefined "
                            "header after white space is reported with a torn piece of the path in front of it" % unit_start,
                            {"witness": "table {TEST:A}; input \"TEST:A;  NOPE\\r\\n\" queues -113 with text \"T:NOPE\"; "
                                        "\"TEST:A;      NOPE 1,2\\r\\n\" gives \" TEST:NOPE 1,2\""})
            else:
                ck.undecided("C02-D8", st, K.loc(parse, p), "cannot tell where the -113 text `%s` starts" % ta.src)
    ck.analysed(parse)


def rule_d6(ck, prog, S):
    got = K.need(ck, prog, "C02-D6", "composeCompoundCommand")
    if not got:
        return
    f = got[0]
    prevp, curp = f.params[0]["name"], f.params[1]["name"]
    # character comparisons
    tests = {}
    # the function itself and the static helpers it hands one of its two headers to (their parameter stands for that header)
    hosts = [(f, {prevp: prevp, curp: curp})]
    for c_ in f.calls():
        h_ = prog.fn(c_.get("callee") or "")
        if h_ is None or not h_.static or h_ is f or any(h_ is x for x, _ in hosts):
            continue
        ren = {}
        for i_, a_ in enumerate(C.call_args(c_)):
            ap = a_.strip_all_casts().get("path")
            if ap in (prevp, curp) and i_ < len(h_.params):
                ren[h_.params[i_]["name"]] = ap
        if ren:
            hosts.append((h_, ren))
    for h_, ren in hosts:
        for n in h_.nodes.values():
            if n.k == "BinaryOperator" and n.get("op") in ("==", "!="):
                l, r = n.child(0).strip_all_casts(), n.child(1)
                c = C.const_of(r)
                p = l.get("path") or ""
                if c is not None and "->ptr[" in p and p.split("->")[0] in ren:
                    tests.setdefault(ren[p.split("->")[0]] + ("[0]" if p.endswith("[0]") else "[scan]"), set()).add(chr(c))
                elif c is not None and p.startswith("*") and p.endswith("->ptr") and p[1:].split("->")[0] in ren:
                    tests.setdefault(ren[p[1:].split("->")[0]] + "[0]", set()).add(chr(c))
    st = K.site(f, "deciding-characters", 0)
    want = {curp + "[0]": {"*", ":"}, prevp + "[0]": {"*"}, prevp + "[scan]": {":"}}
    if tests != want:
        ck.violated("C02-D6", st, K.loc(f), "characters deciding 'header as written' / path delimiter are %s, expected %s"
                    % ({k: sorted(v) for k, v in tests.items()}, {k: sorted(v) for k, v in want.items()}))
    else:
        ck.holds("C02-D6", st, K.loc(f), "current[0] in {'*', ':'}, previous[0] == '*', delimiter ':' scanned from the end")
    # each early "as written" test returns without touching the current header
    # amounts
    st = K.site(f, "amounts", 0)
    mm = list(f.calls("memmove")) + list(f.calls("memcpy"))
    sub = [n for n, t in C.stores(f) if t.get("path") == curp + "->ptr" and n.get("op") == "-="]
    add = [n for n, t in C.stores(f) if t.get("path") == curp + "->len" and n.get("op") == "+="]
    # D7: how the bytes are moved
    st7 = K.site(f, "overlap-safe-copy", 0)
    copy_loops = []
    for n, t in C.stores(f):
        if n.get("op") == "=" and t.k in ("ArraySubscriptExpr", "UnaryOperator") and (t.get("path") or "").startswith(("%s->ptr" % curp, "*")):
            r = n.child(1).strip_all_casts()
            if (r.get("path") or "").startswith("%s->ptr" % prevp) or prevp in r.src:
                copy_loops.append(n)
    if [c for c in mm if c.get("callee") == "memmove"] and not copy_loops:
        ck.holds("C02-D7", st7, K.loc(f, mm[0]), "memmove")
    elif [c for c in mm if c.get("callee") != "memmove"]:
        ck.violated("C02-D7", st7, K.loc(f, mm[0]),
                    "the previous path is copied in front of the current header with %s although the two regions can overlap "
                    "(`SYST:COMM:A;B`): the effective header is assembled from bytes that were already overwritten" % mm[0]["callee"])
    elif copy_loops:
        n = copy_loops[0]
        body = [bd for h, bd in C.loops(f) if f.where[n.id][0].id in bd]
        idx = None
        t = C.store_target(n)
        if t.k == "ArraySubscriptExpr":
            idx = t.child(1).strip_all_casts().get("path")
        steps = [m for m, tt in C.stores(f) if tt.get("path") == idx and m.k == "UnaryOperator" and body and f.where[m.id][0].id in body[0]] if idx else []
        downs = [m for m in steps if m.get("op") == "--"]
        ups = [m for m in steps if m.get("op") == "++"]
        if downs and not ups:
            ck.holds("C02-D7", st7, K.loc(f, n), "byte loop running from the last byte down (safe for destination above source)")
        elif ups and not downs:
            ck.violated("C02-D7", st7, K.loc(f, n),
                        "the previous path is copied with an ascending byte loop; the destination lies above the source in the same "
                        "buffer, so for `SYST:COMM:A;B` bytes are read after they were overwritten and the effective header is garbage")
        else:
            ck.undecided("C02-D7", st7, K.loc(f, n), "cannot determine the direction of the copy loop")
    else:
        ck.undecided("C02-D7", st7, K.loc(f), "no copy of the previous path found")
    if copy_loops and not mm:
        # amounts of a hand-written copy are covered by the bounds of its loop; the pointer/length pair is still checked
        ok2 = len(sub) == 1 and len(add) == 1 and add[0].child(1).strip_all_casts().src == sub[0].child(1).strip_all_casts().src
        if ok2:
            ck.holds("C02-D6", st, K.loc(f, sub[0]), "ptr -= n; len += n with one amount (copy by loop, see D7)")
        else:
            ck.violated("C02-D6", st, K.loc(f), "pointer decrement and length increment do not use one amount")
    elif len(mm) != 1 or len(sub) != 1 or len(add) != 1:
        ck.violated("C02-D6", st, K.loc(f), "expected one pointer decrement, one length increment and one copy (found %d, %d, %d)"
                    % (len(sub), len(add), len(mm)))
    else:
        amt = sub[0].child(1).strip_all_casts().src
        a = C.call_args(mm[0])
        ok = add[0].child(1).strip_all_casts().src == amt and a[2].strip_all_casts().src == amt and \
            a[0].strip_all_casts().get("path") == curp + "->ptr" and a[1].strip_all_casts().get("path") == prevp + "->ptr"
        pg = S.pg(f)
        order = pg.before(mm[0]) in pg.reachable([pg.after(sub[0])]) and pg.before(sub[0]) not in pg.reachable([pg.after(mm[0])])
        if ok and order:
            ck.holds("C02-D6", st, K.loc(f, mm[0]), "ptr -= %s; len += %s; memmove(current, previous, %s)" % (amt, amt, amt))
        else:
            ck.violated("C02-D6", st, K.loc(f, mm[0]),
                        "pointer decrement, length increment and copy do not use one amount in the right order "
                        "(ptr -= %s; len += %s; copy %s)" % (amt, add[0].child(1).src, a[2].src))
    # scan starts at prev->len and counts down to the last ':'
    st = K.site(f, "scan", 0)
    scan_loops, idxs, dec_in, sf = [], [], [], f
    for h_, ren in hosts:
        pn = [k_ for k_, v_ in ren.items() if v_ == prevp]
        if not pn:
            continue
        loops = C.loops(h_)
        idxs_h = [n for n, t in C.stores(h_) if n.get("op") == "=" and n.child(1).strip_all_casts().get("path") == pn[0] + "->len"]
        for dn in h_.nodes.values():
            if dn.k == "DeclStmt":
                for dd in dn.get("decls", []):
                    if "init" in dd and h_.nodes[dd["init"]].strip_all_casts().get("path") == pn[0] + "->len":
                        idxs_h.append(dn)
        dec = [n for n, t in C.stores(h_) if n.k == "UnaryOperator" and n.get("op") == "--"]
        # the scan loop is the one that holds the ':' test
        colon_blocks = {h_.where[n.id][0].id for n in h_.nodes.values() if n.k == "BinaryOperator" and n.get("op") in ("==", "!=") and
                        C.const_of(n.child(1)) == ord(":") and n.id in h_.where}
        sl = [(hd, bd) for hd, bd in loops if colon_blocks & set(bd)]
        if sl:
            scan_loops += sl
            idxs, sf = idxs_h, h_
            dec_in = [n for n in dec if h_.where[n.id][0].id in sl[0][1]]
    if len(scan_loops) == 1 and idxs and dec_in:
        ck.holds("C02-D6", st, K.loc(sf, idxs[0]), "scan from previous->len downwards")
    else:
        ck.violated("C02-D6", st, K.loc(f), "the path scan does not run from the end of the previous header downwards")
    ck.analysed(f)
    # who calls it
    st = K.site(f, "callers", 0)
    callers = sorted({g.name for g, c in prog.callers("composeCompoundCommand")})
    if callers == ["SCPI_Parse"]:
        ck.holds("C02-D6", st, K.loc(f), "only SCPI_Parse composes headers")
    else:
        ck.violated("C02-D6", st, K.loc(f), "composeCompoundCommand called from %s" % callers)


def run(ck, fb, tier):
    for cfg in fb.configs:
        ck.config = cfg
        prog = fb[cfg]
        S = K.summaries(prog)
        rule_d1(ck, prog, S)
        rule_d2_d5(ck, prog, S)
        rule_d3_d4(ck, prog, S)
        rule_d9(ck, prog)
        rule_d6(ck, prog, S)
        K.narrowing_rule(ck, prog, "C02-N", lambda f_: f_.name in ("SCPI_Parse", "SCPI_Input", "processCommand", "findCommandHeader", "SCPI_CmdTag", "SCPI_IsCmd", "SCPI_CommandNumbers", "composeCompoundCommand", "matchCommand", "matchPattern"))
    ck.assume("matchCommand decides the pattern language (C03, not claimed)")
    if tier == "thorough":
        K.cross_config(ck, fb, "C02-XC", ['findCommandHeader', 'processCommand', 'composeCompoundCommand'])


TECHNIQUE = ("static analysis: decision table of the first-match scan by path enumeration, exactly-once / "
             "must-pass-through / never-reach over clang CFGs, must-stored dataflow for handler-visible identity, "
             "constant and amount audit of the in-place header composition")
LEVEL_TEXT = ("Clause-level static decision of the dispatch discipline on all CFG paths (first match, once, in order, "
              "path state updated on every path, -113 exactly once on the not-found edge, identity stored before the "
              "handler). Which headers a pattern accepts (C03) is not decided, so 'first entry whose pattern accepts' is "
              "decided as 'first entry for which matchCommand returns true'.")
LEVEL_NOTE = "Trusted: clang CFG, extractor. matchCommand's language is outside this check."
DESIGN_REF = "DESIGN.md section 5, C02"
