"""C04 — numeric parameters decode to the value their literal denotes (tables and wiring)."""
from sa import cfg as C
from sa import paths as P
from . import common as K

CONFIGS_QUICK = ["A", "E", "F"]
CONFIGS_THOROUGH = ["A", "B", "C", "D", "E", "F"]

EXPLANATION = (
    "Static, clause-level decision of C04: TABLES AND WIRING ONLY. Decided: (N1) the special-number "
    "table maps MINimum ... AUTO (with exactly this upper/lower-case split, which is the "
    "short/long form) to their tags and is terminated; (N2) every row of the unit table whose name "
    "parses as [prefix]base against IEEE 488.2 tables 7-1/7-2 has multiplier = prefix factor x "
    "base factor (MOHM/MHZ = 10^6) and the base's unit tag, fixed special rows have the "
    "standard's factors, names are unique ignoring case; unclassifiable rows are reported, not "
    "failed; (N3) token class -> radix is HEX->16, OCT->8, BIN->2, DECIMAL(+-suffix)->10 in both "
    "integer decoders and in SCPI_ParamNumber, identically, and the lexer maps H/Q/B to those "
    "classes with the matching digit recogniser; (N4) each width/sign uses the matching libc "
    "converter (strtol / strtoul / strtoll / strtoull / strtof / strtod) on the token start and "
    "returns the consumed length; float parameters go through the float converter; (N5) the "
    "unit lookup compares the WHOLE suffix (length-exact, case-insensitive) and the multiplier "
    "and unit of the row found are applied. NOT decided: correct rounding, exactness, and that "
    "the converter consumes the whole literal (observed, outside static reach: '1 E5' decodes "
    "to 1 because strtod stops at the blank the lexer accepts before the exponent).")

RULES = {
    "C04-N1": "special-number table: MINimum..AUTO -> SCPI_NUM_MIN..SCPI_NUM_AUTO, terminated",
    "C04-N2": "unit table rows: multiplier = 488.2 prefix factor x base factor, unit tag of the base; special rows; unique names",
    "C04-N3": "token class -> radix wiring identical in all decoders; lexer letter -> class -> digit recogniser",
    "C04-N4": "converter wiring: width/sign -> strtol/strtoul/strtoll/strtoull/strtof/strtod on the token start; consumed length returned",
    "C04-N6": "(builds without strncasecmp) the library's own comparison treats two bytes as equal exactly when they are equal after folding A-Z onto a-z",
    "C04-N7": "the floating readers account for the whole token: a decimal token may contain white space before the exponent and after its 'E' (C13-T5), which strtod/strtof do not read - the consumed length is compared with the token length or the conversion is length-aware",
    "C04-N8": "SCPI_ParamNumber delivers a numeric literal as a number: on every path selected by a numeric token class `special` stays FALSE and no tag is stored over the value (special tags come from character data only)",
    "C04-N5": "unit lookup is length-exact and case-insensitive; multiplier and unit of the found row are applied",
}


def sval(x):
    return x.get("str") if isinstance(x, dict) else None


def fval(x):
    if isinstance(x, dict):
        return x.get("f")
    return x


def rule_n1(ck, prog, spec):
    g = prog.global_var("scpi_special_numbers_def")
    st = "scpi_special_numbers_def/rows#0"
    if not g:
        ck.anchor_lost("C04-N1", "scpi_special_numbers_def")
        return
    rows = g["init"]
    got = [(sval(r.get("name")), r.get("tag")) for r in rows[:-1]]
    want = [(n, prog.enumconst.get(t)) for n, t in spec["special_numbers"]]
    term = rows[-1].get("name") is None
    where = "libscpi/src/units.c:%d" % g["line"]
    if sorted(got) == sorted(want) and term:
        ck.holds("C04-N1", st, where, "%d mnemonics with their tags, NULL-terminated" % len(got))
    else:
        ck.violated("C04-N1", st, where, "special numbers are %s, expected %s (terminated: %s)"
                    % (sorted(set(got) - set(want)), sorted(set(want) - set(got)), term))


def classify(name, spec):
    """(unit tag name, factor) the standard gives to a suffix, or None"""
    up = name.upper()
    if up in spec["specials"]:
        u, f, _ = spec["specials"][up]
        return u, f
    out = []
    if up in spec["bases"]:
        out.append((spec["bases"][up][0], spec["bases"][up][1]))
    for p, pf in spec["prefixes"].items():
        if up.startswith(p) and up[len(p):] in spec["bases"]:
            b = spec["bases"][up[len(p):]]
            f = spec["prefix_exceptions"].get(up, pf) * b[1] if up in spec["prefix_exceptions"] else pf * b[1]
            out.append((b[0], f))
    if up in spec["prefix_exceptions"]:
        # MOHM / MHZ: only the mega reading is valid
        out = [(u, f) for u, f in out if abs(f - spec["prefix_exceptions"][up]) < 1e-9 * spec["prefix_exceptions"][up]]
    return out or None


def rule_n2(ck, prog, spec):
    g = prog.global_var("scpi_units_def")
    if not g:
        ck.anchor_lost("C04-N2", "scpi_units_def")
        return
    rows = g["init"]
    where = "libscpi/src/units.c:%d" % g["line"]
    unit_enum = prog.enums.get("_scpi_unit_t", {"consts": {}})["consts"]
    uname = {v: k for k, v in unit_enum.items()}
    seen = {}
    nclass = 0
    unclassified = []
    if rows and rows[-1].get("name") is not None:
        ck.violated("C04-N2", "scpi_units_def/terminator#0", where, "the unit table is not NULL-terminated")
    ends = [i for i, r in enumerate(rows) if isinstance(r, dict) and r.get("name") is None]
    if ends and ends[0] != len(rows) - 1:
        cut = [sval(r.get("name")) for r in rows[ends[0] + 1:] if isinstance(r, dict) and r.get("name") is not None]
        ck.violated("C04-N2", "scpi_units_def/rows-after-terminator#0", where,
                    "row %d of %d ends the table: the lookup stops there and the suffixes %s behind it are never found (-131)"
                    % (ends[0], len(rows), cut))
    elif ends:
        ck.holds("C04-N2", "scpi_units_def/rows-after-terminator#0", where, "the only row without a name is the last of %d" % len(rows))
    for i, r in enumerate(rows):
        name = sval(r.get("name"))
        if name is None:
            continue
        st = "scpi_units_def/%s#0" % name
        if name.upper() in seen:
            ck.violated("C04-N2", st, where, "suffix %s is listed twice (rows %d and %d): the first one always wins" % (name, seen[name.upper()], i))
            continue
        seen[name.upper()] = i
        c = classify(name, spec)
        got_u, got_f = uname.get(r.get("unit")), fval(r.get("mult"))
        if c is None:
            unclassified.append(name)
            continue
        nclass += 1
        if isinstance(c, tuple):
            c = [c]
        # the multiplier is the double nearest to the standard's factor (two units in the last place are allowed for a
        # factor written as a product); a decimal constant with fewer digits is a different number
        import math
        ok = any(u == got_u and got_f is not None and abs(got_f - f) <= 2 * math.ulp(float(f)) for u, f in c)
        if ok:
            ck.holds("C04-N2", st, where, "%s = %g %s" % (name, got_f, got_u))
        else:
            ck.violated("C04-N2", st, where, "suffix %s decodes to %r x %s; IEEE 488.2 gives %s"
                        % (name, got_f, got_u, " or ".join("%r x %s" % (float(f), u) for u, f in c)))
    ck.holds("C04-N2", "scpi_units_def/unclassified#0", where,
             "rows the auditor cannot classify (reported, not judged): %s" % unclassified, nontrivial=False)
    ck.floor("C04-N2", 60)


def rule_n3(ck, prog, spec, S):
    radix = {prog.enumconst.get(k): v for k, v in spec["radix"].items()}
    tables = {}
    for name in ("ParamSignToUInt32", "ParamSignToUInt64"):
        f = prog.fn(name)
        if f is None:
            ck.anchor_lost("C04-N3", name)
            continue
        tab = {}
        # class -> (radix, converter argument) by evaluating the decoder on a parameter of each token class (its text unknown):
        # the converter calls reached are read off with their evaluated radix, whether the class is dispatched by a switch,
        # an if-chain or a table
        from sa import interp as I
        evaluated = True
        for cls in radix:
            if cls is None:
                continue
            tokptr = object()
            param = {"type": cls, "ptr": I.TOP, "len": I.TOP}
            try:
                outs, m_ = I.explore(prog, name, [I.TOP, I.Ptr([param], 0), I.TOP, I.TOP], follow=lambda n_: False)
            except I.Stuck:
                evaluated = False
                break
            for cn, a in m_.log:
                if (cn or "").startswith("strBaseTo") and len(a) >= 3 and isinstance(a[2], int):
                    tab.setdefault(cls, set()).add((a[2], f.params[1]["name"] + "->ptr"))
        if evaluated:
            # the converter's text argument is the token start: decided on the call sites themselves
            for c in f.calls():
                if (c.get("callee") or "").startswith("strBaseTo"):
                    if C.call_args(c)[0].strip_all_casts().get("path") != f.params[1]["name"] + "->ptr":
                        for k_ in tab:
                            tab[k_] = {(b_, C.call_args(c)[0].strip_all_casts().get("path")) for b_, _p in tab[k_]}
        else:
            tab = {}
            for ps in P.summarize(f):
                cls = None
                for a, pol in ps.facts:
                    if isinstance(pol, tuple) and pol[0] == "case" and (a.get("path") or "").endswith("type"):
                        cls = pol[1]
                conv = [c for c in ps.calls if (c.get("callee") or "").startswith("strBaseTo")]
                if cls is not None and conv:
                    tab.setdefault(cls, set()).add((C.const_of(K.arg(conv[0], 2)),
                                                    C.call_args(conv[0])[0].strip_all_casts().get("path")))
        tables[name] = tab
        st = K.site(f, "radix-wiring", 0)
        bad = []
        for cls, b in radix.items():
            got = tab.get(cls)
            if not got or {x[0] for x in got} != {b}:
                bad.append("%s is converted with radix %s, not %d" % (K.enum_name(prog, "_scpi_token_type_t", cls), sorted(x[0] for x in got) if got else None, b))
            elif {x[1] for x in got} != {f.params[1]["name"] + "->ptr"}:
                bad.append("the converter is not applied at the token start")
        if bad:
            ck.violated("C04-N3", st, K.loc(f), "; ".join(bad))
        else:
            ck.holds("C04-N3", st, K.loc(f), "HEX->16, OCT->8, BIN->2, DECIMAL(+-suffix)->10 at parameter->ptr")
        ck.analysed(f)
    # SCPI_ParamNumber value->base
    f = prog.fn("SCPI_ParamNumber")
    if f is not None:
        tab = {}
        from sa import interp as I
        evaluated = True
        vname = f.params[2]["name"] if len(f.params) > 2 else None
        for cls in radix:
            if cls is None or vname is None:
                continue

            def hook(mach, args, cls=cls):
                obj = args[1].load() if isinstance(args[1], I.Ptr) else None
                if obj is None and isinstance(args[1], I.Ptr):
                    obj = {}
                    args[1].store(obj)
                if isinstance(obj, dict):
                    obj.update({"type": cls, "ptr": I.TOP, "len": I.TOP})
                return 1
            value = {}
            seen_ = set()

            def obs(kind, node, ops, fr, value=value, seen_=seen_):
                if kind == "store" and isinstance(ops[0], I.Ptr) and ops[0].key == "base" and isinstance(ops[1], int):
                    tgt = node.child(0).strip_all_casts()
                    if tgt.k == "MemberExpr" and tgt.get("arrow") and tgt.child(0).strip_all_casts().get("path") == vname:
                        seen_.add(ops[1])
            try:
                I.explore(prog, f.name, [I.TOP, I.TOP, I.Ptr([value], 0), I.TOP], observer=obs, follow=lambda n_: False,
                          effects={"SCPI_Parameter": hook})
            except I.Stuck:
                evaluated = False
                break
            if seen_:
                tab[cls] = set(seen_)
        for ps in (P.summarize(f, limit=100000) if not evaluated else ()):
            cls = None
            base = None
            for ev in ps.events:
                if ev[0] == "store" and (C.store_target(ev[1]).get("path") or "") == "value->base":
                    base = C.const_of(ev[1].child(1))
            for a, pol in ps.facts:
                if isinstance(pol, tuple) and pol[0] == "case" and (a.get("path") or "") == "param.type":
                    cls = pol[1]
            if cls is not None and base is not None:
                tab.setdefault(cls, set()).add(base)
        st = K.site(f, "radix-wiring", 0)
        bad = ["%s -> base %s, expected %d" % (K.enum_name(prog, "_scpi_token_type_t", c), sorted(tab.get(c, [])), b)
               for c, b in radix.items() if tab.get(c) != {b}]
        if bad:
            ck.violated("C04-N3", st, K.loc(f), "; ".join(bad))
        else:
            ck.holds("C04-N3", st, K.loc(f), "value->base per token class as in the integer decoders")
        ck.analysed(f)
    # lexer: letter -> class -> digit recogniser, decided by byte-wise reachability
    from .lexmodel import LexModel
    from . import c13
    f = prog.fn("scpiLex_NondecimalNumericData")
    if f is None:
        ck.anchor_lost("C04-N3", "scpiLex_NondecimalNumericData")
        return
    got = c13.nondecimal_letter_classes(prog, S, LexModel(prog, S))
    want = {prog.enumconst.get("SCPI_TOKEN_HEXNUM"): ({ord("h"), ord("H")}, "skipHexNum"),
            prog.enumconst.get("SCPI_TOKEN_OCTNUM"): ({ord("q"), ord("Q")}, "skipOctNum"),
            prog.enumconst.get("SCPI_TOKEN_BINNUM"): ({ord("b"), ord("B")}, "skipBinNum")}
    st = K.site(f, "letter->class->digits", 0)
    bad = []
    for cls, (letters, rec) in want.items():
        g = (got or {}).get(cls)
        name = K.enum_name(prog, "_scpi_token_type_t", cls)
        if g is None:
            bad.append("no letter selects %s" % name)
        elif g[0] != letters:
            bad.append("%s is selected by {%s}, expected {%s}" % (name, c13.show(g[0] or set()), c13.show(letters)))
        elif g[1] is not None and g[1] != rec:
            bad.append("%s digits are recognised by %s, expected %s" % (name, g[1], rec))
        elif len(g) > 2 and g[2] is not None:
            wantd = {"skipHexNum": set(b"0123456789abcdefABCDEF"), "skipOctNum": set(b"01234567"), "skipBinNum": set(b"01")}[rec]
            if g[2] != wantd:
                bad.append("after the %s letter the digits {%s} are accepted, expected {%s}" % (name, c13.show(g[2]), c13.show(wantd)))
    if bad:
        ck.violated("C04-N3", st, K.loc(f), "; ".join(bad))
    else:
        ck.holds("C04-N3", st, K.loc(f), "#H/h -> hex digits/HEXNUM, #Q/q -> octal/OCTNUM, #B/b -> binary/BINNUM")
    ck.analysed(f)


def rule_n4(ck, prog, spec):
    for name, libc in spec["converters"].items():
        f = prog.fn(name)
        if f is None:
            ck.anchor_lost("C04-N4", name)
            continue
        st = K.site(f, "converter", 0)
        calls = [c for c in f.calls() if c.get("callee") in ("strtol", "strtoul", "strtoll", "strtoull", "strtof", "strtod", "strtold")]
        probs = []
        if len(calls) != 1 or calls[0].get("callee") not in libc:
            probs.append("%s converts with %s, expected %s" % (name, [c.get("callee") for c in calls], libc[0]))
        else:
            a = C.call_args(calls[0])
            if a[0].strip_all_casts().get("path") != f.params[0]["name"]:
                probs.append("the converter is not applied to the string argument")
            ep = a[1].strip_all_casts().get("path") or ""
            if len(a) == 3 and a[2].strip_all_casts().get("path") != f.params[2]["name"]:
                probs.append("the radix argument is not passed through")
            rets = [n for n in f.nodes.values() if n.k == "ReturnStmt" and n.ch]
            if not rets or rets[0].child(0).strip_all_casts().src.replace(" ", "") != "%s-%s" % (ep.lstrip("&"), f.params[0]["name"]):
                probs.append("the consumed length (endptr - str) is not what is returned")
            # the value is stored directly from the converter's result (no detour through another type)
            par = f.parent_of(calls[0])
            while par is not None and par.k in ("ImplicitCastExpr", "ParenExpr", "CStyleCastExpr"):
                par = f.parent_of(par)
            if par is None or par.get("op") != "=" or par.child(0).strip().get("path") != "*" + f.params[1]["name"]:
                probs.append("the converter's result is not stored directly into *%s" % f.params[1]["name"])
        if probs:
            ck.violated("C04-N4", st, K.loc(f), "; ".join(probs))
        else:
            ck.holds("C04-N4", st, K.loc(f), "%s -> %s(str, &endptr%s), returns endptr - str" % (name, calls[0]["callee"], ", base" if len(C.call_args(calls[0])) == 3 else ""))
        ck.analysed(f)
    # width/sign selection
    for name, signed, unsigned_ in (("ParamSignToUInt32", "strBaseToInt32", "strBaseToUInt32"), ("ParamSignToUInt64", "strBaseToInt64", "strBaseToUInt64")):
        f = prog.fn(name)
        if f is None:
            continue
        st = K.site(f, "sign-selection", 0)
        bad = []
        for ps in P.summarize(f):
            sg = [pol for a, pol in ps.facts if not isinstance(pol, tuple) and a.get("path") == "sign"]
            conv = [c.get("callee") for c in ps.calls if (c.get("callee") or "").startswith("strBaseTo")]
            if sg and conv:
                if conv[0] != (signed if sg[-1] else unsigned_):
                    bad.append("sign=%s uses %s" % (sg[-1], conv[0]))
            elif conv and conv[0] != unsigned_:
                bad.append("non-decimal literal decoded with %s" % conv[0])
        if bad:
            ck.violated("C04-N4", st, K.loc(f), "; ".join(sorted(set(bad))))
        else:
            ck.holds("C04-N4", st, K.loc(f), "signed decimal -> %s, everything else -> %s" % (signed, unsigned_))
    for name, conv in (("SCPI_ParamToFloat", "strToFloat"), ("SCPI_ParamToDouble", "strToDouble")):
        f = prog.fn(name)
        if f is None:
            ck.anchor_lost("C04-N4", name)
            continue
        st = K.site(f, "float-converter", 0)
        cs = [c for c in f.calls() if c.get("callee") in ("strToFloat", "strToDouble")]
        if len(cs) == 1 and cs[0]["callee"] == conv and C.call_args(cs[0])[0].strip_all_casts().get("path") == f.params[1]["name"] + "->ptr" \
                and C.call_args(cs[0])[1].strip_all_casts().get("path") == f.params[2]["name"]:
            ck.holds("C04-N4", st, K.loc(f, cs[0]), "%s(parameter->ptr, value)" % conv)
        else:
            ck.violated("C04-N4", st, K.loc(f), "%s decodes decimal literals with %s" % (name, [c.get("callee") for c in cs]))
        # the non-decimal arm goes through an integer decoder wide enough for the floating type's exact range
        ints = [c for c in f.calls() if (c.get("callee") or "").startswith(("SCPI_ParamToUInt", "SCPI_ParamToInt"))]
        st = K.site(f, "nondecimal-width", 0)
        if not ints:
            ck.anchor_lost("C04-N4", "integer decoder of the non-decimal arm of %s" % name)
        elif name == "SCPI_ParamToDouble":
            narrow = [c for c in ints if not c["callee"].endswith("64")]
            if narrow:
                ck.violated("C04-N4", st, K.loc(f, narrow[0]),
                            "SCPI_ParamToDouble decodes #H/#Q/#B literals through %s: literals above 2^32 (exactly "
                            "representable in a double up to 2^53) are no longer delivered exactly" % narrow[0]["callee"])
            else:
                ck.holds("C04-N4", st, K.loc(f, ints[0]), "non-decimal literals decoded with %s" % ints[0]["callee"])
        else:
            narrow = [c for c in ints if not c["callee"].endswith("64")]
            if narrow:
                ck.violated("C04-N4", st, K.loc(f, narrow[0]),
                            "SCPI_ParamToFloat decodes #H/#Q/#B literals through %s: a literal above 2^32 is delivered modulo 2^32 "
                            "(`#H100000001` gives 1.0 instead of 4294967297 rounded to float)" % narrow[0]["callee"])
            else:
                ck.holds("C04-N4", st, K.loc(f, ints[0]), "non-decimal literals decoded with %s" % ints[0]["callee"])


def rule_n7(ck, prog):
    gram = K.load_spec("grammar_488_2.json")["sequences"]
    ws_inside = any("skipWs" in seq[1:] for seqs in (gram.get("scpiLex_DecimalNumericProgramData", []), gram.get("skipExponent", [])) for seq in seqs)
    for name, conv in (("SCPI_ParamToDouble", "strToDouble"), ("SCPI_ParamToFloat", "strToFloat")):
        f = prog.fn(name)
        if f is None:
            ck.anchor_lost("C04-N7", name)
            continue
        st = K.site(f, "whole-token", 0)
        par = f.params[1]["name"]
        cs = [c for c in f.calls() if c.get("callee") == conv]
        if not ws_inside:
            ck.holds("C04-N7", st, K.loc(f), "the token grammar has no inner white space", nontrivial=False)
            continue
        if not cs:
            # another conversion route: it must be handed the token length
            aware = [c for c in f.calls() if any(a.strip_all_casts().get("path") == par + "->len" for a in C.call_args(c))]
            if aware:
                ck.holds("C04-N7", st, K.loc(f, aware[0]), "length-aware conversion `%s`" % aware[0].src[:60])
            else:
                ck.undecided("C04-N7", st, K.loc(f), "conversion of the decimal arm not found")
            continue
        c = cs[0]
        # is the consumed length (the call's value) compared with the token length ?
        compared = False
        lenpath = par + "->len"
        holders = {None}
        for n, t in C.stores(f):
            if n.get("op") == "=" and n.child(1).strip_all_casts() is c:
                holders.add(t.get("path"))
        for n in f.nodes.values():
            if n.k == "DeclStmt":
                for d in n.get("decls", []):
                    if "init" in d and f.nodes[d["init"]].strip_all_casts() is c:
                        holders.add(d["name"])
        for n in f.nodes.values():
            if n.k == "BinaryOperator" and n.get("op") in ("==", "!=", "<", ">=", ">", "<="):
                l, r = n.child(0).strip_all_casts(), n.child(1).strip_all_casts()
                sides = [l, r]
                has_len = any(x.get("path") == lenpath or any(y.get("path") == lenpath for y in x.walk()) for x in sides)
                has_conv = any(x is c or x.get("path") in (holders - {None}) for x in sides)
                if has_len and has_conv:
                    compared = True
        if compared or any(a.strip_all_casts().get("path") == lenpath for a in C.call_args(c)):
            ck.holds("C04-N7", st, K.loc(f, c), "characters converted are checked against the token length")
        else:
            ck.violated("C04-N7", st, K.loc(f, c),
                        "%s accepts `%s(...) > 0`: the token may contain white space before the exponent and after its 'E' "
                        "(`1 E5`, `1E 5`), %s stops there, and the value of the prefix (1) is delivered as the value of the literal"
                        % (name, conv, "strtod" if conv == "strToDouble" else "strtof"))
        ck.analysed(f)


def rule_n5(ck, prog, S):
    f = prog.fn("translateUnit")
    if f is None:
        ck.anchor_lost("C04-N5", "translateUnit")
        return
    st = K.site(f, "whole-suffix-compare", 0)
    cs = [c for c in f.calls() if c.get("callee") in ("compareStr", "strncasecmp", "OUR_strncasecmp", "strnicmp", "strncmp", "memcmp")]
    ok = False
    if len(cs) == 1 and cs[0]["callee"] == "compareStr":
        a = C.call_args(cs[0])
        n0, l0 = a[0].strip_all_casts().get("path"), a[1].strip_all_casts().get("path")
        nm = a[2].strip_all_casts().get("path") or ""
        ln = a[3].strip_all_casts()
        # the row: an element `units[i]` or a row pointer walking the table `def`
        row = nm[:-len(".name")] if nm.endswith("].name") else nm[:-len("->name")] if nm.endswith("->name") else None
        ok = (n0 == f.params[1]["name"] and l0 == f.params[2]["name"] and row is not None and ln.k == "CallExpr" and
              ln.get("callee") in ("strlen", "__builtin_strlen") and C.call_args(ln)[0].strip_all_casts().get("path") == nm)
    if ok:
        # and the row returned is the row compared
        rets = [n for n in f.nodes.values() if n.k == "ReturnStmt" and n.ch and not C.is_null(n.child(0))]
        same = rets and all((r.child(0).strip_all_casts().get("path") or "") == ("&" + row if nm.endswith("].name") else row)
                            for r in rets)
        if same:
            ck.holds("C04-N5", st, K.loc(f, cs[0]), "compareStr(unit, len, row.name, strlen(row.name)); returns that row")
        else:
            ck.violated("C04-N5", st, K.loc(f), "the row returned is not the row whose name matched")
    else:
        ck.violated("C04-N5", st, K.loc(f, cs[0]) if cs else K.loc(f),
                    "the unit lookup does not compare the whole suffix against the whole table name (`%s`): a suffix that is a "
                    "prefix of an earlier row resolves to that row" % (cs[0].src if cs else None))
    g = prog.fn("compareStr")
    if g is not None:
        st = K.site(g, "length-exact", 0)
        sums = P.summarize(g)
        l1, l2 = g.params[1]["name"], g.params[3]["name"]
        # every path on which the two lengths are known to differ returns FALSE; every TRUE path knows them equal and has
        # seen the case-insensitive comparison come out as 0 (whatever the control-flow spelling: guard, nesting, flag)
        ci_names = ("strncasecmp", "OUR_strncasecmp", "strnicmp", "_strnicmp")
        ci = [c for c in g.calls() if c.get("callee") in ci_names]
        bad = None
        for ps in sums:
            t = ps.ret.truth() if ps.ret is not None else None
            differ = K.holds_rel(ps.facts, l1, "!=", l2)
            equal = K.holds_rel(ps.facts, l1, "==", l2)
            if differ and t is not False:
                bad = "a path with %s != %s does not return FALSE" % (l1, l2)
            if t is not False:
                cmp0 = any(not isinstance(pol, tuple) and a.k == "BinaryOperator" and a.get("op") in ("==", "!=") and
                           (pol if a["op"] == "==" else not pol) and C.const_of(a.child(1)) == 0 and
                           a.child(0).strip_all_casts().k == "CallExpr" and a.child(0).strip_all_casts().get("callee") in ci_names
                           for a, pol in ps.facts) or \
                    any(not isinstance(pol, tuple) and a.k == "CallExpr" and a.get("callee") in ci_names and pol is False for a, pol in ps.facts)
                if not equal or not cmp0:
                    bad = bad or "a path can return TRUE without equal lengths and an equal case-insensitive comparison (%s)" % ps.describe()[-3:]
        if ci and bad is None and any(ps.ret is not None and ps.ret.truth() is True for ps in sums):
            ck.holds("C04-N5", st, K.loc(g), "different lengths => FALSE; equal lengths compared case-insensitively")
        else:
            ck.violated("C04-N5", st, K.loc(g), "compareStr is not a length-exact case-insensitive comparison: %s" % (bad or "no case-insensitive comparison / no TRUE path"))
        ck.analysed(g)
    # SCPI_ParamNumber: number and suffix are split where the lexer split them
    pn = prog.fn("SCPI_ParamNumber")
    if pn is None:
        ck.anchor_lost("C04-N5", "SCPI_ParamNumber")
    else:
        st = K.site(pn, "suffix-split", 0)
        wsfx = prog.enumconst.get("SCPI_TOKEN_DECIMAL_NUMERIC_PROGRAM_DATA_WITH_SUFFIX")
        npaths, bad = 0, None
        try:
            sums = P.summarize(pn)
        except P.TooManyPaths:
            sums = None
        for ps in sums or []:
            look = [c for c in ps.calls if c.get("callee") == "transformNumber"]
            if not look:
                continue
            npaths += 1
            tset = set()
            for a, pol in ps.facts:
                if isinstance(pol, tuple) and pol[0] == "case" and (a.get("path") or "").endswith("type"):
                    tset = set(range(pol[1], pol[2] + 1))
            if tset != {wsfx}:
                bad = bad or (look[0], "the unit lookup is reached for token classes %s, not only for a number with suffix" % sorted(tset))
                continue
            a = C.call_args(look[0])
            paths_ = [(x.strip_all_casts().get("path") or "") for x in a]
            tok = None
            for sp in paths_:
                # the suffix as (token.ptr, token.len) or as the token itself
                if sp.endswith(".ptr") and sp[:-len(".ptr")] + ".len" in paths_:
                    tok = sp[:-len(".ptr")]
                elif sp.startswith("&") and any(len(C.call_args(c)) >= 2 and (C.call_args(c)[1].strip_all_casts().get("path") or "") == sp and
                                                (c.get("callee") or "").startswith("scpiLex_") for c in ps.calls):
                    tok = sp[1:]
            if tok is None:
                bad = bad or (look[0], "the text handed to the unit lookup (`%s`) is not a token the lexer produced"
                              % ", ".join(x.src for x in a[1:-1]))
                continue
            before = ps.calls[:ps.calls.index(look[0])]
            fills = [c for c in before if len(C.call_args(c)) >= 2 and (C.call_args(c)[1].strip_all_casts().get("path") or "") == "&" + tok]
            if not fills or fills[-1].get("callee") != "scpiLex_SuffixProgramData":
                bad = bad or (look[0], "token `%s` was last filled by %s, not by the suffix recogniser"
                              % (tok, fills[-1].get("callee") if fills else "nothing"))
                continue
            state = C.call_args(fills[-1])[0].strip_all_casts().get("path")
            seq = [c.get("callee") for c in before if (c.get("callee") or "").startswith("scpiLex_") and C.call_args(c) and
                   C.call_args(c)[0].strip_all_casts().get("path") == state]
            if seq != ["scpiLex_DecimalNumericProgramData", "scpiLex_WhiteSpace", "scpiLex_SuffixProgramData"]:
                bad = bad or (fills[-1], "the cursor reaches the suffix through %s; the 488.2 split is mantissa/exponent, optional "
                              "white space, suffix" % seq)
        if sums is None:
            ck.undecided("C04-N5", st, K.loc(pn), "too many paths")
        elif not npaths:
            ck.anchor_lost("C04-N5", "SCPI_ParamNumber never reaches transformNumber")
        elif bad:
            ck.violated("C04-N5", st, K.loc(pn, bad[0]), bad[1] + ": a suffix the lexer recognised (`0XF` is 0 with suffix XF) "
                        "is otherwise decoded differently from what was lexed, and an unknown one escapes -131")
        else:
            ck.holds("C04-N5", st, K.loc(pn), "%d path(s): decimal, white space, suffix recognisers on one cursor; the suffix token goes "
                     "to the unit lookup" % npaths)
        ck.analysed(pn)
    # a numeric literal is delivered as a number, never as a special tag
    if pn is not None and sums:
        st = K.site(pn, "numeric-literal-stays-a-number", 0)
        numeric = {prog.enumconst.get(k_) for k_ in ("SCPI_TOKEN_DECIMAL_NUMERIC_PROGRAM_DATA", "SCPI_TOKEN_HEXNUM", "SCPI_TOKEN_OCTNUM",
                                                      "SCPI_TOKEN_BINNUM", "SCPI_TOKEN_DECIMAL_NUMERIC_PROGRAM_DATA_WITH_SUFFIX")} - {None}
        bad = None
        nnum = 0
        vname = pn.params[2]["name"] if len(pn.params) > 2 else "value"

        def marks_special(fn_, vn, depth=0):
            """a store of something other than FALSE to vn->special / of anything to vn->content.tag in fn_ or its static helpers"""
            for n_, t_ in C.stores(fn_):
                tp = t_.get("path") or ""
                if tp == vn + "->special" and C.const_of(n_.child(1)) != 0:
                    return n_
                if tp == vn + "->content.tag":
                    return n_
            return None
        for ps in sums:
            tset = None
            for a, pol in ps.facts:
                if isinstance(pol, tuple) and pol[0] == "case" and (a.get("path") or "").endswith("type"):
                    tset = set(range(pol[1], pol[2] + 1))
            if not tset or not tset <= numeric:
                continue
            nnum += 1
            for ev in ps.events:
                if ev[0] == "store":
                    tp = C.store_target(ev[1]).get("path") or ""
                    if (tp == vname + "->special" and C.const_of(ev[1].child(1)) != 0) or tp == vname + "->content.tag":
                        bad = bad or (ev[1], sorted(tset))
                elif ev[0] == "call":
                    g = prog.fn(ev[1].get("callee") or "")
                    if g is not None and g.static:
                        for prm, a_ in zip(g.params, C.call_args(ev[1])):
                            if a_.strip_all_casts().get("path") == vname and marks_special(g, prm["name"]) is not None:
                                bad = bad or (ev[1], sorted(tset))
        if bad:
            ck.violated("C04-N8", st, K.loc(pn, bad[0]),
                        "on a path for a numeric token class SCPI_ParamNumber marks the value as special / stores a tag (`%s`): the "
                        "tag shares storage with the number, so the literal no longer decodes to its value (`9.9E37` is a number)"
                        % bad[0].src[:80])
        elif not nnum:
            ck.anchor_lost("C04-N8", "SCPI_ParamNumber: no path selected by a numeric token class")
        else:
            ck.holds("C04-N8", st, K.loc(pn), "%d numeric paths: special stays FALSE, no tag stored" % nnum)
    # transformNumber applies mult and unit of the found row
    t = prog.fn("transformNumber")
    if t is not None:
        st = K.site(t, "apply-row", 0)
        mul = [n for n, tt in C.stores(t) if (tt.get("path") or "").endswith("content.value") and n.get("op") == "*=" and
               (n.child(1).strip_all_casts().get("path") or "").endswith("->mult")]
        un = [n for n, tt in C.stores(t) if (tt.get("path") or "").endswith("->unit") and n.get("op") == "=" and
              (n.child(1).strip_all_casts().get("path") or "").endswith("->unit")]
        look = list(t.calls("translateUnit"))
        tab_ok = False
        if look:
            a0 = C.call_args(look[0])[0].strip_all_casts()
            tu_ = prog.fn("translateUnit")
            if (a0.get("path") or "").endswith("->units"):
                tab_ok = True
            elif tu_ is not None and a0.get("path") == t.params[0]["name"] and tu_.params:
                # the context itself is handed over and the lookup takes the table from it
                p0 = tu_.params[0]["name"]
                tab_ok = any(n.k == "MemberExpr" and n.get("member") == "units" and n.child(0).strip_all_casts().get("path") == p0
                             for n in tu_.pristine().nodes.values())
        if mul and un and look and tab_ok:
            ck.holds("C04-N5", st, K.loc(t, mul[0]), "value *= row->mult; unit = row->unit; table = context->units")
        else:
            ck.violated("C04-N5", st, K.loc(t), "the multiplier / unit of the row found is not applied to the value")
        ck.analysed(t)
    ck.analysed(f)


def run(ck, fb, tier):
    spec = K.load_spec("units_488_2.json")
    seen_fold = False
    for cfg in fb.configs:
        ck.config = cfg
        prog = fb[cfg]
        S = K.summaries(prog)
        rule_n1(ck, prog, spec)
        rule_n2(ck, prog, spec)
        rule_n3(ck, prog, spec, S)
        rule_n4(ck, prog, spec)
        rule_n5(ck, prog, S)
        if cfg == "A" or tier == "thorough":
            rule_n7(ck, prog)
        if K.casefold_rule(ck, prog, "C04-N6", tier):
            seen_fold = True
    if "E" in fb.configs and not seen_fold:
        ck.anchor_lost("C04-N6", "OUR_strncasecmp is not compiled in the -std=c89 configuration")
    ck.trust("spec/units_488_2.json (IEEE 488.2 tables 7-1 and 7-2)", "libc strto* convert correctly")


TECHNIQUE = ("static analysis: table audit of evaluated initialisers against IEEE 488.2 tables 7-1/7-2, decision tables of the "
             "decoders by path enumeration (class -> radix -> converter), call-wiring audit")
LEVEL_TEXT = ("Clause-level: tables and wiring only. A wrong table row, radix, converter or a non-exact unit lookup is a "
              "necessary-condition violation; correct rounding and full consumption of the literal are numeric/value facts "
              "and are not decided.")
LEVEL_NOTE = "Trusted: clang constant evaluator, extractor, spec/units_488_2.json, libc strto*."
DESIGN_REF = "DESIGN.md section 5, C04"
