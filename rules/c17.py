"""C17 — binary results are valid definite-length blocks in the requested byte order."""
from sa import cfg as C
from sa import paths as P
from . import common as K
from . import boundsrules as BR

CONFIGS_QUICK = ["A", "E"]
CONFIGS_THOROUGH = ["A", "B", "C", "D", "E"]

EXPLANATION = (
    "Static, clause-level decision of C17. (B1) header agreement: the value formatted into the "
    "block header, the value stored as 'remaining', and the length parameter are one expression, "
    "with no narrowing conversion on the way (the tracked count is as wide as the announced "
    "length); '#' at index 0, the digit count at index 1 is strlen(decimal length) + '0', the "
    "header write is header_len + 2 bytes, header buffer accesses are in bounds. (B2) the data "
    "call's decision table: remaining < len => -310, return 0, NO write; else remaining -= len "
    "before the write; the item is counted only on the remaining == 0 edge. (B3) byte order: "
    "NORMAL == BIGENDIAN and SWAPPED == LITTLEENDIAN; the native-order probe returns BIGENDIAN "
    "iff byte 0 of 0x01020304 is 1; produceResultArrayBinary emits the raw block iff native == "
    "requested, otherwise for width 2/4/8 every element is read through the unsigned type of "
    "that width, passed through the swap of that width and emitted with that width; width 1 raw; "
    "other widths -310; SCPI_Swap16/32/64 are proved byte reversals from the mask/shift constants "
    "of their terms (bit-provenance evaluation). (B4) every SCPI_ResultArray<T> passes its own "
    "sizeof(*array) and the scalar writer of the same type.")

RULES = {
    "C17-XC": "(thorough) decision tables of the configuration-independent functions of this property are identical in every build configuration",
    "C17-B1": "header: formatted value == stored remaining == length parameter, no narrowing; '#', digit count, header_len + 2; header buffer in bounds",
    "C17-B2": "data call: remaining < len => -310, 0, no write; else remaining -= len before the write; counted only when remaining == 0",
    "C17-B3": "byte order: enum aliases, native probe, binary producer decision table, SCPI_Swap16/32/64 are byte reversals",
    "C17-B7": "data call: the item count is taken only on evidence that a block was open (something more than remaining == 0 after the decrement guards it)",
    "C17-B6": "every function that announces a block emits its payload only through SCPI_ResultArbitraryBlockData; the one-shot call is header(len) then data(data, len) on every path",
    "C17-B5": "the remaining-length counter the refusal test reads is re-established (0) for every unit before its handler runs",
    "C17-B4": "each SCPI_ResultArray<T> passes sizeof(*array) of its own element type and the scalar writer of the same type",
}


def rule_b1(ck, prog):
    got = K.need(ck, prog, "C17-B1", "SCPI_ResultArbitraryBlockHeader")
    if not got:
        return
    f = got[0]
    lenp = f.params[1]["name"]
    st = K.site(f, "header-agreement", 0)
    probs = []
    fmt = [c for c in f.calls() if c.get("callee") in ("SCPI_UInt32ToStrBase", "UInt32ToStrBaseSign", "SCPI_UInt64ToStrBase")]
    rem = [n for n, t in C.stores(f) if (t.get("path") or "").endswith("->arbitrary_remaining")]
    if len(fmt) != 1 or len(rem) != 1:
        ck.violated("C17-B1", st, K.loc(f), "expected one header formatting call and one store of the remaining count (%d, %d)" % (len(fmt), len(rem)))
        return
    a0 = C.call_args(fmt[0])[0]
    if a0.strip_all_casts().get("path") != lenp:
        probs.append("the header is formatted from `%s`, not from the length parameter" % a0.src)
    if C.const_of(C.call_args(fmt[0])[3]) != 10:
        probs.append("the header length is not decimal")
    r = rem[0]
    if r.get("op") != "=" or r.child(1).strip_all_casts().get("path") != lenp:
        probs.append("the remaining count is set to `%s`, not to the announced length" % r.child(1).src)
    # narrowing on the way into the tracked count
    tgt = r.child(0).strip()
    rhs = r.child(1)
    x = rhs
    while x.k in ("ImplicitCastExpr", "CStyleCastExpr", "ParenExpr"):
        if x.get("ck") == "IntegralCast" and (x.get("bits") or 0) < (x.child(0).get("bits") or 0):
            probs.append("the announced length (%d bits) is narrowed to %d bits when stored as the remaining count: blocks of "
                         "2^%d bytes or more are tracked modulo 2^%d" % (x.child(0).get("bits"), x.get("bits"), x.get("bits"), x.get("bits")))
        x = x.child(0)
    rec = prog.records.get("_scpi_t")
    if rec:
        fld = [q for q in rec["fields"] if q["name"] == "arbitrary_remaining"]
        pbits = f.params[1]["type"].get("bits")
        if fld and (fld[0]["type"].get("bits") or 0) < (pbits or 0):
            if not any("narrowed" in p_ for p_ in probs):
                probs.append("field arbitrary_remaining has %d bits, the announced length %d" % (fld[0]["type"].get("bits"), pbits))
    # '#', digit count
    hdr = None
    for n, t in C.stores(f):
        if t.k == "ArraySubscriptExpr" and C.const_of(t.child(1)) == 0 and C.const_of(n.child(1)) == ord("#"):
            hdr = t.child(0).strip_all_casts().get("path")
    if hdr is None:
        probs.append("no '#' stored at index 0 of the header")
    else:
        d1 = [n for n, t in C.stores(f) if t.k == "ArraySubscriptExpr" and t.child(0).strip_all_casts().get("path") == hdr
              and C.const_of(t.child(1)) == 1]
        sl = [c for c in f.calls() if c.get("callee") in ("strlen", "__builtin_strlen")]
        hl = None
        for n, t in C.stores(f):
            if n.get("op") == "=" and n.child(1).strip_all_casts().k == "CallExpr" and n.child(1).strip_all_casts().get("callee") in ("strlen", "__builtin_strlen"):
                hl = t.get("path")
        by_return = False
        if hl is None:
            # the formatter's own return value (number of characters produced) is an equally good measure
            for n, t in C.stores(f):
                if n.get("op") == "=" and n.child(1).strip_all_casts() is fmt[0]:
                    hl = t.get("path")
                    by_return = True
            for d in f.nodes.values():
                if d.k == "DeclStmt":
                    for dd in d.get("decls", []):
                        if "init" in dd and f.nodes[dd["init"]].strip_all_casts() is fmt[0]:
                            hl = dd["name"]
                            by_return = True
        # room for the 9 digits of every length below 10^9 (plus the NUL when the digits are counted with strlen)
        capn = C.const_of(C.call_args(fmt[0])[2])
        need = 9 if by_return else 10
        if capn is None or capn < need:
            probs.append("the decimal length is formatted into %s characters; lengths up to 999999999 need %d" % (capn, need))
        okd = False
        if d1 and hl:
            e = d1[0].child(1).strip_all_casts()
            if e.k == "BinaryOperator" and e.get("op") == "+" and {e.child(0).strip_all_casts().get("path"), C.const_of(e.child(1))} >= {hl} and \
                    (C.const_of(e.child(1)) == ord("0") or C.const_of(e.child(0)) == ord("0")):
                okd = True
        if not okd:
            probs.append("index 1 of the header is not strlen(decimal length) + '0'")
        if sl:
            sa_ = C.call_args(sl[0])[0].strip_all_casts().src.replace(" ", "")
            if sa_ != "%s+2" % hdr or C.call_args(fmt[0])[1].strip_all_casts().src.replace(" ", "") != "%s+2" % hdr:
                probs.append("the decimal length is not formatted at / measured from header + 2")
        wr = [c for c in f.calls("writeData")]
        if len(wr) != 1 or C.call_args(wr[0])[1].strip_all_casts().get("path") != hdr or \
                C.call_args(wr[0])[2].strip_all_casts().src.replace(" ", "") != "%s+2" % hl:
            probs.append("the header write is not (header, header_len + 2)")
    # the header is unconditional: callers (the array producers, the one-shot block) write their payload right behind it and
    # do not look at its result, so a path that returns without announcing leaves raw bytes without '#<n><len>' in front
    S_ = K.summaries(prog)
    pg_ = S_.pg(f)
    wr_ = list(f.calls("writeData"))
    if wr_ and pg_.exit in pg_.reachable([pg_.entry], blocked_edge=lambda e: e.kind == "elem" and (e.node in wr_ or e.node is r)):
        probs.append("a path returns without writing the header / recording the announced length (callers emit the payload regardless)")
    if probs:
        ck.violated("C17-B1", st, K.loc(f, r), "; ".join(probs))
    else:
        ck.holds("C17-B1", st, K.loc(f, r), "format(len) / remaining = len / '#' + digit count + decimal length")
    # bounds of the header buffer (strlen needs the value bound len < 10^9 of the property: listed undecided)
    # the property ranges over lengths below 10^9 bytes: the decimal text has at most 9 characters
    BR.check_function(ck, prog, "C17-B1", "SCPI_ResultArbitraryBlockHeader", min_sites=3, assume=[(lenp, "<=", 999999999)])


def rule_b2(ck, prog):
    got = K.need(ck, prog, "C17-B2", "SCPI_ResultArbitraryBlockData")
    if not got:
        return
    f = got[0]
    lenp = f.params[2]["name"]
    sums = P.summarize(f)
    probs = []
    alias = K.field_aliases(f, "->arbitrary_remaining")

    def remp(x):
        pth = x.get("path") or ""
        return pth.endswith("->arbitrary_remaining") or pth in alias
    refused = accepted = 0
    for ps in sums:
        lt_fact = None
        for a, pol in ps.facts:
            if isinstance(pol, tuple):
                continue
            if a.k == "BinaryOperator" and a.get("op") in ("<", ">", "<=", ">=") and \
                    any(remp(x) for x in a.walk()) and \
                    any(x.get("path") == lenp for x in a.walk()):
                l_is_rem = remp(a.child(0).strip_all_casts())
                op = a["op"]
                # normalise to remaining < len
                if l_is_rem:
                    val = {"<": pol, ">=": not pol}.get(op)
                else:
                    val = {">": pol, "<=": not pol}.get(op)
                if val is not None and lt_fact is None:
                    lt_fact = val
        writes = [c for c in ps.calls if c.get("callee") == "writeData"]
        pushes = [C.const_of(K.arg(c, 1)) for c in ps.calls if (c.get("callee") or "").startswith("SCPI_ErrorPush")]
        evs = ps.events
        if lt_fact is None:
            probs.append("a path does not compare the data length with the remaining announced length: %s" % ps.describe()[:3])
            continue
        if lt_fact:
            refused += 1
            if writes:
                probs.append("data beyond the announced length is written before/without being refused")
            if pushes != [-310]:
                probs.append("excess data queues %s instead of -310" % pushes)
            if ps.ret is None or ps.ret.truth() is not False:
                probs.append("the refusing path returns %s" % ps.ret)
        else:
            accepted += 1
            if pushes:
                probs.append("an in-range data call queues %s" % pushes)
            if len(writes) != 1:
                probs.append("an in-range data call performs %d writes" % len(writes))
            # remaining -= len before the write
            idx_dec = next((i for i, e in enumerate(evs) if e[0] == "store" and remp(C.store_target(e[1]))
                            and e[1].get("op") == "-=" and e[1].child(1).strip_all_casts().get("path") == lenp), None)
            if idx_dec is not None and (C.store_target(evs[idx_dec][1]).get("path") or "") in alias:
                # decreased in a local copy: what counts is where the copy is stored back
                idx_dec = next((i for i, e in enumerate(evs) if i > idx_dec and e[0] == "store" and
                                (C.store_target(e[1]).get("path") or "").endswith("->arbitrary_remaining")), None)
            idx_wr = next((i for i, e in enumerate(evs) if e[0] == "call" and e[1].get("callee") == "writeData"), None)
            if idx_dec is None:
                probs.append("the remaining count is not decreased by the data length")
            elif idx_wr is not None and idx_dec > idx_wr:
                probs.append("the remaining count is decreased after the write")
            if writes:
                wa = C.call_args(writes[0])
                if wa[2].strip_all_casts().get("path") != lenp:
                    probs.append("the number of bytes written is `%s`, not the data length" % wa[2].src)
            incs = [e for e in evs if e[0] == "store" and (C.store_target(e[1]).get("path") or "").endswith("->output_count")]
            zero = [pol for a, pol in ps.facts if not isinstance(pol, tuple) and a.k == "BinaryOperator" and a.get("op") == "==" and
                    remp(a.child(0).strip_all_casts()) and C.const_of(a.child(1)) == 0]
            if not zero:
                probs.append("an accepting path does not test whether the block is complete")
            elif bool(incs) != zero[-1]:
                probs.append("the block is counted as an item %s the announced length is used up" % ("before" if incs else "although not when"))
    # C17-B7: `remaining == 0` after the decrement is also true when no block is open at all (a zero-length call after the
    # block was completed, or with no header): the count must be guarded by something more on every counting path
    def is_rem(x):
        return remp(x.strip_all_casts())

    def known_guard(a, after_dec):
        mentions_rem = any(is_rem(x) for x in a.walk())
        if a.k == "BinaryOperator" and a.get("op") in ("<", ">", "<=", ">=") and mentions_rem and \
                any(x.get("path") == lenp for x in a.walk()):
            return True     # the refusal comparison
        if not after_dec:
            return False    # a test of the counter BEFORE the decrement does tell an open block from none
        if a.k == "BinaryOperator" and a.get("op") in ("==", "!=") and mentions_rem and C.const_of(a.child(1)) == 0:
            return True     # the completion test
        return is_rem(a) or (a.k == "UnaryOperator" and a.get("op") == "!" and is_rem(a.child(0)))
    counting = unguarded = 0
    for ps in sums:
        after_dec, extra, counts = False, 0, False
        for e in ps.events:
            if e[0] == "store" and remp(C.store_target(e[1])) and e[1].get("op") != "=":
                after_dec = True
            elif e[0] == "store" and (C.store_target(e[1]).get("path") or "").endswith("->output_count"):
                counts = True
                break
            elif e[0] == "branch" and not known_guard(e[1], after_dec):
                extra += 1
        if counts:
            counting += 1
            unguarded += 0 if extra else 1
    st7 = K.site(f, "count-needs-open-block", 0)
    if counting and unguarded:
        ck.violated("C17-B7", st7, K.loc(f),
                    "the data call counts a result item whenever the remaining length is 0 after it, also when no block is open: "
                    "header(3), data(3), data(0) counts the block twice; data(0) with no header counts an item that was never written",
                    {"counting_paths": counting, "guarded_only_by_remaining_eq_0": unguarded})
    elif counting:
        ck.holds("C17-B7", st7, K.loc(f), "%d counting paths, each guarded by more than remaining == 0" % counting)
    st = K.site(f, "accounting", 0)
    if probs:
        ck.violated("C17-B2", st, K.loc(f), sorted(set(probs))[0], {"all": sorted(set(probs))})
    elif not refused or not accepted:
        ck.anchor_lost("C17-B2", "refusing/accepting paths of the data call (%d, %d)" % (refused, accepted))
    else:
        ck.holds("C17-B2", st, K.loc(f), "%d paths: refuse with -310 and no write; else decrement, write, count when complete" % len(sums))
    ck.analysed(f)


class Bits:
    """bit provenance of an unsigned expression over one input: list (LSB first) of input bit index / None"""

    def __init__(self, w, v=None):
        self.w = w
        self.v = v if v is not None else [None] * w


def swap_eval(n, param, w, env=None, depth=0):
    """bit provenance of an expression over the parameter: list of 64 entries (input bit index or None).  Narrowing casts cut
    the list, locals are looked up in `env` (provenance of their initialiser), calls of the narrower SCPI_SwapNN helpers are
    applied as the byte reversal of their width (each of them is verified by this same rule)."""
    env = env or {}
    # casts: an unsigned cast to fewer bits drops the upper provenance
    x = n
    while x.k in ("ParenExpr",) and x.ch:
        x = x.child(0)
    if x.k in ("ImplicitCastExpr", "CStyleCastExpr") and x.ch and x.get("ck") in ("IntegralCast",) and x.get("bits") and x.get("bits") < 64:
        inner = swap_eval(x.child(0), param, w, env, depth)
        if isinstance(inner, list):
            return inner[:x["bits"]] + [None] * (64 - x["bits"])
        return inner
    s = n.strip_all_casts()
    while s.k == "ParenExpr" and s.ch:
        s = s.child(0).strip_all_casts()
    if s.get("path") == param:
        return list(range(w)) + [None] * (64 - w) if w < 64 else list(range(64))
    if s.k == "DeclRefExpr" and s.get("path") in env:
        return env[s["path"]]
    c = C.const_of(s)
    if c is not None and s.k != "DeclRefExpr":
        return ("const", c)
    if s.k == "CallExpr" and (s.get("callee") or "").startswith("SCPI_Swap") and depth < 3:
        try:
            wc = int(s["callee"][len("SCPI_Swap"):])
        except ValueError:
            return None
        a = swap_eval(C.call_args(s)[0], param, w, env, depth + 1)
        if not isinstance(a, list) or wc >= w:
            return None
        a = a[:wc]
        out = [None] * 64
        for p_ in range(wc):
            byte, bit = divmod(p_, 8)
            out[(wc // 8 - 1 - byte) * 8 + bit] = a[p_]
        return out
    if s.k == "BinaryOperator":
        op = s["op"]
        a, b = swap_eval(s.child(0), param, w, env, depth), swap_eval(s.child(1), param, w, env, depth)
        if a is None or b is None:
            return None
        if op == "&":
            if isinstance(a, tuple):
                a, b = b, a
            if isinstance(b, tuple) and not isinstance(a, tuple):
                return [x if (b[1] >> i) & 1 else None for i, x in enumerate(a)]
            return None
        if op in ("<<", ">>"):
            if not isinstance(b, tuple) or isinstance(a, tuple):
                return None
            k = b[1]
            if op == "<<":
                return ([None] * k + a)[:64]
            return a[k:] + [None] * k
        if op == "|":
            if isinstance(a, tuple) or isinstance(b, tuple):
                return None
            out = []
            for x, y in zip(a, b):
                if x is not None and y is not None:
                    return "overlap"
                out.append(x if x is not None else y)
            return out
    return None


def rule_b3(ck, prog, S):
    ec = prog.enumconst
    st = "scpi_array_format_t/aliases#0"
    if ec.get("SCPI_FORMAT_NORMAL") == ec.get("SCPI_FORMAT_BIGENDIAN") and ec.get("SCPI_FORMAT_SWAPPED") == ec.get("SCPI_FORMAT_LITTLEENDIAN") \
            and ec.get("SCPI_FORMAT_NORMAL") != ec.get("SCPI_FORMAT_SWAPPED") and ec.get("SCPI_FORMAT_ASCII") not in (ec.get("SCPI_FORMAT_NORMAL"), ec.get("SCPI_FORMAT_SWAPPED")):
        ck.holds("C17-B3", st, "libscpi/inc/scpi/types.h:0", "NORMAL == BIGENDIAN, SWAPPED == LITTLEENDIAN, distinct from ASCII")
    else:
        ck.violated("C17-B3", st, "libscpi/inc/scpi/types.h:0", "format aliases: NORMAL=%s BIG=%s SWAPPED=%s LITTLE=%s"
                    % tuple(ec.get("SCPI_FORMAT_" + x) for x in ("NORMAL", "BIGENDIAN", "SWAPPED", "LITTLEENDIAN")))
    # native probe
    f = prog.fn("SCPI_GetNativeFormat")
    if f is None:
        ck.anchor_lost("C17-B3", "SCPI_GetNativeFormat")
    else:
        st = K.site(f, "probe", 0)
        ok = False
        why = "unexpected shape"
        init = [fn_ for fn_ in f.nodes.values() if fn_.k == "InitListExpr"]
        ival = C.const_of(init[0].ch[0]) if init and init[0].ch else None
        # decision table of the probe, whatever its spelling (conditional operator, if/else, guard clause): on every path
        # the test of the first byte in memory against a constant and the format returned
        rows = []
        try:
            for ps in P.summarize(f):
                first = None
                for a_, pol in ps.facts:
                    if isinstance(pol, tuple) or a_.k != "BinaryOperator" or a_.get("op") not in ("==", "!="):
                        continue
                    if (a_.child(0).strip_all_casts().get("path") or "").endswith(".c[0]") and C.const_of(a_.child(1)) is not None:
                        first = (C.const_of(a_.child(1)), pol if a_["op"] == "==" else not pol)
                rows.append((first, ps.ret.v if ps.ret is not None and ps.ret.kind == "const" else None))
        except P.TooManyPaths:
            rows = []
        if ival is not None and len(rows) == 2 and all(r[0] is not None and r[1] is not None for r in rows):
            msb, lsb = (ival >> 24) & 0xFF, ival & 0xFF
            big, little = ec.get("SCPI_FORMAT_BIGENDIAN"), ec.get("SCPI_FORMAT_LITTLEENDIAN")
            good = msb != lsb and {r[0][1] for r in rows} == {True, False}
            for (k, eq), ret in rows:
                if k == msb:
                    good = good and ret == (big if eq else little)
                elif k == lsb:
                    good = good and ret == (little if eq else big)
                else:
                    good = False
            ok = bool(good)
            if not ok:
                why = "first byte of 0x%08x: %s" % (ival, ["byte0 %s 0x%02x -> %s" % ("==" if eq else "!=", k, ret) for (k, eq), ret in rows])
        if ok:
            ck.holds("C17-B3", st, K.loc(f), "BIGENDIAN iff the first byte in memory is the most significant one")
        else:
            ck.violated("C17-B3", st, K.loc(f), "native byte-order probe is wrong: %s" % why)
        ck.analysed(f)
    # swaps
    for name, w in (("SCPI_Swap16", 16), ("SCPI_Swap32", 32), ("SCPI_Swap64", 64)):
        f = prog.fn(name)
        if f is None:
            ck.anchor_lost("C17-B3", name)
            continue
        st = K.site(f, "byte-reversal", 0)
        rets = [n for n in f.nodes.values() if n.k == "ReturnStmt" and n.ch]
        env_ = {}
        for dn in sorted((x for x in f.nodes.values() if x.k == "DeclStmt"), key=lambda x: (x.get("line", 0), x.get("col", 0))):
            for dd in dn.get("decls", []):
                if "init" in dd:
                    v_ = swap_eval(f.nodes[dd["init"]], f.params[0]["name"], w, env_)
                    if isinstance(v_, list):
                        bits_ = dd["type"].get("bits") or 64
                        env_[dd["name"]] = v_[:bits_] + [None] * (64 - bits_)
        res = swap_eval(rets[0].child(0), f.params[0]["name"], w, env_) if len(rets) == 1 else None
        want = []
        for p in range(w):
            byte, bit = divmod(p, 8)
            want.append((w // 8 - 1 - byte) * 8 + bit)
        if res == "overlap":
            ck.violated("C17-B3", st, K.loc(f), "%s: two terms deliver the same output bit" % name)
        elif res is None or isinstance(res, tuple):
            ck.undecided("C17-B3", st, K.loc(f), "%s is not a mask/shift/or expression over its argument" % name)
        elif res[:w] == want and all(x is None for x in res[w:]):
            ck.holds("C17-B3", st, K.loc(f), "%s: output byte j = input byte %d - j, total and injective" % (name, w // 8 - 1))
        else:
            bad = next(p for p in range(w) if res[p] != want[p])
            ck.violated("C17-B3", st, K.loc(f), "%s is not a byte reversal: output bit %d comes from input bit %s, expected %d"
                        % (name, bad, res[bad], want[bad]))
        ck.analysed(f)
    # binary producer
    f = prog.fn("produceResultArrayBinary")
    if f is None:
        ck.anchor_lost("C17-B3", "produceResultArrayBinary")
        return
    st = K.site(f, "decision-table", 0)
    probs = []
    isz = f.params[3]["name"]
    cnt = f.params[2]["name"]
    arr = f.params[1]["name"]
    fmtp = f.params[4]["name"]
    seen_native = seen_swapped = 0
    for width in (1, 2, 4, 8, 3):
        for ps in P.summarize(f, max_visits=2, params={isz: width}):
            native = None
            for a, pol in ps.facts:
                if not isinstance(pol, tuple) and a.k == "BinaryOperator" and a.get("op") == "==" and \
                        any(x.k == "CallExpr" and x.get("callee") == "SCPI_GetNativeFormat" for x in a.walk()) and \
                        any(x.get("path") == fmtp for x in a.walk()):
                    native = pol
            calls = [c.get("callee") for c in ps.calls]
            pushes = [C.const_of(K.arg(c, 1)) for c in ps.calls if (c.get("callee") or "").startswith("SCPI_ErrorPush")]
            if width == 3:
                if pushes != [-310] or any(c in calls for c in ("SCPI_ResultArbitraryBlock", "SCPI_ResultArbitraryBlockHeader", "SCPI_ResultArbitraryBlockData")):
                    probs.append("an unsupported element width is not refused with -310 before anything is emitted")
                continue
            if native is None:
                probs.append("a path does not compare the native with the requested byte order")
                continue
            if native:
                seen_native += 1
                blk = [c for c in ps.calls if c.get("callee") == "SCPI_ResultArbitraryBlock"]
                if len(blk) != 1 or "SCPI_Swap%d" % (width * 8) in calls:
                    probs.append("native order, width %d: not exactly one raw block" % width)
                else:
                    a = C.call_args(blk[0])
                    if a[1].strip_all_casts().get("path") != arr or a[2].strip_all_casts().src.replace(" ", "") != "%s*%s" % (cnt, isz):
                        probs.append("native order: the raw block is not (array, count * item_size)")
            else:
                seen_swapped += 1
                hdr = [c for c in ps.calls if c.get("callee") == "SCPI_ResultArbitraryBlockHeader"]
                if len(hdr) != 1 or C.call_args(hdr[0])[1].strip_all_casts().src.replace(" ", "") != "%s*%s" % (cnt, isz):
                    probs.append("foreign order, width %d: header is not count * item_size" % width)
                data = [c for c in ps.calls if c.get("callee") == "SCPI_ResultArbitraryBlockData"]
                if width == 1:
                    if not data or C.call_args(data[0])[1].strip_all_casts().get("path") != arr:
                        probs.append("width 1 is not emitted raw")
                    continue
                sw = [c for c in ps.calls if (c.get("callee") or "").startswith("SCPI_Swap")]
                loops = len(data)
                cv = ps.env.get(cnt)
                if loops == 0 or (cv is not None and cv.kind == "const" and cv.v == 0):
                    continue   # count == 0 path: nothing to swap
                if not sw or any(c.get("callee") != "SCPI_Swap%d" % (width * 8) for c in sw):
                    probs.append("width %d elements are passed through %s" % (width, sorted({c.get("callee") for c in sw}) or "no swap"))
                    continue
                # element read through uint<width*8>_t, emitted with item_size bytes from &val
                arg = C.call_args(sw[0])[0].strip_all_casts()
                rd = [x for x in arg.walk() if x.k == "CStyleCastExpr" and x.get("tk") == "ptr"]
                if arg.k != "ArraySubscriptExpr" or not rd or ("uint%d_t" % (width * 8)) not in rd[0].get("t", ""):
                    probs.append("width %d: element is not read as uint%d_t from the array (`%s`)" % (width, width * 8, arg.src))
                da = C.call_args(data[0])
                if not (da[1].strip_all_casts().get("path") or "").startswith("&") or da[2].strip_all_casts().get("path") != isz:
                    probs.append("width %d: the swapped value is not emitted with item_size bytes" % width)
    if not seen_native or not seen_swapped:
        # the native / foreign decision is not made inside the producer (it may be handed in as a flag): the same table is
        # read off the ten public writers by evaluation (binary_array_trace, also the basis of B4)
        from sa import interp as I
        bad_, n_ok = [], 0
        for g in sorted(prog.functions.values(), key=lambda g_: g_.line):
            if not g.name.startswith("SCPI_ResultArray"):
                continue
            pt_ = g.params[1]["type"]["ct"].replace("const ", "").replace("*", "").strip()
            b_ = {"signed char": 8, "unsigned char": 8, "char": 8, "short": 16, "unsigned short": 16, "int": 32, "unsigned int": 32,
                  "long": 64, "unsigned long": 64, "long long": 64, "unsigned long long": 64, "float": 32, "double": 64}.get(pt_)
            if not b_:
                continue
            try:
                bp_, _r = binary_array_trace(prog, g, b_ // 8)
            except I.Stuck:
                bp_ = None
            if bp_ is None:
                continue
            n_ok += 1
            bad_ += ["%s: %s" % (g.name, x) for x in bp_[:1]]
        if n_ok < 10:
            ck.anchor_lost("C17-B3", "native/foreign paths of produceResultArrayBinary")
        elif bad_:
            ck.violated("C17-B3", st, K.loc(f), bad_[0], {"all": bad_})
        else:
            ck.holds("C17-B3", st, K.loc(f), "by evaluation of the %d public writers: native -> raw block; foreign -> header + per-element "
                     "swap of the element width; bytes raw" % n_ok)
    elif probs:
        ck.violated("C17-B3", st, K.loc(f), sorted(set(probs))[0], {"all": sorted(set(probs))})
    else:
        ck.holds("C17-B3", st, K.loc(f), "native: raw block; foreign: header + per-element swap of the element width; width 1 raw; others -310")
    ck.analysed(f)


def binary_array_trace(prog, f, esz):
    """What a binary array writer ends in, for every (requested format, native format) and element counts 0, 1, 2, by
    evaluating it (sa/interp.py) on an array of named unknowns; the block primitives, the byte swappers and the native
    format probe are logged / stubbed.  Returns (problems, number of evaluations) or raises I.Stuck."""
    from sa import interp as I
    ec = prog.enumconst
    big, little = ec.get("SCPI_FORMAT_BIGENDIAN"), ec.get("SCPI_FORMAT_LITTLEENDIAN")
    problems, runs = [], 0
    swapname = {2: "SCPI_Swap16", 4: "SCPI_Swap32", 8: "SCPI_Swap64"}
    for fmt in (big, little):
        for native in (big, little):
            for count in (0, 1, 2):
                arr = [I.Sym("e%d" % i, esz * 8) for i in range(count)] + [0]
                ctx = I.zero_object(prog, {"tk": "record", "ct": "struct _scpi_t"})
                effects = {k: "fresh" for k in ("SCPI_ResultArbitraryBlock", "SCPI_ResultArbitraryBlockHeader", "SCPI_ResultArbitraryBlockData",
                                                "SCPI_Swap16", "SCPI_Swap32", "SCPI_Swap64", "SCPI_ErrorPush", "SCPI_ErrorPushEx")}
                effects["SCPI_GetNativeFormat"] = native
                outs, _m = I.explore(prog, f.name, [I.Ptr([ctx], 0), I.Ptr(arr, 0), count, fmt],
                                     follow=lambda n_: prog.fn(n_) is not None, effects=effects)
                runs += 1
                for _ret, fr in outs:
                    log = [(n_, a) for n_, a in fr.plog if n_ != "SCPI_GetNativeFormat"]
                    tag = "format %s on a %s-endian host, %d elements" % ("NORMAL" if fmt == big else "SWAPPED", "big" if native == big else "little", count)
                    if any(n_.startswith("SCPI_ErrorPush") for n_, a in log):
                        problems.append("%s: an error is pushed" % tag)
                        continue
                    if fmt == native or esz == 1:
                        ok = len(log) == 1 and log[0][0] == "SCPI_ResultArbitraryBlock" and isinstance(log[0][1][1], I.Ptr) and \
                            log[0][1][1].cont is arr and log[0][1][1].key == 0 and log[0][1][2] == count * esz
                        if not ok and esz == 1 and fmt != native:
                            # bytes have no byte order: announced and handed over in one piece is the same block
                            ok = len(log) == 2 and log[0][0] == "SCPI_ResultArbitraryBlockHeader" and log[0][1][1] == count and \
                                log[1][0] == "SCPI_ResultArbitraryBlockData" and log[1][1][2] == count and \
                                (count == 0 or (isinstance(log[1][1][1], I.Ptr) and log[1][1][1].cont is arr and log[1][1][1].key == 0))
                        if not ok:
                            problems.append("%s: expected one raw block of %d bytes taken from the array, got %s"
                                            % (tag, count * esz, [(n_, a[2] if len(a) > 2 else None) for n_, a in log]))
                        continue
                    # foreign byte order: header with the byte count, then per element swap + data of the element width
                    if not log or log[0][0] != "SCPI_ResultArbitraryBlockHeader" or log[0][1][1] != count * esz:
                        problems.append("%s: the block is not announced with %d bytes (%s)" % (tag, count * esz, log[:1]))
                        continue
                    rest = log[1:]
                    if count == 0:
                        if not (len(rest) == 1 and rest[0][0] == "SCPI_ResultArbitraryBlockData" and rest[0][1][2] == 0):
                            problems.append("%s: the empty block is not completed by a zero-length data call" % tag)
                        continue
                    okk = len(rest) == 2 * count
                    for i in range(count):
                        if not okk:
                            break
                        sw, da = rest[2 * i], rest[2 * i + 1]
                        v = sw[1][0] if sw[1] else None
                        if sw[0] != swapname[esz] or not (isinstance(v, I.Sym) and v.name == "e%d" % i and v.intact()):
                            okk = False
                            break
                        held = da[1][1].load() if len(da[1]) > 2 and isinstance(da[1][1], I.Ptr) else None
                        if da[0] != "SCPI_ResultArbitraryBlockData" or da[1][2] != esz or not (isinstance(held, I.Sym) and held.name.startswith("ret:" + sw[0])):
                            okk = False
                    if not okk:
                        problems.append("%s: expected per element %s(element) followed by a %d-byte data call of the swapped value, got %s"
                                        % (tag, swapname[esz], esz, [n_ for n_, a in rest]))
    return sorted(set(problems)), runs


def rule_b4(ck, prog):
    n = 0
    for f in sorted(prog.functions.values(), key=lambda f: f.line):
        if not f.name.startswith("SCPI_ResultArray"):
            continue
        T = f.name[len("SCPI_ResultArray"):]
        st = K.site(f, "instantiation", 0)
        n += 1
        arrp = f.params[1]
        elem_bits = None
        pt = arrp["type"]["ct"].replace("const ", "").replace("*", "").strip()
        bits = {"signed char": 8, "unsigned char": 8, "char": 8, "short": 16, "unsigned short": 16, "int": 32, "unsigned int": 32,
                "long": 64, "unsigned long": 64, "long long": 64, "unsigned long long": 64, "float": 32, "double": 64}.get(pt)
        bin_ = [c for c in f.calls("produceResultArrayBinary")]
        asc = [c for c in f.calls() if (c.get("callee") or "").startswith("SCPI_Result") and c not in bin_]
        probs = []
        evaluated = False
        if bits:
            from sa import interp as I
            try:
                bp, runs_ = binary_array_trace(prog, f, bits // 8)
                evaluated = True
                probs += bp[:3]
            except I.Stuck:
                evaluated = False
        if evaluated:
            pass
        elif len(bin_) != 1:
            probs.append("no binary producer call")
        else:
            a = C.call_args(bin_[0])
            if C.const_of(a[3]) != (bits or 0) // 8:
                probs.append("element size passed is %s, the array's element type `%s` has %s bytes" % (C.const_of(a[3]), pt, (bits or 0) // 8))
            if a[1].strip_all_casts().get("path") != arrp["name"] or a[2].strip_all_casts().get("path") != f.params[2]["name"] or \
                    a[4].strip_all_casts().get("path") != f.params[3]["name"]:
                probs.append("array/count/format are not passed through")
        signed = not pt.startswith("unsigned")
        if pt == "float":
            want = "SCPI_ResultFloat"
        elif pt == "double":
            want = "SCPI_ResultDouble"
        elif (bits or 0) <= 32:
            want = "SCPI_ResultInt32" if signed and pt != "char" else "SCPI_ResultUInt32Base"
        else:
            want = "SCPI_ResultInt64" if signed else "SCPI_ResultUInt64Base"
        if len(asc) != 1 or asc[0].get("callee") != want:
            probs.append("ASCII writer is %s, the element type `%s` needs %s" % ([c.get("callee") for c in asc], pt, want))
        elif want.endswith("Base") and C.const_of(C.call_args(asc[0])[2]) != 10:
            probs.append("ASCII elements are not written in base 10")
        elif asc and C.call_args(asc[0])[1].strip_all_casts().k != "ArraySubscriptExpr":
            probs.append("the ASCII writer is not applied to array[i]")
        if probs:
            ck.violated("C17-B4", st, K.loc(f), "; ".join(probs))
        else:
            ck.holds("C17-B4", st, K.loc(f), "sizeof(*array) = %d, scalar writer SCPI_Result%s" % ((bits or 0) // 8, T))
        ck.analysed(f)
    ck.floor("C17-B4", 10)


def rule_b5(ck, prog):
    from .c09 import stored_before_handler
    from sa import ctx as X
    have = stored_before_handler(prog)
    proc = prog.fn("processCommand")
    if have is None or proc is None:
        ck.anchor_lost("C17-B5", "unit loop / handler invocation")
        return
    st = K.site(proc, "remaining-reset", 0)
    if X.covers("context->arbitrary_remaining", have):
        # and the value stored is 0
        z = [n for n, t in C.stores(proc) if (t.get("path") or "").endswith("->arbitrary_remaining") and n.get("op") == "="]
        if z and all(C.const_of(n.child(1)) == 0 for n in z):
            ck.holds("C17-B5", st, K.loc(proc, z[0]), "remaining := 0 for every unit before its handler")
        else:
            ck.violated("C17-B5", st, K.loc(proc), "the remaining count is not reset to 0 per unit")
    else:
        ck.violated("C17-B5", st, K.loc(proc),
                    "the remaining-length counter is not re-established for every unit: block data sent without a header is "
                    "accepted (not refused with -310) when an earlier handler left a block unfinished")


def rule_b6(ck, prog, S):
    users = [f for f in prog.functions.values() if f.name != "SCPI_ResultArbitraryBlockHeader"
             and list(f.calls("SCPI_ResultArbitraryBlockHeader"))]
    if len(users) < 2:
        ck.anchor_lost("C17-B6", "only %d callers of SCPI_ResultArbitraryBlockHeader" % len(users))
        return
    for f in sorted(users, key=lambda f: f.name):
        ck.analysed(f)
        st = K.site(f, "payload-through-data-call", 0)
        pg = S.pg(f)
        hdrs = list(f.calls("SCPI_ResultArbitraryBlockHeader"))
        raw = [c for c in f.calls("writeData")]
        reach = pg.reachable([pg.after(h) for h in hdrs])
        bypass = [c for c in raw if pg.before(c) in reach]
        cnt = [n for n, t in C.stores(f) if (t.get("path") or "").endswith("->output_count") and pg.before(n) in reach]
        if bypass or cnt:
            ck.violated("C17-B6", st, K.loc(f, (bypass or cnt)[0]),
                        "%s announces a block and then %s itself instead of going through SCPI_ResultArbitraryBlockData: the "
                        "announced length is never consumed, so a later data call is not refused and the completion "
                        "accounting is wrong" % (f.name, "writes payload with writeData" if bypass else "counts the item"))
        else:
            ck.holds("C17-B6", st, K.loc(f, hdrs[0]), "no direct payload write / item count after the header")
        # every announced block is completed: a path from the header to the exit without any data call leaves a block of
        # length 0 announced but never counted as an item (the completion test lives in the data call)
        st2 = K.site(f, "announced-block-completed", 0)
        bad = None
        npaths = 0
        try:
            for ps in P.summarize(f, max_visits=2):
                names = [c.get("callee") for c in ps.calls]
                if "SCPI_ResultArbitraryBlockHeader" not in names:
                    continue
                npaths += 1
                k = names.index("SCPI_ResultArbitraryBlockHeader")
                if "SCPI_ResultArbitraryBlockData" not in names[k + 1:] and "SCPI_ResultArbitraryBlock" not in names[k + 1:]:
                    bad = bad or ps
        except P.TooManyPaths:
            ck.undecided("C17-B6", st2, K.loc(f, hdrs[0]), "too many paths")
            continue
        if bad is not None:
            ck.violated("C17-B6", st2, K.loc(f, hdrs[0]),
                        "%s can announce a block and return without a single data call (for example an empty array): the block "
                        "'#10' is complete but is never counted as a result item, so the next item of the unit is written without "
                        "its comma" % f.name, {"path": bad.describe()[-8:]})
        elif npaths == 0:
            ck.anchor_lost("C17-B6", "%s: no path through the header call" % f.name)
        else:
            ck.holds("C17-B6", st2, K.loc(f, hdrs[0]), "each of the %d feasible paths through the header passes a data call" % npaths)
    f = prog.fn("SCPI_ResultArbitraryBlock")
    if f is None:
        ck.anchor_lost("C17-B6", "SCPI_ResultArbitraryBlock")
        return
    st = K.site(f, "header-then-data", 0)
    bad = None
    sums = P.summarize(f)
    for ps in sums:
        names = [c.get("callee") for c in ps.calls]
        h = [c for c in ps.calls if c.get("callee") == "SCPI_ResultArbitraryBlockHeader"]
        d = [c for c in ps.calls if c.get("callee") == "SCPI_ResultArbitraryBlockData"]
        if len(h) != 1 or len(d) != 1 or names.index("SCPI_ResultArbitraryBlockHeader") > names.index("SCPI_ResultArbitraryBlockData"):
            bad = "a path performs %d header and %d data calls" % (len(h), len(d))
            break
        la, da = C.call_args(h[0])[1].strip_all_casts().get("path"), C.call_args(d[0])
        if la != f.params[2]["name"] or da[2].strip_all_casts().get("path") != la or da[1].strip_all_casts().get("path") != f.params[1]["name"]:
            bad = "header and data call do not carry the same (data, len)"
            break
    if bad or not sums:
        ck.violated("C17-B6", st, K.loc(f), "SCPI_ResultArbitraryBlock: %s" % (bad or "no path"))
    else:
        ck.holds("C17-B6", st, K.loc(f), "header(len); data(data, len) on all %d paths" % len(sums))


def run(ck, fb, tier):
    for cfg in fb.configs:
        ck.config = cfg
        prog = fb[cfg]
        S = K.summaries(prog)
        rule_b5(ck, prog)
        rule_b1(ck, prog)
        rule_b2(ck, prog)
        rule_b3(ck, prog, S)
        rule_b4(ck, prog)
        rule_b6(ck, prog, S)
    ck.assume("block lengths below 10^9 (the property's range): the 10-byte decimal field of the header then always holds a NUL")
    if tier == "thorough":
        K.cross_config(ck, fb, "C17-XC", ['SCPI_ResultArbitraryBlockData', 'produceResultArrayBinary', 'SCPI_ResultArbitraryBlockHeader'])


TECHNIQUE = ("static analysis: expression pairing for the block header, decision table of the data call by path enumeration, "
             "bit-provenance evaluation of the swap expressions, specialised path enumeration of the binary producer per "
             "element width, instantiation audit of the macro-generated array writers")
LEVEL_TEXT = ("Clause-level static decision of header/accounting agreement, refusal of excess data, byte-order logic and "
              "instantiation on all CFG paths; says nothing about particular byte values, which the property does not need "
              "beyond 'data unchanged' (raw pass-through is decided).")
LEVEL_NOTE = "Trusted: clang CFG/constant evaluator, extractor. strlen of the header relies on the length bound of the property."
DESIGN_REF = "DESIGN.md section 5, C17"
