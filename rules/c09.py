"""C09 — messages and units are isolated: nothing but status and errors carries over."""
import os

from sa import cfg as C
from sa import ctx as X
from sa import facts as F
from sa import paths as P
from . import common as K

CONFIGS_QUICK = ["A"]
CONFIGS_THOROUGH = ["A", "B", "C", "D", "E"]

EXPLANATION = (
    "Static, clause-level decision of C09. Isolation of message B from message A can only hold if "
    "every piece of state the handler-facing API reads is either configuration, declared "
    "persistent (registers, error queue, pending input bytes), or re-established before it is "
    "read. Decided: (G) the library has no mutable file-scope object and no static local, so all "
    "state is in scpi_t; (R1) every field of scpi_t is classified (a new field is noticed); (R2) "
    "per-message state (first_output, output_count, the previous-header token) is stored on every "
    "path from SCPI_Parse's entry to the unit loop; (R3) every transient field that the "
    "Param*/Result*/IsCmd/CmdTag/CommandNumbers code reads - the read set is computed from those "
    "function bodies, alias-resolved - is stored on every path from the start of a loop iteration "
    "in SCPI_Parse to the call-back invocation in processCommand; (R4) every field of the scanner "
    "state is stored on every path of the unit detector; (H3) consumed bytes are removed with "
    "symbolically equal amounts. NOT decided: trace equality 'B after A == B alone'.")

RULES = {
    "C09-G": "no mutable file-scope object and no static local in the library (all state lives in scpi_t)",
    "C09-R1": "every field of scpi_t is classified configuration / persistent / transient / scanner",
    "C09-R2": "per-message state is stored on every path from SCPI_Parse entry to the unit loop",
    "C09-R3": "every transient field read by the handler-facing API is stored on every path from the start of the unit iteration to the call-back invocation",
    "C09-R4": "every field of the scanner state is stored on every path of scpiParser_detectProgramMessageUnit",
    "C09-H4": "an input overrun (-363) empties the input buffer before returning",
    "C09-H5": "wherever SCPI_Input empties the input buffer (position = 0) it also re-establishes every other field of the buffer that the library changes while parsing (no offset or count of the old content survives)",
    "C09-H3": "after a line is executed the consumed bytes are removed: memmove length, position decrement and the restart offset are the same amount",
}


def hidden_state(tu):
    out = []
    for g in tu.globals:
        if g.get("definition") and not g.get("const") and not g.get("extern"):
            out.append(("global", g["name"], g["file"], g["line"]))
    for s in tu.static_locals:
        if not s.get("const"):
            out.append(("static local", "%s in %s" % (s["name"], s.get("function")), s["file"], s["line"]))
    return out


def rule_g(ck, prog):
    fix = F.extract_fixture(os.path.join(K.VERIF, "selftest", "fixtures", "hidden_state.c"))
    got = hidden_state(fix)
    if len(got) != 3:
        ck.anchor_lost("C09-G", "positive fixture selftest/fixtures/hidden_state.c matched %d of 3 objects" % len(got))
        return
    n = 0
    for tu in prog.tus:
        hs = hidden_state(tu)
        rel = os.path.relpath(tu.path, F.REPO)
        for kind, name, file, line in hs:
            ck.violated("C09-G", "%s/%s#0" % (os.path.basename(tu.path), name),
                        "%s:%d" % (os.path.relpath(file, F.REPO), line),
                        "mutable %s `%s`: state outside scpi_t survives from one message to the next and is "
                        "shared between contexts" % (kind, name))
            n += 1
        if not hs:
            ck.holds("C09-G", "%s/no-hidden-state#0" % os.path.basename(tu.path), rel + ":1",
                     "%d file-scope objects, all const; no static local" %
                     len([g for g in tu.globals if g.get("definition")]))


def rule_r1(ck, prog, spec):
    rec = prog.records.get("_scpi_t")
    if not rec:
        ck.anchor_lost("C09-R1", "struct _scpi_t")
        return None
    fields = [f["name"] for f in rec["fields"]]
    for f in fields:
        st = "_scpi_t/%s#0" % f
        if f not in spec["fields"]:
            ck.anchor_lost("C09-R1", "field scpi_t.%s is not classified in spec/context_fields.json "
                                     "(new state: classify it before the isolation rules can be trusted)" % f)
        else:
            ck.holds("C09-R1", st, "libscpi/inc/scpi/types.h:%d" % rec.get("line", 0), spec["fields"][f])
    return fields


def top_field(path):
    # context->a.b.c -> a
    if not path.startswith("context->"):
        return None
    rest = path[len("context->"):]
    for sep in (".", "->", "["):
        i = rest.find(sep)
        if i >= 0:
            rest = rest[:i]
    return rest


def api_reads(prog, spec):
    reads = {}
    drivers = set(spec["driver_functions"])
    for f in prog.functions.values():
        if f.name in drivers:
            continue
        if not f.relfile.endswith(("parser.c", "units.c", "expression.c")):
            continue
        if not f.params or "scpi_t" not in f.params[0]["type"]["t"] or f.params[0]["name"] != "context":
            continue
        for n, p, k in X.accesses(f):
            if p.startswith("context->") and k in ("read", "rw"):
                reads.setdefault(p, []).append((f, n))
            elif p.startswith("context->") and k == "addr":
                # the object is handed on by address: every scalar field of it may be read
                for leaf in expand(prog, p, n.get("ct", "")):
                    reads.setdefault(leaf, []).append((f, n))
    return reads


def expand(prog, path, ctype, depth=0):
    name = ctype.replace("struct ", "").replace("const ", "").strip()
    rec = prog.records.get(name)
    if not rec or depth > 3:
        return [path]
    out = []
    for fld in rec["fields"]:
        if fld["type"].get("tk") == "record":
            out += expand(prog, path + "." + fld["name"], fld["type"]["ct"], depth + 1)
        else:
            out.append(path + "." + fld["name"])
    return out


def rule_r2_r3(ck, prog, spec):
    got = K.need(ck, prog, "C09-R3", "SCPI_Parse", "processCommand", "findCommandHeader")
    if not got:
        return
    parse, proc, find = got
    reads = api_reads(prog, spec)
    required = {}
    for p, where in reads.items():
        cls = spec["fields"].get(top_field(p))
        if cls == "transient-unit":
            # through-pointer reads (cmd->pattern) are reads of the pointer field itself
            base = p
            i = base.find("->", len("context->"))
            if i >= 0:
                base = base[:i]
            required.setdefault(base, []).extend(where)
    if len(required) < 8:
        ck.anchor_lost("C09-R3", "read set of the handler-facing API has only %d transient paths (expected >= 8): %s"
                       % (len(required), sorted(required)))
        return
    # R2: per-message
    pg, st = X.must_stored(parse)
    detect = K.ordinal_sites(list(parse.calls("scpiParser_detectProgramMessageUnit")))
    if not detect:
        ck.anchor_lost("C09-R2", "call of scpiParser_detectProgramMessageUnit in SCPI_Parse")
        return
    head = pg.before(detect[0])
    # state at loop head, restricted to paths entering from outside the loop: compute with the
    # back edges removed = must-set of the entry paths
    be = {(b.id, si) for b, si, h in C.back_edges(parse)}
    pg2, st2 = X.must_stored(parse)
    def no_back(state, e):
        return None
    # recompute ignoring back edges
    from sa.cfg import PointGraph
    g = PointGraph(parse)
    g.out = {p: [e for e in es if not (e.kind == "edge" and (e.block.id, e.si) in be)] for p, es in g.out.items()}
    import collections
    g.out = collections.defaultdict(list, g.out)
    al, resolve = X.aliases(parse)

    def transfer(state, e):
        if e.kind != "elem":
            return state
        n = e.node
        if n.k == "DeclStmt":
            add = {d["name"] for d in n.get("decls", []) if "init" in d}
            return state | frozenset(add)
        t = C.store_target(n)
        if t is not None and n.get("op") == "=" and t.get("path"):
            return state | frozenset({X.norm(resolve(t["path"]))})
        return state
    st_entry = g.must(transfer)
    at_head = st_entry.get(head, frozenset())
    # the previous-header token: the local passed as first argument to composeCompoundCommand
    comp = list(parse.calls("composeCompoundCommand"))
    prev = None
    if comp:
        p0 = C.call_args(comp[0])[0].strip_all_casts().get("path") or ""
        prev = p0.lstrip("&")
    per_message = ["context->first_output", "context->output_count"] + ([prev] if prev else [])
    if not prev:
        ck.anchor_lost("C09-R2", "previous-header argument of composeCompoundCommand")
    for p in per_message:
        stt = K.site(parse, "per-message(%s)" % p, 0)
        if X.covers(p, at_head):
            ck.holds("C09-R2", stt, K.loc(parse, detect[0]), "stored on every path from entry to the unit loop")
        else:
            ck.violated("C09-R2", stt, K.loc(parse, detect[0]),
                        "`%s` is not (re)initialised on every path from SCPI_Parse's entry to the unit loop: "
                        "its value leaks from the previous message" % p)
    # R3: per-unit
    summ = {"findCommandHeader": X.return_stores(find)}
    pgp, stp = X.must_stored(parse, reset_calls=("scpiParser_detectProgramMessageUnit",), callee_summaries=summ, prog=prog)
    pcs = K.ordinal_sites(list(parse.calls("processCommand")))
    if not pcs:
        ck.anchor_lost("C09-R3", "call of processCommand in SCPI_Parse")
        return
    cbs = [c for c in proc.calls() if c.get("callee") is None and "callback" in (c.get("callee_path") or "")]
    if not cbs:
        ck.anchor_lost("C09-R3", "call-back invocation in processCommand")
        return
    pgc, stc = X.must_stored(proc, prog=prog)
    for i, pc in enumerate(pcs):
        s1 = stp.get(pgp.before(pc), frozenset())
        for j, cb in enumerate(K.ordinal_sites(cbs)):
            s2 = stc.get(pgc.before(cb), frozenset())
            have = set(s1) | set(s2)
            for p in sorted(required):
                stt = K.site(proc, "per-unit(%s)" % p, i * 10 + j)
                readers = sorted({f.name for f, n in required[p]})
                if X.covers(p, have):
                    ck.holds("C09-R3", stt, K.loc(proc, cb),
                             "stored between the unit's detection and the handler; read by %s" % readers[:4])
                else:
                    # find a path for the report
                    ck.violated("C09-R3", stt, K.loc(proc, cb),
                                "`%s` is read by %s but is not stored on every path from the start of the unit "
                                "iteration (SCPI_Parse) to the call-back invocation: the handler of this unit "
                                "sees what the previous unit or message left behind" % (p, readers[:5]),
                                {"stored_in_SCPI_Parse_before_processCommand": sorted(x for x in s1 if "context" in x),
                                 "stored_in_processCommand_before_callback": sorted(x for x in s2 if "context" in x)})
    # the drivers themselves: no read of per-unit state before this unit stored it
    fch = list(parse.calls("findCommandHeader"))
    pgf, stf = X.must_stored(find, prog=prog)
    drivers = [(parse, pgp, stp, frozenset())]
    if fch:
        drivers.append((find, pgf, stf, stp.get(pgp.before(fch[0]), frozenset())))
    drivers.append((proc, pgc, stc, stp.get(pgp.before(pcs[0]), frozenset())))
    nd = 0
    for fn, g_, st_, inherited in drivers:
        occ = {}
        for n, p, k in X.accesses(fn):
            if not p.startswith("context->") or k not in ("read", "rw"):
                continue
            if spec["fields"].get(top_field(p)) != "transient-unit":
                continue
            base = p
            i = base.find("->", len("context->"))
            if i >= 0:
                base = base[:i]
            pt = g_.before(n)
            if pt is None or pt not in st_:
                continue
            j = occ.get(base, 0)
            occ[base] = j + 1
            stt = K.site(fn, "driver-read(%s)" % base, j)
            nd += 1
            if X.covers(base, set(st_[pt]) | set(inherited)):
                ck.holds("C09-R3", stt, K.loc(fn, n), "read after this unit stored it")
            else:
                ck.violated("C09-R3", stt, K.loc(fn, n),
                            "%s reads `%s` before it is stored for this unit: the decision depends on what the previous unit "
                            "or message left behind" % (fn.name, base))
    if nd < 4:
        ck.anchor_lost("C09-R3", "only %d reads of per-unit state in the drivers" % nd)
    ck.floor("C09-R3", 8)
    ck.analysed(parse, proc, find)


def stored_before_handler(prog):
    """paths stored on every path from the start of a unit iteration in SCPI_Parse to the call-back
    invocation in processCommand (None when an anchor is missing)"""
    parse, proc, find = prog.fn("SCPI_Parse"), prog.fn("processCommand"), prog.fn("findCommandHeader")
    if not (parse and proc and find):
        return None
    summ = {"findCommandHeader": X.return_stores(find)}
    pgp, stp = X.must_stored(parse, reset_calls=("scpiParser_detectProgramMessageUnit",), callee_summaries=summ, prog=prog)
    pcs = list(parse.calls("processCommand"))
    cbs = [c for c in proc.calls() if c.get("callee") is None and "callback" in (c.get("callee_path") or "")]
    if not pcs or not cbs:
        return None
    pgc, stc = X.must_stored(proc, prog=prog)
    out = None
    for pc in pcs:
        for cb in cbs:
            cur = set(stp.get(pgp.before(pc), frozenset())) | set(stc.get(pgc.before(cb), frozenset()))
            out = cur if out is None else (out & cur)
    return out


def rule_r4(ck, prog):
    got = K.need(ck, prog, "C09-R4", "scpiParser_detectProgramMessageUnit")
    if not got:
        return
    fn = got[0]
    rec = prog.records.get("_scpi_parser_state_t")
    if not rec:
        ck.anchor_lost("C09-R4", "struct _scpi_parser_state_t")
        return
    pg, st = X.must_stored(fn, addr_counts=True, prog=prog)
    at_exit = st.get(pg.exit)
    if at_exit is None:
        ck.anchor_lost("C09-R4", "exit of the detector unreachable")
        return
    pname = fn.params[0]["name"]
    for f in rec["fields"]:
        p = "%s->%s" % (pname, f["name"])
        stt = K.site(fn, "scanner(%s)" % f["name"], 0)
        sub = [x for x in at_exit if x == p or x.startswith(p + ".")]
        ok = p in at_exit
        if not ok and f["type"].get("tk") == "record":
            # all sub-fields stored
            r2 = prog.records.get(f["type"]["ct"].replace("struct ", ""))
            if r2 and all(("%s.%s" % (p, g["name"])) in at_exit for g in r2["fields"]):
                ok = True
        if ok:
            ck.holds("C09-R4", stt, K.loc(fn), "stored on every path")
        else:
            ck.violated("C09-R4", stt, K.loc(fn),
                        "scanner field `%s` is not stored on every path of the unit detector: SCPI_Parse/SCPI_Input "
                        "act on the value left by the previous unit" % f["name"], {"stored": sorted(sub)})
    ck.floor("C09-R4", 3)


def rule_h3(ck, prog):
    got = K.need(ck, prog, "C09-H3", "SCPI_Input")
    if not got:
        return
    fn = got[0]
    mm = list(fn.calls("memmove"))
    stt = K.site(fn, "remainder", 0)
    if len(mm) != 1:
        ck.anchor_lost("C09-H3", "expected one memmove in SCPI_Input, found %d" % len(mm))
        return
    a = C.call_args(mm[0])
    dst, src, ln = (x.strip_all_casts() for x in a)
    # src = dst + K ; len = position - K ; followed by position -= K and K = 0
    ok = True
    why = []
    if dst.get("path") != "context->buffer.data":
        ok = False
        why.append("destination is `%s`, not the start of the input buffer" % dst.src)
    kexpr = None
    if src.k == "BinaryOperator" and src.get("op") == "+" and src.child(0).strip_all_casts().get("path") == "context->buffer.data":
        kexpr = src.child(1).strip_all_casts().src
    else:
        ok = False
        why.append("source `%s` is not buffer + consumed" % src.src)
    if kexpr:
        if not (ln.k == "BinaryOperator" and ln.get("op") == "-" and
                ln.child(0).strip_all_casts().get("path") == "context->buffer.position" and
                ln.child(1).strip_all_casts().src == kexpr):
            ok = False
            why.append("length `%s` is not position - %s" % (ln.src, kexpr))
        pg = K.summaries(prog).pg(fn)
        after = pg.after(mm[0])
        dec = [n for n, t in C.stores(fn) if t.get("path") == "context->buffer.position" and n.get("op") == "-="
               and n.child(1).strip_all_casts().src == kexpr]
        zero = [n for n, t in C.stores(fn) if t.get("path") == kexpr and n.get("op") == "=" and C.const_of(n.child(1)) == 0]
        # the decrement and the reset must lie on every path from the memmove to the next detection/exit
        for what, nodes in (("position -= %s" % kexpr, dec), ("%s = 0" % kexpr, zero)):
            if not nodes:
                ok = False
                why.append("no `%s` after the memmove" % what)
                continue
            det = list(fn.calls("scpiParser_detectProgramMessageUnit"))
            reach = pg.reachable([after], blocked_edge=lambda e: e.kind == "elem" and e.node in nodes)
            bad = pg.exit in reach or any(pg.before(d) in reach for d in det)
            if bad:
                ok = False
                why.append("a path from the memmove reaches the next scan or the return without `%s`" % what)
        # the Parse call before it consumes exactly K bytes
        ps = [c for c in fn.calls("SCPI_Parse")]
        near = [c for c in ps if C.call_args(c)[2].strip_all_casts().src == kexpr]
        if not near:
            ok = False
            why.append("no SCPI_Parse(context, data, %s) before the memmove" % kexpr)
    if ok:
        ck.holds("C09-H3", stt, K.loc(fn, mm[0]), "memmove(data, data+%s, position-%s); position -= %s; %s = 0" % (kexpr, kexpr, kexpr, kexpr))
    else:
        ck.violated("C09-H3", stt, K.loc(fn, mm[0]), "; ".join(why))
    ck.analysed(fn)


def rule_h4(ck, prog):
    """an input overrun discards everything pending: the next message starts on an empty buffer"""
    fn = prog.fn("SCPI_Input")
    if fn is None:
        return
    pushes = [c for c in fn.calls() if (c.get("callee") or "").startswith("SCPI_ErrorPush") and C.const_of(K.arg(c, 1)) == -363]
    st = K.site(fn, "overrun-discards-pending", 0)
    if len(pushes) != 1:
        ck.anchor_lost("C09-H4", "the -363 push of SCPI_Input (%d found)" % len(pushes))
        return
    pg = K.summaries(prog).pg(fn)
    POS = "context->buffer.position"
    resets = [n for n, t in C.stores(fn) if t.get("path") == POS and n.get("op") == "=" and C.const_of(n.child(1)) == 0]
    blocked = lambda e: e.kind == "elem" and e.node in resets
    before = pg.reachable([pg.entry], blocked_edge=blocked)
    after = pg.reachable([pg.after(pushes[0])], blocked_edge=blocked)
    if pg.before(pushes[0]) in before and pg.exit in after:
        ck.violated("C09-H4", st, K.loc(fn, pushes[0]),
                    "the overrun path returns without emptying the input buffer (no `position = 0`): the head of the over-long message "
                    "stays pending and is glued in front of the next message")
    else:
        ck.holds("C09-H4", st, K.loc(fn, pushes[0]), "position = 0 on every path through the -363 branch")


def stale_buffer_fields(fn):
    """[(path summary, field, the `position = 0` store)] for every path of fn that empties the buffer and leaves another
    mutable field of it as it was; also returns the mutable fields and the number of emptying paths"""
    POS = "context->buffer.position"
    mutable = sorted({t.get("path") for n, t in C.stores(fn) if (t.get("path") or "").startswith("context->buffer.") and
                      t.k == "MemberExpr"})
    out, nempty = [], 0
    for ps in P.summarize(fn):
        stored = {}
        for e in ps.events:
            if e[0] == "store":
                t = C.store_target(e[1])
                if t is not None and t.get("path") in mutable:
                    stored.setdefault(t["path"], []).append(e[1])
        resets = [n for n in stored.get(POS, []) if n.get("op") == "=" and C.const_of(n.child(1)) == 0]
        if not resets:
            continue
        nempty += 1
        for fld in mutable:
            if fld != POS and fld not in stored:
                out.append((ps, fld, resets[0]))
    return out, mutable, nempty


def rule_h5(ck, prog):
    fn = prog.fn("SCPI_Input")
    if fn is None:
        return
    fix = F.extract_fixture(os.path.join(K.VERIF, "selftest", "fixtures", "buffer_reset.c"))
    got, _m, _n = stale_buffer_fields(fix.functions["SCPI_Input"])
    if {(fld) for _ps, fld, _s in got} != {"context->buffer.scanned"} or len(got) != 1:
        ck.anchor_lost("C09-H5", "positive fixture selftest/fixtures/buffer_reset.c: %d reports" % len(got))
        return
    try:
        stale, mutable, nempty = stale_buffer_fields(fn)
    except P.TooManyPaths:
        ck.undecided("C09-H5", K.site(fn, "paths", 0), K.loc(fn), "too many paths")
        return
    if not nempty or "context->buffer.position" not in mutable:
        ck.anchor_lost("C09-H5", "SCPI_Input: no path stores `context->buffer.position = 0`")
        return
    seen = set()
    for ps, fld, node in stale:
        if (fld, node.id) in seen:
            continue
        seen.add((fld, node.id))
        ck.violated("C09-H5", K.site(fn, "emptied-buffer-keeps(%s)" % fld.split(".")[-1], len(seen) - 1), K.loc(fn, node),
                    "this path empties the input buffer but leaves `%s`, which the library changes while it parses, as the previous "
                    "content left it: the next message is scanned with an offset that belongs to text no longer there" % fld)
    if not stale:
        ck.holds("C09-H5", K.site(fn, "emptied-buffer", 0), K.loc(fn),
                 "%d emptying path(s); mutable fields of the buffer: %s" % (nempty, [m.split(".")[-1] for m in mutable]))


def run(ck, fb, tier):
    spec = K.load_spec("context_fields.json")
    for cfg in fb.configs:
        ck.config = cfg
        prog = fb[cfg]
        rule_g(ck, prog)
        rule_r1(ck, prog, spec)
        rule_r2_r3(ck, prog, spec)
        rule_r4(ck, prog)
        rule_h3(ck, prog)
        rule_h4(ck, prog)
        rule_h5(ck, prog)
    ck.trust("spec/context_fields.json classification of scpi_t fields (confirmed by reading)")
    ck.assume("handlers reach library state only through the context pointer")


TECHNIQUE = ("static analysis: storage-class index (no hidden state), struct-layout audit, alias-resolved read set of "
             "the handler-facing API, interprocedural must-stored dataflow from the unit-loop head to the call-back "
             "invocation, symbolic amount pairing for the buffer remainder")
LEVEL_TEXT = ("Clause-level static decision: necessary structural conditions for isolation (no state outside scpi_t; "
              "every transient field the API reads is re-established on every CFG path before the handler runs; scanner "
              "state fully rewritten per unit; consumed bytes removed with equal amounts). Holds for all message "
              "sequences because the rules quantify over CFG paths, not inputs. Does not prove trace equality.")
LEVEL_NOTE = ("Trusted: clang front end/CFG, extractor, spec/context_fields.json. Address-passing to the lexer "
              "recognisers is counted as a store of the token (their own stores are checked under C13).")
DESIGN_REF = "DESIGN.md section 5, C09"
