"""C05 — wrong, missing or surplus parameters raise the right error, never mis-delivered."""
from sa import cfg as C
from sa import paths as P
from . import common as K

CONFIGS_QUICK = ["A"]
CONFIGS_THOROUGH = ["A", "B", "C", "D", "E"]

EXPLANATION = (
    "Static, clause-level decision of C05 by decision tables extracted from the code (path "
    "enumeration with propagation of small constants and call results; every path of every "
    "reader is enumerated). Decided: (E1) every path on which a typed reader returns FALSE "
    "queues an error on that path, or hands on the failure of a callee that has the same "
    "property, or is the one licensed case (absent optional parameter); token-class sets implied "
    "by SCPI_ParamIsNumber / case labels are propagated one call level so that switch arms the "
    "caller excluded are not reported, and conversions that cannot fail for their token class are "
    "listed with reasons in spec/param_errors.json. (E2) SCPI_Parameter's and the numeric "
    "readers' (cause -> error code) tables equal the specification, and the numeric siblings agree "
    "with each other. (E3) processCommand's table: -200 iff the handler failed without its own "
    "error, -108 iff data is left unread and no error was raised, FALSE iff any of these. (E4) in "
    "SCPI_Parse every queued error is followed by result = FALSE and the handler result is and-ed "
    "in; SCPI_Input returns the last SCPI_Parse's value, or FALSE with -363. (E5) an invalid unit "
    "queues -101 and reaches no handler. (E6) SCPI_Parameter returns TRUE only for the ten "
    "program-data classes; every other path invalidates the token and queues a -1xx error. NOT "
    "decided: that list items are delivered whole; value-dependent 'exactly when' over message "
    "sequences.")

RULES = {
    "C05-N": "no integer on this property's data path is narrowed by an implicit conversion (parameter handed to a narrower parameter, stored in a narrower field, or a narrow field behind a wider accessor)",
    "C05-XC": "(thorough) decision tables of the configuration-independent functions of this property are identical in every build configuration",
    "C05-E1": "every FALSE return of a typed reader has queued an error on its path, hands on a failing callee's result, or is the licensed absent-optional case",
    "C05-E2": "cause -> error-code tables of SCPI_Parameter and of the numeric readers equal the specification; numeric siblings agree",
    "C05-E3": "processCommand: -200 iff handler failed silently; -108 iff unread data and no error; returns FALSE iff one of these or cmd_error",
    "C05-E4": "SCPI_Parse: every queued error is followed by result = FALSE, handler result and-ed in; SCPI_Input returns the last parse result or FALSE with -363",
    "C05-E5": "a syntactically invalid unit queues -101 and cannot reach a handler",
    "C05-E7": "the post-handler accounting tests only per-unit state that was re-established for this unit",
    "C05-E8": "each typed reader can return TRUE exactly for the token classes of its data type (no suffixed number where no suffix is allowed, no foreign class)",
    "C05-E9": "every path of SCPI_ErrorPushEx (any queue state, any code) marks the running command as failed: context->cmd_error = TRUE",
    "C05-E12": "a decimal number with a suffix handed to a reader that takes no suffix (Bool, the integer and the floating readers) queues exactly -138 and the reader returns FALSE",
    "C05-E10": "-363 is raised only for input that does not fit: the overrun guard is exact (shared with C08-H8)",
    "C05-E11": "the parameter counter that decides whether a comma must be consumed is at least as wide as the element count of the array readers (it cannot wrap inside one unit)",
    "C05-E13": "(shared with C13-T10) every item of a list is delivered whole: the data parser consumes the white space behind each item, so the comma is found where the list walker looks for it",
    "C05-E14": "SCPI_ParamIsValid answers from the token class alone (every class, with and without text behind the token): FALSE exactly for SCPI_TOKEN_UNKNOWN - an absent optional parameter, which SCPI_Parameter hands out as a class without text, is valid",
    "C05-E6": "SCPI_Parameter returns TRUE only for recognised program-data classes; all other paths invalidate the token and queue a -1xx error",
}

PUSH = ("SCPI_ErrorPush", "SCPI_ErrorPushEx")
DATA_CLASSES = ["SCPI_TOKEN_HEXNUM", "SCPI_TOKEN_OCTNUM", "SCPI_TOKEN_BINNUM", "SCPI_TOKEN_PROGRAM_MNEMONIC",
                "SCPI_TOKEN_DECIMAL_NUMERIC_PROGRAM_DATA", "SCPI_TOKEN_DECIMAL_NUMERIC_PROGRAM_DATA_WITH_SUFFIX",
                "SCPI_TOKEN_ARBITRARY_BLOCK_PROGRAM_DATA", "SCPI_TOKEN_SINGLE_QUOTE_PROGRAM_DATA",
                "SCPI_TOKEN_DOUBLE_QUOTE_PROGRAM_DATA", "SCPI_TOKEN_PROGRAM_EXPRESSION"]


def pushes(ps):
    return [c for c in ps.calls if c.get("callee") in PUSH]


def push_code(call):
    return C.const_of(K.arg(call, 1))


def may_false(ps):
    r = ps.ret
    if r is None:
        return False
    if r.kind == "const":
        return not r.v
    if r.kind == "callres":
        return r.pol is False
    return True  # call / unknown


class TypeSets:
    def __init__(self, prog):
        self.prog = prog
        e = prog.enums.get("_scpi_token_type_t") or {"consts": {}}
        self.all = set(e["consts"].values())
        self.name = {v: k for k, v in e["consts"].items()}
        self.isnum = {}
        f = prog.fn("SCPI_ParamIsNumber")
        if f is not None:
            for k in (0, 1):
                tset = set()
                for ps in P.summarize(f, params={"suffixAllowed": k}):
                    if ps.ret is not None and ps.ret.truth():
                        for a, pol in ps.facts:
                            if isinstance(pol, tuple) and pol[0] == "case":
                                tset |= set(range(pol[1], pol[2] + 1))
                self.isnum[k] = tset
        self.param_true = set()
        f = prog.fn("SCPI_Parameter")
        if f is not None:
            for ps in P.summarize(f):
                if ps.ret is not None and ps.ret.truth():
                    for a, pol in ps.facts:
                        if isinstance(pol, tuple) and pol[0] == "case" and a.get("path", "").endswith("type"):
                            self.param_true |= set(range(pol[1], pol[2] + 1))

    def of(self, ps):
        """token-class set implied by a path's facts (None = unconstrained)"""
        cur = None

        def meet(s):
            nonlocal cur
            cur = set(s) if cur is None else (cur & set(s))
        for a, pol in ps.facts:
            if isinstance(pol, tuple):
                if (a.get("path") or "").endswith("type"):
                    if pol[0] == "case":
                        meet(range(pol[1], pol[2] + 1))
                    elif pol[0] == "default":
                        others = set()
                        for lo, hi in pol[1]:
                            others |= set(range(lo, hi + 1))
                        meet(self.all - others)
                continue
            if a.k == "CallExpr" and a.get("callee") == "SCPI_ParamIsNumber":
                k = C.const_of(K.arg(a, 1))
                if k is not None and (1 if k else 0) in self.isnum:
                    s = self.isnum[1 if k else 0]
                    meet(s if pol else self.all - s)
            elif a.k == "CallExpr" and a.get("callee") == "SCPI_Parameter" and pol:
                meet(self.param_true)
            elif a.k == "BinaryOperator" and a.get("op") in ("==", "!=") and \
                    (a.child(0).strip_all_casts().get("path") or "").endswith("type"):
                c = C.const_of(a.child(1))
                if c is not None:
                    eq = pol if a["op"] == "==" else not pol
                    meet({c} if eq else self.all - {c})
        return cur


def conv_call_of(ps, atom):
    """the converter call whose result `atom` (X > 0) tests: X is the call itself or a local that holds it"""
    if atom.k != "BinaryOperator" or atom.get("op") != ">" or C.const_of(atom.child(1)) != 0:
        return None
    x = atom.child(0).strip_all_casts()
    if x.k == "CallExpr":
        return x
    if x.k == "DeclRefExpr":
        v = ps.env.get(x["decl"]["name"])
        if v is not None and v.kind in ("call", "callres") and v.node is not None:
            return v.node
    return None


def conv_total(spec, prog, ps, tset, ts):
    """is this silent-FALSE path infeasible because its failing conversion cannot fail?"""
    for a, pol in ps.facts:
        if isinstance(pol, tuple) or pol is not False:
            continue
        if a.k == "BinaryOperator" and a.get("op") == ">" and C.const_of(a.child(1)) == 0:
            call = conv_call_of(ps, a)
            if call is None:
                continue
            base = C.const_of(K.arg(call, 2)) if call.get("nargs", 0) >= 3 else None
            for row in spec["conversion_total"]["rows"]:
                if call.get("callee") in row["callee"] and row["base"] == base:
                    classes = {prog.enumconst.get(c) for c in row["classes"]}
                    if tset is not None and tset and tset <= classes:
                        return row["reason"]
    return None


def reader_set(prog, S):
    out = {}
    for f in prog.functions.values():
        if not f.relfile.endswith(("parser.c", "units.c")):
            continue
        if f.ret.get("t") != "scpi_bool_t":
            continue
        if f.name == "SCPI_Parameter" or S.reaches(f, {"SCPI_Parameter"}):
            out[f.name] = f
    return out


def rule_e1(ck, prog, S, spec, ts):
    readers = reader_set(prog, S)
    if len(readers) < 15:
        ck.anchor_lost("C05-E1", "only %d typed readers found" % len(readers))
        return
    lic = spec["licensed_silent_false"]
    reported = set()

    def leaf(fn, ps, why_ctx, ctx_types):
        tset = ts.of(ps)
        if ctx_types is not None:
            tset = ctx_types if tset is None else (tset & ctx_types)
        if tset is not None and not tset:
            return None  # infeasible under the caller's token classes
        r = conv_total(spec, prog, ps, tset, ts)
        if r:
            return None
        node = ps.ret_node
        return (fn, node, ps, tset)

    leaves = []
    for name, f in sorted(readers.items()):
        ck.analysed(f)
        try:
            sums = P.summarize(f, fork_helpers=True)
        except P.TooManyPaths:
            ck.undecided("C05-E1", K.site(f, "paths", 0), K.loc(f), "too many paths")
            continue
        nsil = 0
        for ps in sums:
            if not may_false(ps) or pushes(ps):
                continue
            # attributed to a failing reader callee?
            attributed = [a for a, pol in ps.facts if not isinstance(pol, tuple) and pol is False
                          and a.k == "CallExpr" and a.get("callee") in readers]
            if ps.ret.kind in ("call", "callres") and ps.ret.node.get("callee") in readers:
                attributed.append(ps.ret.node)
            if attributed:
                continue
            deciding = ps.ret.node if ps.ret.kind in ("call", "callres") else None
            if deciding is None and ps.facts:
                # `if (!converter(...)) return FALSE;` - the last decision on the path is the failure of a library function:
                # the same delegation as `return converter(...)`, spelled as a guard clause
                a_, pol_ = ps.facts[-1]
                if not isinstance(pol_, tuple) and pol_ is False and a_.k == "CallExpr" and prog.fn(a_.get("callee") or "") is not None:
                    deciding = a_
            if deciding is not None:
                callee = prog.fn(deciding.get("callee") or "")
                if callee is not None and callee.ret.get("t") == "scpi_bool_t":
                    # analyse the callee's silent paths in this caller's context
                    params = {}
                    for prm, a in zip(callee.params, C.call_args(deciding)):
                        c = C.const_of(a)
                        if c is not None:
                            params[prm["name"]] = c
                    ctx_types = ts.of(ps)
                    for q in P.summarize(callee, params=params):
                        if may_false(q) and not pushes(q):
                            l = leaf(callee, q, name, ctx_types)
                            if l:
                                leaves.append(l + (name,))
                    ck.analysed(callee)
                    continue
            if ps.ret.kind == "unknown":
                ck.undecided("C05-E1", K.site(f, "return-unknown", nsil), K.loc(f, ps.ret_node),
                             "cannot determine the returned truth value on path %s" % ps.describe())
                nsil += 1
                continue
            if name in lic:
                # licensed only in the stated form: mandatory is false on the path
                if any((a.get("path") == "mandatory") and pol is False for a, pol in ps.facts
                       if not isinstance(pol, tuple)):
                    ck.holds("C05-E1", K.site(f, "licensed-absent-optional", 0), K.loc(f, ps.ret_node), lic[name])
                    continue
            l = leaf(f, ps, name, None)
            if l:
                leaves.append(l + (name,))
        ck.holds("C05-E1", K.site(f, "reader", 0), K.loc(f),
                 "%d paths enumerated; silent FALSE paths are reported at their origin" % len(sums), nontrivial=True)
    # report leaves, one site per (function, returning statement/conversion)
    per = {}
    for fn, node, ps, tset, via in leaves:
        conv = None
        for a, pol in ps.facts:
            if not isinstance(pol, tuple) and pol is False and a.k == "BinaryOperator" and a.get("op") == ">":
                c = conv_call_of(ps, a)
                if c is not None:
                    conv = "%s,base%s" % (c.get("callee"), C.const_of(K.arg(c, 2)) if c.get("nargs", 0) >= 3 else "")
        key = (fn.name, conv or "return-false")
        per.setdefault(key, []).append((node, ps, tset, via))
    for (fname, what), items in sorted(per.items()):
        fn = prog.fn(fname)
        node, ps, tset, via = items[0]
        st = K.site(fn, "silent-false(%s)" % what, 0)
        ck.violated("C05-E1", st, K.loc(fn, node),
                    "typed reader can return FALSE without queuing an error (reached from %s): %s; token classes %s"
                    % (sorted({i[3] for i in items})[:4], ps.describe()[-3:],
                       sorted(ts.name.get(t, t) for t in (tset or []))[:4]),
                    {"paths": len(items)})
    ck.floor("C05-E1", 15)


def cause_key(ps):
    out = []
    for a, pol in ps.facts:
        if isinstance(pol, tuple):
            continue
        if a.k == "CallExpr" and a.get("callee") in ("SCPI_ParamIsNumber",):
            out.append(("isnumber(suffix=%s)" % C.const_of(K.arg(a, 1)), pol))
        elif a.k == "CallExpr" and a.get("callee") == "SCPI_Parameter":
            out.append(("parameter-fetched", pol))
        elif a.get("path") == "value":
            out.append(("out-pointer", pol))
    return tuple(out)


def rule_e2(ck, prog, S, spec, ts):
    codes = spec["codes"]
    # numeric readers
    numeric = ["ParamSignUInt32", "ParamSignUInt64", "SCPI_ParamFloat", "SCPI_ParamDouble"]
    want = {
        (("out-pointer", False),): -310,
        (("out-pointer", True), ("parameter-fetched", True), ("isnumber(suffix=0)", False), ("isnumber(suffix=1)", True)): -138,
        (("out-pointer", True), ("parameter-fetched", True), ("isnumber(suffix=0)", False), ("isnumber(suffix=1)", False)): -104,
    }
    tables = {}
    for name in numeric:
        f = prog.fn(name)
        if f is None:
            ck.anchor_lost("C05-E2", "numeric reader %s" % name)
            continue
        tab = {}
        for ps in P.summarize(f, fork_helpers=True):
            pc = [push_code(c) for c in pushes(ps)]
            tab.setdefault(cause_key(ps), set()).add(tuple(pc))
        tables[name] = tab
        st = K.site(f, "cause->code", 0)
        bad = []
        for cause, code in want.items():
            got = tab.get(cause)
            if got != {(code,)}:
                bad.append("cause %s queues %s, specification says %d" % (list(cause), sorted(got) if got else "nothing", code))
        for cause, got in tab.items():
            if cause not in want and any(g for g in got):
                bad.append("unexpected error %s for cause %s" % (sorted(got), list(cause)))
        if bad:
            ck.violated("C05-E2", st, K.loc(f), "; ".join(bad))
        else:
            ck.holds("C05-E2", st, K.loc(f), "-310 / -138 / -104 table as specified")
    names = [n for n in numeric if n in tables]
    for n in names[1:]:
        st = K.site(prog.fn(n), "sibling-agreement", 0)
        if tables[n] != tables[names[0]]:
            ck.violated("C05-E2", st, K.loc(prog.fn(n)),
                        "numeric readers %s and %s disagree on (cause -> code)" % (names[0], n))
        else:
            ck.holds("C05-E2", st, K.loc(prog.fn(n)), "same table as %s" % names[0])
    # SCPI_Parameter
    f = prog.fn("SCPI_Parameter")
    if f is None:
        ck.anchor_lost("C05-E2", "SCPI_Parameter")
        return
    seen = {}
    for ps in P.summarize(f):
        pc = tuple(push_code(c) for c in pushes(ps))
        d = ps.describe()
        if any(x.startswith("parameter is False") for x in d):
            cause = "null"
        elif any("mandatory is True" in x for x in d):
            cause = "eos-mandatory"
        elif any("mandatory is False" in x for x in d):
            cause = "eos-optional"
        elif any("SCPI_TOKEN_COMMA is True" in x for x in d):
            cause = "no-comma"
        elif ps.ret is not None and ps.ret.truth():
            cause = "ok"
        else:
            cause = "unrecognised"
        seen.setdefault(cause, set()).add(pc)
    expect = {"null": {(-310,)}, "eos-mandatory": {(-109,)}, "eos-optional": {()}, "no-comma": {(-103,)},
              "ok": {()}, "unrecognised": {(-151,)}}
    st = K.site(f, "cause->code", 0)
    bad = ["%s: queues %s, specification %s" % (k, sorted(seen.get(k, [])), sorted(v)) for k, v in expect.items()
           if seen.get(k) != v]
    if bad:
        ck.violated("C05-E2", st, K.loc(f), "; ".join(bad))
    else:
        ck.holds("C05-E2", st, K.loc(f), "-310 / -109 / nothing / -103 / -151 as specified")
    # -224 unknown choice, -131 unknown suffix: the designated functions queue exactly these
    for fname, code, what in (("SCPI_ParamToChoice", -224, "unknown choice"), ("transformNumber", -131, "unknown suffix")):
        g = prog.fn(fname)
        if g is None:
            ck.anchor_lost("C05-E2", fname)
            continue
        st = K.site(g, "code(%s)" % what, 0)
        falses = [ps for ps in P.summarize(g) if may_false(ps)]
        codes_ = {push_code(c) for ps in falses for c in pushes(ps)}
        silent = [ps for ps in falses if not pushes(ps)]
        if code not in codes_:
            ck.violated("C05-E2", st, K.loc(g), "%s never queues %d for an %s" % (fname, code, what))
        elif silent:
            ck.violated("C05-E2", st, K.loc(g, silent[0].ret_node), "%s can fail without queuing an error: %s"
                        % (fname, silent[0].describe()[-3:]))
        else:
            ck.holds("C05-E2", st, K.loc(g), "%d on %s; every failing path queues an error (%s)" % (code, what, sorted(codes_)))
        ck.analysed(g)


def rule_e3(ck, prog, S):
    got = K.need(ck, prog, "C05-E3", "processCommand")
    if not got:
        return
    f = got[0]
    ok_val = prog.enumconst.get("SCPI_RES_OK")
    sums = P.summarize(f)
    problems = []
    npaths = 0
    for ps in sums:
        cbfail = None
        ce = []
        unread = None
        for ev in ps.events:
            if ev[0] != "branch" or isinstance(ev[2], tuple):
                continue
            a, pol = ev[1], ev[2]
            if a.k == "BinaryOperator" and a.get("op") in ("!=", "==") and C.const_of(a.child(1)) == ok_val and \
                    a.child(0).strip_all_casts().k == "CallExpr":
                cbfail = pol if a["op"] == "!=" else not pol
            elif (a.get("path") or "").endswith("->cmd_error"):
                ce.append(pol)
            elif a.k == "BinaryOperator" and a.get("op") == "<" and "pos" in a.child(0).src:
                unread = pol
        if cbfail is None and not any(c.get("callee") is None for c in ps.calls):
            continue  # no call-back path (callback == NULL)
        npaths += 1
        codes = [push_code(c) for c in pushes(ps)]
        want = []
        err_seen = False
        # after the call-back
        ce_after_cb = ce[0] if ce else None
        if cbfail:
            if ce_after_cb is False:
                want.append(-200)
            err_seen = True
        else:
            if ce_after_cb:
                err_seen = True
        if unread:
            ce_last = ce[-1] if ce else None
            if ce_last is False:
                want.append(-108)
                err_seen = True
        desc = "handler %s, cmd_error %s, unread %s" % ("failed" if cbfail else "ok", ce, unread)
        if codes != want:
            problems.append(("%s: queues %s, specification %s" % (desc, codes, want), ps))
        rv = ps.ret.truth() if ps.ret is not None else None
        if rv is None or rv == err_seen:
            problems.append(("%s: returns %s, specification %s" % (desc, ps.ret, not err_seen), ps))
    st = K.site(f, "post-handler-accounting", 0)
    if npaths < 6:
        ck.anchor_lost("C05-E3", "only %d handler paths in processCommand" % npaths)
    elif problems:
        ck.violated("C05-E3", st, K.loc(f, problems[0][1].ret_node), problems[0][0],
                    {"all": [p[0] for p in problems[:8]]})
    else:
        ck.holds("C05-E3", st, K.loc(f), "%d paths: -200 / -108 / return value as specified" % npaths)
    ck.analysed(f)


def rule_e4_e5(ck, prog, S):
    got = K.need(ck, prog, "C05-E4", "SCPI_Parse", "SCPI_Input")
    if not got:
        return
    parse, inp = got
    pg = S.pg(parse)
    det = K.ordinal_sites(list(parse.calls("scpiParser_detectProgramMessageUnit")))
    rfalse = [n for n, t in C.stores(parse) if t.get("path") == "result" and n.get("op") == "=" and C.const_of(n.child(1)) == 0]
    for i, c in enumerate(K.ordinal_sites([x[0] for x in K.effect_sites(prog, S, parse, lambda c_: c_.get("callee") in PUSH)])):
        st = K.site(parse, "push->result=FALSE", i)
        reach = pg.reachable([pg.after(c)], blocked_edge=lambda e: e.kind == "elem" and e.node in rfalse)
        if pg.exit in reach or (det and pg.before(det[0]) in reach):
            ck.violated("C05-E4", st, K.loc(parse, c),
                        "an error is queued (%s) but the parse result is not forced to FALSE on every path" % c.src)
        else:
            ck.holds("C05-E4", st, K.loc(parse, c), "followed by result = FALSE on every path")
    pcs = list(parse.calls("processCommand"))
    for i, c in enumerate(K.ordinal_sites(pcs)):
        st = K.site(parse, "and-in(processCommand)", i)
        par = parse.parent_of(c)
        while par is not None and par.k in ("ImplicitCastExpr", "ParenExpr"):
            par = parse.parent_of(par)
        ok = par is not None and par.get("op") == "&=" and par.child(0).strip().get("path") == "result"
        if not ok and par is not None and par.get("op") in ("&&", "&"):
            up = parse.parent_of(par)
            ok = up is not None and up.get("op") == "=" and up.child(0).strip().get("path") == "result"
        if ok:
            ck.holds("C05-E4", st, K.loc(parse, c), "result &= processCommand(...)")
        else:
            ck.violated("C05-E4", st, K.loc(parse, c), "the handler's result is not and-ed into the parse result: `%s`"
                        % (par.src if par is not None else c.src))
    # result is never set back to TRUE, and is what is returned
    bad = [n for n, t in C.stores(parse) if t.get("path") == "result" and n.get("op") == "=" and C.const_of(n.child(1)) not in (0,)]
    rets = [n for n in parse.nodes.values() if n.k == "ReturnStmt" and n.ch]
    st = K.site(parse, "returns-result", 0)
    rv_ok = all(r.child(0).strip_all_casts().get("path") == "result" or C.const_of(r.child(0)) == 0 for r in rets)
    if bad or not rv_ok:
        ck.violated("C05-E4", st, K.loc(parse, (bad or rets)[0]), "parse result is reset or not returned")
    else:
        ck.holds("C05-E4", st, K.loc(parse), "monotone result, returned")
    # SCPI_Input
    st = K.site(inp, "returns-last-parse", 0)
    probs = []
    try:
        sums = P.summarize(inp, max_visits=2)
    except P.TooManyPaths:
        sums = []
        probs.append("too many paths")
    for ps in sums:
        parses = [c for c in ps.calls if c.get("callee") == "SCPI_Parse"]
        pc = [push_code(c) for c in pushes(ps)]
        r = ps.ret
        if pc:
            if pc != [-363] or r.truth() is not False:
                probs.append("overrun path queues %s and returns %s" % (pc, r))
        elif not parses:
            if r.truth() is not True:
                probs.append("no message executed but returns %s" % r)
        else:
            if not (r.kind in ("call", "callres") and r.node is parses[-1]):
                probs.append("returns %s, not the value of the last SCPI_Parse on the path" % r)
    if probs:
        ck.violated("C05-E4", st, K.loc(inp), probs[0], {"all": sorted(set(probs))[:6]})
    else:
        ck.holds("C05-E4", st, K.loc(inp), "%d paths: last SCPI_Parse value, TRUE when nothing executed, FALSE with -363" % len(sums))
    # E5
    inv = prog.enumconst.get("SCPI_TOKEN_INVALID")
    inv_edges = []
    for p_, es in pg.out.items():
        for e in es:
            if e.kind == "edge" and e.label[0] in ("true", "false") and e.label[1] is not None:
                a = e.label[1]
                if a.k == "BinaryOperator" and a.get("op") in ("==", "!=") and C.const_of(a.child(1)) == inv \
                        and "programHeader" in a.child(0).src:
                    if (a["op"] == "==") == (e.label[0] == "true"):
                        inv_edges.append(e)
    if not inv_edges:
        ck.anchor_lost("C05-E5", "test of programHeader.type against SCPI_TOKEN_INVALID in SCPI_Parse")
    for i, c in enumerate(K.ordinal_sites(pcs)):
        st = K.site(parse, "invalid-unit-never-dispatched", i)
        reach = pg.reachable([e.dst for e in inv_edges],
                             blocked_edge=lambda e: e.kind == "elem" and e.node in det)
        if inv_edges and pg.before(c) not in reach:
            ck.holds("C05-E5", st, K.loc(parse, c), "no handler dispatch on the programHeader.type == INVALID edge before the next unit")
        elif inv_edges:
            ck.violated("C05-E5", st, K.loc(parse, c), "a unit marked invalid by the scanner can reach a handler")
    # -101 pushed on the invalid edge
    p101 = [x[0] for x in K.effect_sites(prog, S, parse, lambda c_: c_.get("callee") in PUSH and push_code(c_) == -101)]
    st = K.site(parse, "invalid-unit-queues-101", 0)
    ok = False
    for c in p101:
        facts = K.facts_at(S, parse, c) or []
        if any(a.k == "BinaryOperator" and a.get("op") == "==" and C.const_of(a.child(1)) == inv and pol is True
               for a, pol in facts if not isinstance(pol, tuple)):
            ok = True
    if ok:
        ck.holds("C05-E5", st, K.loc(parse, p101[0]), "-101 on the INVALID edge")
    else:
        ck.violated("C05-E5", st, K.loc(parse), "no -101 is queued for a unit the scanner marks invalid")
    ck.analysed(parse, inp)


def sets_flag_everywhere(prog, g, field, stack=()):
    """True iff every entry->exit path of g (with a non-null context) stores a non-zero constant
    to <ctx>->field, directly or through a callee that does so on all of its paths"""
    if g is None or g.name in stack:
        return False
    pg = C.PointGraph(g)

    def sets(n):
        t = C.store_target(n)
        if t is not None and n.get("op") == "=" and t.k == "MemberExpr" and t.get("member") == field:
            v = C.const_of(n.child(1))
            return v is not None and v != 0
        if n.k == "CallExpr" and n.get("callee"):
            h = prog.fn(n["callee"])
            if h is not None and h.name != g.name and C.call_args(n) and \
                    C.call_args(n)[0].strip_all_casts().get("path") == "context" and h.params and h.params[0]["name"] == "context":
                return sets_flag_everywhere(prog, h, field, stack + (g.name,))
        return False

    def blocked(e):
        if e.kind == "elem":
            return sets(e.node)
        lab = e.label
        if lab and lab[0] in ("true", "false") and lab[1] is not None:
            for atom, pol in C.cond_facts(lab[1], lab[0] == "true"):
                # the null-context edge is outside the obligation
                if atom.get("path") == "context" and pol is False:
                    return True
        return False

    reach = pg.reachable([pg.entry], blocked_edge=blocked)
    return pg.exit not in reach


def rule_e9(ck, prog):
    f = prog.fn("SCPI_ErrorPushEx")
    if f is None:
        ck.anchor_lost("C05-E9", "SCPI_ErrorPushEx")
        return
    ck.analysed(f)
    st = K.site(f, "marks-command-failed", 0)
    if sets_flag_everywhere(prog, f, "cmd_error"):
        ck.holds("C05-E9", st, K.loc(f), "no entry->exit path with a context avoids `cmd_error = TRUE`")
    else:
        ck.violated("C05-E9", st, K.loc(f),
                    "SCPI_ErrorPushEx has a path (for example the queue-overflow path) that does not set context->cmd_error: "
                    "the unit is then accounted as successful (no result = FALSE, trailing-data / -200 accounting wrong)")


def rule_e12(ck, prog):
    """Readers that take no suffix answer a number WITH a suffix with -138 (suffix not allowed), not with the generic -104:
    decided by evaluating each such reader on a parameter of that token class (sa/interp.py: SCPI_Parameter is replaced
    by a stub that delivers a token of the class, error pushes are logged)."""
    from sa import interp as I
    ec = prog.enumconst
    cls = ec.get("SCPI_TOKEN_DECIMAL_NUMERIC_PROGRAM_DATA_WITH_SUFFIX")
    s138 = ec.get("SCPI_ERROR_SUFFIX_NOT_ALLOWED", -138)
    readers = [("SCPI_ParamBool", 3), ("SCPI_ParamInt32", 3), ("SCPI_ParamUInt32", 3), ("SCPI_ParamInt64", 3), ("SCPI_ParamUInt64", 3),
               ("SCPI_ParamFloat", 3), ("SCPI_ParamDouble", 3)]
    n = 0
    for name, nargs in readers:
        f = prog.fn(name)
        if f is None or cls is None:
            continue
        st = K.site(f, "suffix-not-allowed", 0)

        def hook(mach, args, cls=cls):
            obj = args[1].load() if isinstance(args[1], I.Ptr) else None
            if obj is None and isinstance(args[1], I.Ptr):
                obj = {}
                args[1].store(obj)
            if isinstance(obj, dict):
                obj.update({"type": cls, "ptr": I.TOP, "len": I.TOP})
            return 1
        out = [0]
        try:
            outs, m = I.explore(prog, name, [I.TOP, I.Ptr(out, 0), 1], follow=lambda n_: prog.fn(n_) is not None and n_ not in
                                ("SCPI_ErrorPush", "SCPI_ErrorPushEx", "matchPattern", "strBaseToInt32", "strBaseToUInt32", "strBaseToInt64",
                                 "strBaseToUInt64", "strToDouble", "strToFloat"),
                                effects={"SCPI_Parameter": hook, "SCPI_ErrorPush": None, "SCPI_ErrorPushEx": None})
        except I.Stuck as e:
            ck.undecided("C05-E12", st, K.loc(f), "%s cannot be evaluated: %s" % (name, e))
            continue
        n += 1
        codes = []
        for _r, fr in outs:
            codes.append(tuple(a[1] for nm, a in fr.plog if nm in ("SCPI_ErrorPush", "SCPI_ErrorPushEx") and len(a) > 1))
        bad = [c for c in codes if c != (s138,)]
        rets = {_r for _r, fr in outs}
        if bad or rets - {0}:
            ck.violated("C05-E12", st, K.loc(f), "a decimal number with a suffix handed to %s queues %s and returns %s; the reader takes no "
                        "suffix, the specification says exactly one -138 and FALSE" % (name, sorted(set(codes)), sorted(map(str, rets))))
        else:
            ck.holds("C05-E12", st, K.loc(f), "number with suffix -> -138, FALSE (%d paths)" % len(outs))
    if n == 0:
        ck.anchor_lost("C05-E12", "no typed reader could be evaluated")


def rule_e14(ck, prog):
    from sa import interp as I
    f = prog.fn("SCPI_ParamIsValid")
    if f is None:
        ck.anchor_lost("C05-E14", "SCPI_ParamIsValid")
        return
    ck.analysed(f)
    st = K.site(f, "verdict-by-class", 0)
    e = prog.enums.get("_scpi_token_type_t") or {"consts": {}}
    unk = prog.enumconst.get("SCPI_TOKEN_UNKNOWN")
    if unk is None or len(e["consts"]) < 10:
        ck.anchor_lost("C05-E14", "enum _scpi_token_type_t")
        return
    text = I.mkstring("abc")
    bad = None
    n = 0
    for name, t in sorted(e["consts"].items(), key=lambda kv: kv[1]):
        for ptr, ln in ((0, 0), (text, 3), (text, 0)):
            obj = {"type": t, "ptr": ptr, "len": ln}
            try:
                v = I.Machine(prog).run(f, [I.Ptr([obj], 0)])
            except I.Stuck as ex:
                ck.undecided("C05-E14", st, K.loc(f), "cannot evaluate SCPI_ParamIsValid: %s" % ex)
                return
            n += 1
            if I.unk(v) or bool(v) != (t != unk):
                bad = bad or (name, ptr != 0, ln, v)
    if bad:
        ck.violated("C05-E14", st, K.loc(f),
                    "SCPI_ParamIsValid answers %s for a parameter of class %s (%s, length %d): a handler that asks for an optional "
                    "parameter with SCPI_Parameter(..., FALSE) and then validates it takes the absent parameter for an error (-200, "
                    "the input call fails)" % (bad[3], bad[0], "with text" if bad[1] else "no text", bad[2]))
    else:
        ck.holds("C05-E14", st, K.loc(f), "%d (class, text) combinations: FALSE exactly for SCPI_TOKEN_UNKNOWN" % n)


def rule_e10_e11(ck, prog, S):
    from . import c08
    c08.rule_h8(K.RuleProxy(ck, {"C08-H8": "C05-E10"}), prog, S)
    rec = prog.records.get("_scpi_t")
    par = prog.fn("SCPI_Parameter")
    arr = [f for f in prog.functions.values() if f.name.startswith("SCPI_ParamArray")]
    if not rec or par is None or not arr:
        ck.anchor_lost("C05-E11", "struct _scpi_t / SCPI_Parameter / SCPI_ParamArray*")
        return
    read = {n.get("member") for n in par.nodes.values() if n.k == "MemberExpr" and n.get("record") == "_scpi_t"}
    flds = [q for q in rec["fields"] if q["name"] in read and q["type"].get("tk") == "int" and "count" in q["name"]]
    st = K.site(par, "parameter-counter-width", 0)
    need = max([(p_["type"].get("bits") or 0) for f in arr for p_ in f.params if p_["name"] in ("i_count", "count")] or [0])
    if not flds or not need:
        ck.anchor_lost("C05-E11", "counter field read by SCPI_Parameter / count parameter of the array readers")
        return
    have = flds[0]["type"].get("bits") or 0
    if have < need:
        ck.violated("C05-E11", st, K.loc(par),
                    "`%s` (%d bits) decides whether a comma must precede the next parameter, but one unit may carry as many parameters "
                    "as an array count of %d bits says: after 2^%d parameters the counter is zero again, the comma is not consumed and "
                    "a well-formed list ends in -151 / a short array" % (flds[0]["name"], have, need, have))
    else:
        ck.holds("C05-E11", st, K.loc(par), "`%s` has %d bits, array counts have %d" % (flds[0]["name"], have, need))


def rule_e6(ck, prog, S, ts):
    f = prog.fn("SCPI_Parameter")
    if f is None:
        return
    allowed = {prog.enumconst.get(n) for n in DATA_CLASSES}
    st = K.site(f, "only-recognised-data", 0)
    extra = ts.param_true - allowed
    missing = allowed - ts.param_true
    if extra:
        ck.violated("C05-E6", st, K.loc(f), "SCPI_Parameter returns TRUE for token classes that are not program data: %s"
                    % sorted(ts.name.get(t, t) for t in extra))
    elif missing:
        ck.violated("C05-E6", st, K.loc(f), "well-formed program data of class %s is rejected"
                    % sorted(ts.name.get(t, t) for t in missing))
    else:
        ck.holds("C05-E6", st, K.loc(f), "TRUE exactly for the ten program-data classes")
    # every FALSE path after the data was lexed invalidates the token and pushes -1xx
    bad = []
    for ps in P.summarize(f):
        if ps.ret is None or ps.ret.truth() is not False:
            continue
        lexed = any(c.get("callee") in ("scpiParser_parseProgramData", "scpiLex_Comma") for c in ps.calls)
        if not lexed:
            continue
        pc = [push_code(c) for c in pushes(ps)]
        last_lex = max(i for i, e in enumerate(ps.events) if e[0] == "call" and e[1].get("callee") in ("scpiParser_parseProgramData", "scpiLex_Comma"))
        unk = prog.enumconst.get("SCPI_TOKEN_UNKNOWN")
        tokp = f.params[1]["name"]
        inval_after = False
        for i, e in enumerate(ps.events):
            if i <= last_lex:
                continue
            if e[0] == "call" and e[1].get("callee") == "invalidateToken":
                inval_after = True
            # the same spelled out: token->type = SCPI_TOKEN_UNKNOWN (with len = 0)
            if e[0] == "store" and C.store_target(e[1]).get("path") == tokp + "->type" and C.const_of(e[1].child(1)) == unk:
                if any(e2[0] == "store" and C.store_target(e2[1]).get("path") == tokp + "->len" and C.const_of(e2[1].child(1)) == 0
                       for e2 in ps.events[last_lex + 1:]):
                    inval_after = True
        if not pc or not all(-199 <= x <= -100 for x in pc) or not inval_after:
            bad.append((ps, pc, inval_after))
    st = K.site(f, "reject-invalidates-and-queues-1xx", 0)
    if bad:
        ck.violated("C05-E6", st, K.loc(f, bad[0][0].ret_node),
                    "a rejecting path queues %s and %s the token" % (bad[0][1], "invalidates" if bad[0][2] else "does not invalidate"))
    else:
        ck.holds("C05-E6", st, K.loc(f), "every rejecting path invalidates the token and queues a command error")


def accepted(prog, ts, name, memo, depth=0):
    if name in memo:
        return memo[name]
    f = prog.fn(name)
    if f is None or depth > 4:
        return None
    if name == "SCPI_Parameter":
        memo[name] = set(ts.param_true)
        return memo[name]
    memo[name] = None
    out = set()
    try:
        sums = P.summarize(f)
    except P.TooManyPaths:
        return None
    for ps in sums:
        r = ps.ret
        if r is None or r.truth() is False:
            continue
        t = ts.of(ps)
        t = set(ts.all) if t is None else set(t)
        subs = [a for a, pol in ps.facts if not isinstance(pol, tuple) and pol is True and a.k == "CallExpr"]
        if r.kind in ("call", "callres"):
            subs.append(r.node)
        for c in subs:
            g = prog.fn(c.get("callee") or "")
            if g is not None and g.ret.get("t") == "scpi_bool_t" and g.name not in ("SCPI_ParamIsNumber",) and \
                    any("parameter" in p_["type"]["t"] or "scpi_t" in p_["type"]["t"] for p_ in g.params):
                sub = accepted(prog, ts, g.name, memo, depth + 1)
                if sub is not None:
                    t &= sub
        out |= t
    memo[name] = out
    return out


def rule_e8(ck, prog, S, spec, ts):
    memo = {}
    for name, want in spec["accepted_classes"].items():
        if name.startswith("_"):
            continue
        f = prog.fn(name)
        if f is None:
            ck.anchor_lost("C05-E8", "reader %s" % name)
            continue
        got = accepted(prog, ts, name, memo)
        st = K.site(f, "accepted-classes", 0)
        if got is None:
            ck.undecided("C05-E8", st, K.loc(f), "cannot compute the accepted token classes")
            continue
        wantset = set(ts.param_true) if want == "*" else {prog.enumconst.get(w) for w in want}
        extra, missing = got - wantset, wantset - got
        nm = lambda s_: sorted(ts.name.get(t, t).replace("SCPI_TOKEN_", "") for t in s_)
        if extra:
            ck.violated("C05-E8", st, K.loc(f),
                        "%s can return TRUE for data of class %s: a value of the wrong type%s is delivered to the "
                        "handler without -104/-138" % (name, nm(extra),
                        " (a number with a suffix)" if prog.enumconst.get("SCPI_TOKEN_DECIMAL_NUMERIC_PROGRAM_DATA_WITH_SUFFIX") in extra else ""))
        elif missing:
            ck.violated("C05-E8", st, K.loc(f), "%s rejects well-formed data of class %s" % (name, nm(missing)))
        else:
            ck.holds("C05-E8", st, K.loc(f), "TRUE exactly for %s" % nm(got))
        ck.analysed(f)
    ck.floor("C05-E8", 9)


def rule_e7(ck, prog, S):
    from .c06 import fresh_unit_state
    fresh_unit_state(ck, prog, S, "C05-E7", lambda proc: [c for c in proc.calls() if c.get("callee") in PUSH] +
                     [n for n, t in C.stores(proc) if t.get("path") == "result"],
                     "the post-handler accounting (-200 / -108 / result) is decided from `%s`, which is not "
                     "re-established for this unit on every path: an error raised by an earlier unit of the message "
                     "suppresses this unit's -200/-108")


def run(ck, fb, tier):
    spec = K.load_spec("param_errors.json")
    for cfg in fb.configs:
        ck.config = cfg
        prog = fb[cfg]
        S = K.summaries(prog)
        ts = TypeSets(prog)
        if len(ts.all) < 20 or not ts.isnum.get(0) or not ts.param_true:
            ck.anchor_lost("C05-E1", "token type enum / SCPI_ParamIsNumber / SCPI_Parameter tables")
            continue
        rule_e1(ck, prog, S, spec, ts)
        rule_e2(ck, prog, S, spec, ts)
        rule_e3(ck, prog, S)
        rule_e4_e5(ck, prog, S)
        rule_e6(ck, prog, S, ts)
        rule_e9(ck, prog)
        K.narrowing_rule(ck, prog, "C05-N", lambda f_: f_.relfile.endswith("parser.c") and f_.name.startswith(("SCPI_Param", "ParamSign", "SCPI_Parameter")))
        rule_e10_e11(ck, prog, S)
        rule_e12(ck, prog)
        rule_e14(ck, prog)
        from . import c13
        c13.rule_t7(K.RuleProxy(ck, {"C13-T7": "C05-E5"}), prog)
        c13.rule_t10(K.RuleProxy(ck, {"C13-T10": "C05-E13"}), prog)
        rule_e7(ck, prog, S)
        rule_e8(ck, prog, S, spec, ts)
    ck.trust("spec/param_errors.json (error codes per cause, conversions that cannot fail, licensed silent case)")
    if tier == "thorough":
        K.cross_config(ck, fb, "C05-XC", ['SCPI_Parameter', 'ParamSignUInt32', 'ParamSignUInt64', 'SCPI_ParamFloat', 'SCPI_ParamDouble', 'SCPI_ParamBool', 'SCPI_ParamChoice', 'SCPI_ParamToChoice', 'processCommand', 'SCPI_ParamNumber'])


TECHNIQUE = ("static analysis: decision tables extracted by exhaustive CFG path enumeration with constant / call-result "
             "propagation, interprocedural failure=>error summaries with token-class sets, sibling agreement, "
             "must-pass-through")
LEVEL_TEXT = ("Clause-level static decision: every path of every typed reader and of the post-handler accounting is "
              "enumerated and its (conditions -> queued codes -> return value) row compared with the specification table; "
              "covers all parameter lists because rows are per path. Does not decide delivery of list items nor "
              "value-dependent behaviour; silent failures found are known findings.")
LEVEL_NOTE = ("Trusted: clang CFG, extractor, spec/param_errors.json incl. the list of conversions that cannot fail "
              "(lexer guarantees checked under C13, wiring under C04).")
DESIGN_REF = "DESIGN.md section 5, C05"
