"""C10 — the error queue is a bounded FIFO that marks overflow and owns its texts."""
from sa import cfg as C
from sa import paths as P
from sa import ring as R
from . import common as K

CONFIGS_QUICK = ["A", "B", "E"]
CONFIGS_THOROUGH = ["A", "B", "C", "D", "E"]

EXPLANATION = (
    "Static, clause-level decision of C10. (Q1) The four ring mutators are loop-free; each path is "
    "turned into a guarded transformer over (wr, rd, count) and the invariant 0<=wr,rd<size, "
    "0<=count<=size, wr == rd+count (mod size) is PROVED inductive for every capacity >= 1 by "
    "interval bounds linear in `size` plus a congruence argument, together with the slot touched "
    "(add: next free = wr, remove: oldest = rd, remove_last: newest = wr-1); a refutation is "
    "reported only with a concrete small model of the extracted transformer. With the invariant "
    "the ring IS a FIFO of capacity size whose newest element is what remove_last takes, for "
    "every history. (Q2) slot accesses are guarded by !full / !empty and those predicates compare "
    "count with size / 0; count() reports count. (Q3) the overflow arm of SCPI_ErrorAddInternal "
    "is release(new text), remove newest, release(its text), entry := (-350, NULL), add, return "
    "FALSE, and the caller then notifies -350. (Q4) ownership typestate of device-dependent "
    "texts over every path: no leak at function exit, no double release, no use after release, "
    "fifo_clear only on a drained queue. (Q5) queuing the error does not depend on the "
    "duplication of the text having succeeded. (Q6) pop presets (0, NULL) before removing. NOT "
    "decided: that texts come back byte-identical (libc / heap contents, see C20).")

RULES = {
    "C10-N": "no integer on this property's data path is narrowed by an implicit conversion (parameter handed to a narrower parameter, stored in a narrower field, or a narrow field behind a wider accessor)",
    "C10-Q1": "ring mutators preserve 0<=wr,rd<size, 0<=count<=size, wr==rd+count (mod size) and touch the right slot, for every capacity",
    "C10-Q2": "slot write guarded by !full, slot reads by !empty; full/empty/count are count==size / count==0 / count",
    "C10-Q3": "overflow arm: release new text, remove newest, release its text, store (-350, NULL), add, return FALSE; caller notifies -350",
    "C10-Q4": "device-dependent text ownership: no leak, no double release, no use after release on any path (typestate)",
    "C10-Q5": "the new error is queued whether or not duplicating its text succeeded",
    "C10-Q6": "SCPI_ErrorPop presets (0, NULL) before removing from the queue",
    "C10-Q8": "a clear is unconditional: every path of *CLS (SCPI_CoreCls) runs SCPI_ErrorClear and every path of SCPI_ErrorClear empties the ring (fifo_clear), whatever the status registers say",
    "C10-Q7": "the library's own text duplicator (OUR_strndup, builds without strndup) writes only inside the object it allocated",
}

FREE_CALLS = {"free": 0, "scpiheap_free": 1}
DUP_CALLS = ("strndup", "OUR_strndup", "scpiheap_strndup", "__strndup")


def rule_q1_q2(ck, prog, S):
    got = K.need(ck, prog, "C10-Q1", "fifo_init", "fifo_clear", "fifo_add", "fifo_remove", "fifo_remove_last",
                 "fifo_is_full", "fifo_is_empty", "fifo_count")
    if not got:
        return
    init, clear, add, rem, reml, isfull, isempty, cnt = got
    R.PROG[0] = prog
    # predicate bodies
    preds = {}
    for f, want in ((isfull, ("count", "size")), (isempty, ("count", 0))):
        rets = [n for n in f.nodes.values() if n.k == "ReturnStmt" and n.ch]
        st = K.site(f, "predicate", 0)
        ok = False
        if len(rets) == 1:
            e = rets[0].child(0).strip_all_casts()
            fifo = f.params[0]["name"]
            if e.k == "BinaryOperator" and e.get("op") == "==":
                l = R.field_of(e.child(0).strip_all_casts(), fifo)
                r = R.field_of(e.child(1).strip_all_casts(), fifo) or C.const_of(e.child(1))
                if (l, r) == want:
                    ok = True
                preds[f.name] = (e, fifo)
        if ok:
            ck.holds("C10-Q2", st, K.loc(f), "%s is `count == %s`" % (f.name, want[1]))
        else:
            ck.violated("C10-Q2", st, K.loc(f), "%s is not `count == %s`: a full/empty queue is misjudged" % (f.name, want[1]))
    # fifo_count
    st = K.site(cnt, "reports-count", 0)
    sto = [n for n, t in C.stores(cnt) if (t.get("path") or "").startswith("*")]
    if sto and sto[0].child(1).strip_all_casts().get("path") == "%s->count" % cnt.params[0]["name"]:
        ck.holds("C10-Q2", st, K.loc(cnt), "*value = count")
    else:
        ck.violated("C10-Q2", st, K.loc(cnt), "fifo_count does not report the ring's count")
    for f, role in ((init, "init"), (clear, "init"), (add, "add"), (rem, "remove"), (reml, "remove_last")):
        ck.analysed(f)
        if C.loops(f):
            ck.anchor_lost("C10-Q1", "%s is no longer loop-free" % f.name)
            continue
        try:
            rps = R.analyse(f, preds)
        except P.TooManyPaths:
            ck.anchor_lost("C10-Q1", "%s has too many paths" % f.name)
            continue
        mutating = 0
        for n, rp in enumerate(rps):
            st = K.site(f, "path", n)
            where = K.loc(f, rp.ps.ret_node) if rp.ps.ret_node is not None else K.loc(f)
            if not rp.ops:
                ck.holds("C10-Q1", st, where, "no state change (%s)" % [g for g in rp.guards], nontrivial=False)
                continue
            mutating += 1
            if rp.unknown_guards:
                ck.undecided("C10-Q1", st, where, "path guarded by conditions the ring model cannot interpret: %s" % rp.unknown_guards)
                continue
            res, info = R.prove(rp, establishes=(role == "init"))
            slot_problem = None
            if res is True and role != "init":
                slots = info["slots"]
                want = {"add": ("write", R.Lin({"wr": 1})), "remove": ("read", R.Lin({"rd": 1})),
                        "remove_last": ("read", R.Lin({"wr": 1}, -1))}[role]
                hit = [s for s in slots if s[0] == want[0]]
                if not hit and not (role != "add" and any(k == "ne" for k, f_, v in rp.guards) is False):
                    pass
                for kind, lin in slots:
                    if kind != want[0]:
                        continue
                    d = lin.core().add(want[1], -1)
                    if d.k != 0 or any(x for v_, x in d.c.items() if v_ != "size"):
                        slot_problem = "%s accesses slot %r, expected %r (mod size)" % (role, lin, want[1])
                    if not lin.mod:
                        fb = dict(R.INV_BOUNDS)
                        lo, hi = R.bounds(lin, fb)
                        if not R.ge0(lo) or not R.le(hi, (1, -1)):
                            slot_problem = "slot index %r can leave [0, size)" % lin
                # guards: Q2
                needs = ("ne", "count", "size") if role == "add" else ("ne", "count", 0)
                if needs not in rp.guards:
                    ck.violated("C10-Q2", K.site(f, "guard", n), where,
                                "%s changes the ring on a path that is not guarded by %s" %
                                (f.name, "!full" if role == "add" else "!empty"))
                else:
                    ck.holds("C10-Q2", K.site(f, "guard", n), where, "guarded by count != %s" % needs[2])
            if res is True and not slot_problem:
                ck.holds("C10-Q1", st, where, "invariant preserved for every capacity >= 1; %s"
                         % ("establishes wr=rd=count=0" if role == "init" else "slot as required"))
                continue
            # try to refute with a small model
            wit = R.refute(rp, role if role != "init" else "other") if role != "init" else None
            if wit:
                ck.violated("C10-Q1", st, where,
                            "%s: %s (capacity %d, wr=%d rd=%d count=%d)" % (f.name, wit["problem"], wit["state"]["size"],
                            wit["state"]["wr"], wit["state"]["rd"], wit["state"]["count"]), {"witness": wit})
            elif res is False and role == "init":
                ck.violated("C10-Q1", st, where, "%s: %s" % (f.name, info))
            elif slot_problem and wit is False:
                ck.undecided("C10-Q1", st, where, slot_problem + " (no small counter-model)")
            elif res is False:
                ck.violated("C10-Q1", st, where, "%s: %s" % (f.name, info))
            else:
                ck.undecided("C10-Q1", st, where, "%s: %s" % (f.name, info))
        if role != "init" and mutating == 0:
            ck.violated("C10-Q1", K.site(f, "effect", 0), K.loc(f), "%s never changes the ring" % f.name)
    ck.floor("C10-Q1", 5)


# ---- typestate -------------------------------------------------------------------------------
class TS:
    N, O, REL, Q = "none", "owned", "released", "queued"


def text_cell_of_token(path):
    """&error_value -> error_value.device_dependent_info ; error -> error->device_dependent_info"""
    if path.startswith("&"):
        return path[1:] + ".device_dependent_info"
    return path + "->device_dependent_info"


def typestate_function(ck, prog, S, f, cfg, rule="C10-Q4"):
    try:
        sums = P.summarize(f, max_visits=2)
    except P.TooManyPaths:
        ck.undecided(rule, K.site(f, "paths", 0), K.loc(f), "too many paths")
        return 0
    out_params = {p["name"] for p in f.params if p["type"].get("tk") == "ptr"}
    problems = {}
    nevents = 0

    def is_queue(call):
        a = C.call_args(call)
        return bool(a) and "error_queue" in (a[0].strip_all_casts().get("path") or "")

    for ps in sums:
        cells = {}
        evs = ps.events
        pending_dup = None
        for i, ev in enumerate(evs):
            if ev[0] == "call":
                c = ev[1]
                name = c.get("callee")
                branch = next((e[2] for e in evs[i + 1:] if e[0] == "branch" and e[1] is c), None)
                if name in DUP_CALLS:
                    pending_dup = c
                    nevents += 1
                elif name in FREE_CALLS:
                    a = C.call_args(c)[FREE_CALLS[name]].strip_all_casts()
                    cell = a.get("path")
                    nevents += 1
                    stt = cells.get(cell, TS.N)
                    if stt == TS.REL:
                        problems.setdefault(("double-release", c.id), (c, "text `%s` is released twice" % cell, ps))
                    elif stt == TS.Q:
                        problems.setdefault(("release-queued", c.id), (c, "text `%s` now belongs to the queue and is released: "
                                                                       "the queued entry dangles" % cell, ps))
                    cells[cell] = TS.REL if stt in (TS.O, TS.REL, TS.Q) else TS.N
                elif name == "fifo_add" and is_queue(c):
                    tok = C.call_args(c)[1].strip_all_casts().get("path") or ""
                    cell = text_cell_of_token(tok)
                    nevents += 1
                    if branch is not False:
                        if cells.get(cell) == TS.REL:
                            problems.setdefault(("queue-released", c.id), (c, "an entry whose text `%s` was already released is queued" % cell, ps))
                        if cells.get(cell) == TS.O:
                            cells[cell] = TS.Q
                elif name in ("fifo_remove", "fifo_remove_last") and is_queue(c):
                    a1 = C.call_args(c)[1].strip_all_casts()
                    nevents += 1
                    if branch is not False:
                        if C.is_null(a1):
                            problems.setdefault(("dropped", c.id), (c, "an entry is removed from the queue with a NULL "
                                                                    "destination: its text can no longer be released", ps))
                        else:
                            cell = text_cell_of_token(a1.get("path") or "")
                            if cells.get(cell) == TS.O:
                                problems.setdefault(("overwrite", c.id), (c, "`%s` still owns a text when it is overwritten by the removed entry (leak)" % cell, ps))
                            cells[cell] = TS.O
                elif name == "fifo_clear" and is_queue(c):
                    nevents += 1
                    drained = any(e[0] == "branch" and e[1].k == "CallExpr" and e[1].get("callee") == "fifo_remove"
                                  and e[2] is False for e in evs[:i])
                    later_add = False
                    if not drained:
                        problems.setdefault(("clear", c.id), (c, "fifo_clear on a queue that may still hold texts: they are "
                                                              "never released" , ps))
                elif name == "SCPI_ErrorPop":
                    a1 = C.call_args(c)[1].strip_all_casts()
                    cell = text_cell_of_token(a1.get("path") or "")
                    if cells.get(cell) == TS.O:
                        problems.setdefault(("overwrite", c.id), (c, "`%s` still owns a text when SCPI_ErrorPop overwrites it" % cell, ps))
                    cells[cell] = TS.O
                    nevents += 1
                else:
                    # use: passing a released text / entry to any other call
                    for a in C.call_args(c):
                        p = a.strip_all_casts().get("path") or ""
                        for cell, stt in cells.items():
                            if stt == TS.REL and (p == cell or text_cell_of_token(p) == cell):
                                problems.setdefault(("use-after-release", c.id), (c, "`%s` is used by %s after its text was released" % (cell, name), ps))
            elif ev[0] == "store":
                n = ev[1]
                t = C.store_target(n)
                tp = t.get("path") or ""
                if n.get("op") != "=":
                    continue
                rhs = n.child(1).strip_all_casts()
                if tp.endswith("device_dependent_info") or (t.get("t", "").replace("const ", "") in ("char *",) and rhs.k == "CallExpr" and rhs.get("callee") in DUP_CALLS):
                    # assignment into a tracked cell
                    if cells.get(tp) == TS.O:
                        problems.setdefault(("overwrite", n.id), (n, "`%s` still owns a text when it is overwritten (leak)" % tp, ps))
                    if rhs.k == "CallExpr" and rhs.get("callee") in DUP_CALLS:
                        cells[tp] = TS.O
                    elif C.is_null(rhs):
                        cells[tp] = TS.N
                    else:
                        sp = rhs.get("path")
                        if sp in cells:
                            cells[tp] = cells[sp]
                            if cells[sp] == TS.O:
                                cells[sp] = TS.N  # moved
                        else:
                            cells[tp] = TS.N  # borrowed from the caller, not owned here
                elif rhs.k == "CallExpr" and rhs.get("callee") in DUP_CALLS:
                    cells[tp] = TS.O
        # declarations with init from dup
        for cell, stt in cells.items():
            if stt == TS.O:
                root = cell.split("->")[0].split(".")[0]
                if "->" in cell and root in out_params:
                    continue  # handed out to the caller
                node = ps.ret_node or f.body
                problems.setdefault(("leak", cell), (node, "text held in `%s` is neither released nor queued nor handed out "
                                                    "when %s returns (leak)" % (cell, f.name), ps))
    for n, ((kind, _), (node, what, ps)) in enumerate(sorted(problems.items(), key=lambda kv: (kv[0][0], kv[1][0].get("line", 0)))):
        ck.violated(rule, K.site(f, kind, n), K.loc(f, node), what, {"path": ps.describe()[:8]})
    if not problems:
        ck.holds(rule, K.site(f, "ownership", 0), K.loc(f), "%d paths, %d ownership events: no leak, double release or use after release"
                 % (len(sums), nevents), nontrivial=nevents > 0)
    return nevents


def decl_dup_cells(f):
    pass


def rule_q4(ck, prog, S, cfg):
    names = ["SCPI_ErrorAddInternal", "SCPI_ErrorClear", "SCPI_ErrorPop", "SCPI_SystemErrorNextQ"]
    got = K.need(ck, prog, "C10-Q4", *names)
    if not got:
        return
    if cfg == "B":
        # no text may ever be formed
        bad = [(f, c) for f in prog.functions.values() for c in f.calls() if c.get("callee") in DUP_CALLS + tuple(FREE_CALLS)
               and f.relfile.endswith(("error.c", "minimal.c", "parser.c"))]
        st = "config-B/no-text#0"
        if bad:
            ck.violated("C10-Q4", st, K.loc(bad[0][0], bad[0][1]), "a text is duplicated/released although device-dependent information is disabled")
        else:
            ck.holds("C10-Q4", st, "libscpi/src/error.c:1", "no text pointer is formed in this configuration")
        return
    total = 0
    for f in got:
        ck.analysed(f)
        total += typestate_function(ck, prog, S, f, cfg)
    # every other function that touches the queue or releases texts is analysed too
    for f in prog.functions.values():
        if f in got:
            continue
        if any(c.get("callee") in FREE_CALLS or c.get("callee") in DUP_CALLS for c in f.calls()) and \
                f.relfile.endswith(("error.c", "minimal.c", "parser.c")) and not f.name.startswith(("scpiheap_", "OUR_")):
            ck.analysed(f)
            total += typestate_function(ck, prog, S, f, cfg)
    if total < 8:
        ck.anchor_lost("C10-Q4", "only %d ownership events found (expected >= 8)" % total)


def rule_q3_q5_q6(ck, prog, S, cfg):
    got = K.need(ck, prog, "C10-Q3", "SCPI_ErrorAddInternal", "SCPI_ErrorPushEx", "SCPI_ErrorPop")
    if not got:
        return
    add, push, pop = got
    sums = P.summarize(add)
    over = [ps for ps in sums if any(e[0] == "branch" and e[1].k == "CallExpr" and e[1].get("callee") == "fifo_add" and e[2] is False for e in ps.events)]
    okp = [ps for ps in sums if ps not in over]
    st = K.site(add, "overflow-arm", 0)
    probs = []
    if not over:
        probs.append("no path on which fifo_add fails")
    for ps in over:
        seq = []
        for e in ps.events:
            if e[0] == "call":
                n = e[1].get("callee")
                if n in FREE_CALLS:
                    seq.append("release")
                elif n in ("fifo_add", "fifo_remove_last", "fifo_remove", "fifo_clear"):
                    seq.append(n)
            elif e[0] == "store":
                t = C.store_target(e[1])
                if (t.get("path") or "").endswith(".error_code"):
                    seq.append("code=%s" % C.const_of(e[1].child(1)))
                elif (t.get("path") or "").endswith(".device_dependent_info"):
                    seq.append("info=%s" % ("NULL" if C.is_null(e[1].child(1)) else "text"))
        i = seq.index("fifo_add") if "fifo_add" in seq else 0
        tail = seq[i + 1:]
        if cfg == "B":
            want = ["fifo_remove_last", "code=-350", "fifo_add"]
        else:
            want = ["release", "fifo_remove_last", "release", "code=-350", "info=NULL", "fifo_add"]
        if tail != want:
            probs.append("overflow arm performs %s, specification %s" % (tail, want))
        if ps.ret is None or ps.ret.truth() is not False:
            probs.append("overflow arm returns %s (the caller must learn about the overflow)" % ps.ret)
    for ps in okp:
        if ps.ret is None or ps.ret.truth() is not True:
            probs.append("a successful insertion returns %s" % ps.ret)
    if probs:
        ck.violated("C10-Q3", st, K.loc(add), probs[0], {"all": probs})
    else:
        ck.holds("C10-Q3", st, K.loc(add), "release, remove newest, release, (-350, NULL), add, FALSE")
    # caller notifies -350 iff overflow
    st = K.site(push, "overflow-notification", 0)
    sums2 = P.summarize(push, max_visits=2, limit=50000)
    bad = None
    seen = 0
    for ps in sums2:
        ov = [e[2] for e in ps.events if e[0] == "branch" and e[1].k == "CallExpr" and e[1].get("callee") == "SCPI_ErrorAddInternal"]
        em = [c for c in ps.calls if c.get("callee") == "SCPI_ErrorEmit"]
        codes = [C.const_of(K.arg(c, 1)) for c in em]
        if not ov:
            continue
        seen += 1
        overflow = ov[0] is False
        if overflow != (-350 in codes):
            bad = "queue overflow %s but -350 notification %s" % (overflow, -350 in codes)
        if not any((K.arg(c, 1).strip_all_casts().get("path") == push.params[1]["name"]) for c in em):
            bad = "the pushed code is not notified"
    if bad:
        ck.violated("C10-Q3", st, K.loc(push), bad)
    elif not seen:
        ck.anchor_lost("C10-Q3", "SCPI_ErrorPushEx does not branch on SCPI_ErrorAddInternal's result")
    else:
        ck.holds("C10-Q3", st, K.loc(push), "second notification (-350) exactly on overflow")
    # Q5
    st = K.site(add, "text-failure-not-fatal", 0)
    adds = [c for c in add.calls("fifo_add")]
    def is_dup(c):
        if c.get("callee") in DUP_CALLS:
            return True
        g_ = prog.fn(c.get("callee") or "")       # a file-local helper that does the duplication
        return g_ is not None and g_.static and any(x.get("callee") in DUP_CALLS for x in g_.calls())
    dups = [c for c in add.calls() if is_dup(c)]
    host, hostadds = add, adds
    if not dups:
        # the text may be duplicated by the caller, which then hands the finished entry over
        dups = [c for c in push.calls() if is_dup(c)]
        if dups:
            host, hostadds = push, list(push.calls("SCPI_ErrorAddInternal"))
            pga = S.pg(add)
            if adds and pga.exit in pga.reachable([pga.entry], blocked_edge=lambda e: e.kind == "elem" and e.node in adds):
                ck.violated("C10-Q5", K.site(add, "always-queues", 0), K.loc(add), "a path of SCPI_ErrorAddInternal returns without trying to queue the entry")
    if cfg != "B":
        if not dups or not hostadds:
            ck.anchor_lost("C10-Q5", "no text duplication in SCPI_ErrorAddInternal / SCPI_ErrorPushEx")
        else:
            add_, adds_ = add, adds
            add, adds = host, hostadds
            first = K.ordinal_sites(adds)[0]
            facts = K.facts_at(S, add, first) or []
            holders = {"info_ptr"}
            for d_ in dups:
                par = add.parent_of(d_)
                while par is not None and par.k in ("ImplicitCastExpr", "ParenExpr", "CStyleCastExpr"):
                    par = add.parent_of(par)
                if par is not None and par.get("op") == "=":
                    holders.add(par.child(0).strip().get("path"))
            dep = [a.src for a, pol in facts if not isinstance(pol, tuple) and
                   any(x.get("path") in holders or (x.k == "CallExpr" and x.get("callee") in DUP_CALLS) for x in a.walk())]
            pg = S.pg(add)
            reach = pg.reachable([pg.entry], blocked_edge=lambda e: e.kind == "elem" and e.node is first)
            add, adds = add_, adds_
            if dep:
                ck.violated("C10-Q5", st, K.loc(host, first), "queuing the error depends on the text duplication: %s" % dep)
            elif pg.exit in reach:
                ck.violated("C10-Q5", st, K.loc(host, first), "a path returns without trying to queue the error")
            else:
                ck.holds("C10-Q5", st, K.loc(host, first), "the queue insertion is reached on every path, independent of the duplication result")
    # Q6
    st = K.site(pop, "preset", 0)
    pgp = S.pg(pop)
    rems = list(pop.calls("fifo_remove"))
    errp = pop.params[1]["name"]
    code0 = [n for n, t in C.stores(pop) if t.get("path") == errp + "->error_code" and C.const_of(n.child(1)) == 0]
    info0 = [n for n, t in C.stores(pop) if t.get("path") == errp + "->device_dependent_info" and C.is_null(n.child(1))]
    if not rems:
        ck.violated("C10-Q6", st, K.loc(pop), "SCPI_ErrorPop does not remove from the queue")
    else:
        need = [code0] + ([info0] if cfg != "B" else [])
        miss = False
        for group in need:
            reach = pgp.reachable([pgp.entry], blocked_edge=lambda e: e.kind == "elem" and e.node in group)
            if not group or pgp.before(rems[0]) in reach:
                miss = True
        if miss:
            ck.violated("C10-Q6", st, K.loc(pop, rems[0]), "popping an empty queue does not yield (0, no text): the output is not preset before fifo_remove")
        else:
            ck.holds("C10-Q6", st, K.loc(pop, rems[0]), "(0, NULL) stored before fifo_remove on every path")
    ck.analysed(add, push, pop)


def rule_q7(ck, prog, S, rule="C10-Q7"):
    from . import boundsrules as BR
    BR.check_function(ck, prog, rule, "OUR_strndup", min_sites=1)
    # the duplicate is terminated by the function itself: the source need not hold a NUL within the n bytes that may be read
    g_ = prog.fn("OUR_strndup")
    pg_ = S.pg(g_)
    nul_ = [n for n, t in C.stores(g_) if t.k == "ArraySubscriptExpr" and n.get("op") == "=" and C.const_of(n.child(1)) == 0]
    rets_ = [n for n in g_.nodes.values() if n.k == "ReturnStmt" and n.ch and not C.is_null(n.child(0))]
    stq = K.site(g_, "duplicate-terminated", 0)
    if not rets_:
        ck.anchor_lost(rule, "returning path of OUR_strndup")
    elif any(pg_.before(r_) in pg_.reachable([pg_.entry], blocked_edge=lambda e: e.kind == "elem" and e.node in nul_) for r_ in rets_):
        ck.violated(rule, stq, K.loc(g_, rets_[0]),
                    "OUR_strndup can return a copy it has not terminated itself (strncpy / memcpy do not add a NUL when the source "
                    "has none within the bytes copied): a text pushed with an explicit length shorter than its string comes back "
                    "with the following bytes attached")
    else:
        ck.holds(rule, stq, K.loc(g_, nul_[0]), "result[len] = 0 on every returning path")


def rule_q8(ck, prog, S):
    for host, effect in (("SCPI_CoreCls", "SCPI_ErrorClear"), ("SCPI_ErrorClear", "fifo_clear")):
        f = prog.fn(host)
        if f is None:
            ck.anchor_lost("C10-Q8", host)
            continue
        ck.analysed(f)
        st = K.site(f, "always(%s)" % effect, 0)
        sites_ = K.effect_sites(prog, S, f, lambda c_, e_=effect: c_.get("callee") == e_, any_linkage=True)
        nodes = [x[0] for x in sites_]
        pg = S.pg(f)
        reach = pg.reachable([pg.entry], blocked_edge=lambda e: e.kind == "elem" and e.node in nodes)
        if not nodes:
            ck.violated("C10-Q8", st, K.loc(f), "%s never calls %s" % (host, effect))
        elif pg.exit in reach:
            ck.violated("C10-Q8", st, K.loc(f, nodes[0]),
                        "%s can return without %s: the queue keeps entries (and their texts) over a clear when the condition in front "
                        "of the call is false - the status bits it looks at can be written by the application" % (host, effect))
        else:
            ck.holds("C10-Q8", st, K.loc(f, nodes[0]), "every path runs %s" % effect)


def run(ck, fb, tier):
    seen_dup = False
    for cfg in fb.configs:
        ck.config = cfg
        prog = fb[cfg]
        S = K.summaries(prog)
        if cfg == "A" or tier == "thorough":
            rule_q1_q2(ck, prog, S)
        rule_q3_q5_q6(ck, prog, S, cfg)
        rule_q4(ck, prog, S, cfg)
        rule_q8(ck, prog, S)
        K.narrowing_rule(ck, prog, "C10-N", lambda f_: f_.relfile.endswith(("error.c", "fifo.c")))
        if prog.fn("OUR_strndup") is not None:
            rule_q7(ck, prog, S)
            seen_dup = True
    if "E" in fb.configs and not seen_dup:
        ck.anchor_lost("C10-Q7", "OUR_strndup is not compiled in the -std=c89 configuration")
    ck.assume("queue capacity >= 1 (the property's precondition); on the fifo_add failure edge the queue is full, hence "
              "non-empty, so the unchecked fifo_remove_last yields an entry")
    ck.trust("free/strndup contracts of libc")


TECHNIQUE = ("static analysis: inductive invariant of the ring proved on symbolic guarded transformers (intervals linear "
             "in the capacity + congruence), refutation by small models of the extracted transformer only; decision table "
             "of the overflow arm; ownership typestate over enumerated CFG paths")
LEVEL_TEXT = ("Q1 is a proof-like obligation (inductive invariant for every capacity and history) on transformers extracted "
              "from the source; Q3/Q5/Q6 are decision tables over all paths; Q4 is a typestate analysis over all paths of "
              "every function that acquires, moves or releases a text. Texts coming back byte-identical is not decided.")
LEVEL_NOTE = ("Trusted: clang CFG, extractor, libc free/strndup contracts. Assumes capacity >= 1. Typestate treats a text "
              "copied into a caller's out-parameter as handed out (its only library caller is analysed).")
DESIGN_REF = "DESIGN.md section 5, C10"
