"""Helpers shared by the rule modules."""
import json
import os

from sa import cfg as C
from sa.summary import Summaries

VERIF = os.path.dirname(os.path.dirname(os.path.abspath(__file__)))


def load_spec(name):
    with open(os.path.join(VERIF, "spec", name)) as f:
        return json.load(f)


def site(fn, obj, ordinal=0):
    name = fn if isinstance(fn, str) else fn.name
    return "%s/%s#%d" % (name, obj, ordinal)


def loc(fn, node=None, line=None):
    if node is not None:
        return "%s:%d" % (fn.relfile, node.get("line", fn.line))
    return "%s:%d" % (fn.relfile, line or fn.line)


_SUM = {}


def summaries(prog):
    s = _SUM.get(id(prog))
    if s is None:
        s = _SUM[id(prog)] = Summaries(prog)
    return s


def need(ck, prog, rule, *names):
    """fetch functions; record an anchor loss for each missing one"""
    out = []
    ok = True
    for n in names:
        f = prog.fn(n)
        if f is None:
            ck.anchor_lost(rule, "function %s not found" % n)
            ok = False
        else:
            ck.analysed(f)
        out.append(f)
    return out if ok else None


def ordinal_sites(nodes):
    """stable ordinals: order of appearance in the source (line, col)"""
    return sorted(nodes, key=lambda n: (n.get("line", 0), n.get("col", 0), n.id))


def enum_name(prog, enum, value):
    e = prog.enums.get(enum)
    if not e:
        return str(value)
    for k, v in e["consts"].items():
        if v == value:
            return k
    return str(value)


def facts_at(S, fn, node):
    """branch facts (atom node, polarity) that must hold just before `node` is evaluated"""
    pg, st = S.branch_facts(fn)
    p = pg.before(node)
    if p is None or p not in st:
        return None
    return [(fn.nodes[nid], pol) for nid, pol in st[p]]


def path_to(fn, target_block_ids, start=None):
    """any block path from entry to one of the target blocks, for reports"""
    pass


def arg(call, i):
    a = C.call_args(call)
    return a[i] if i < len(a) else None


def describe(node):
    return "%s:%d `%s`" % (node.fn.relfile, node.get("line", 0), node.src)


class RuleProxy:
    """records another property's rule instances under this property's rule ids (shared necessary conditions)"""

    def __init__(self, ck, mapping, default=None):
        self.ck, self.mapping, self.default = ck, mapping, default

    def __getattr__(self, k):
        return getattr(self.ck, k)

    def _r(self, rule):
        return self.mapping.get(rule, self.default)

    def holds(self, rule, *a, **kw):
        r = self._r(rule)
        if r:
            self.ck.holds(r, *a, **kw)

    def violated(self, rule, *a, **kw):
        r = self._r(rule)
        if r:
            self.ck.violated(r, *a, **kw)

    def undecided(self, rule, *a, **kw):
        r = self._r(rule)
        if r:
            self.ck.undecided(r, *a, **kw)

    def advisory(self, rule, *a, **kw):
        r = self._r(rule)
        if r:
            self.ck.advisory(r, *a, **kw)

    def anchor_lost(self, rule, *a, **kw):
        r = self._r(rule)
        if r:
            self.ck.anchor_lost(r, *a, **kw)

    def floor(self, rule, n):
        r = self._r(rule)
        if r:
            self.ck.floor(r, n)
