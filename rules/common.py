"""Helpers shared by the rule modules."""
import json
import os

from sa import cfg as C
from sa.summary import Summaries

VERIF = os.path.dirname(os.path.dirname(os.path.abspath(__file__)))


def load_spec(name):
    with open(os.path.join(VERIF, "spec", name)) as f:
        return json.load(f)


def site(fn, obj, ordinal=0):
    name = fn if isinstance(fn, str) else fn.name
    return "%s/%s#%d" % (name, obj, ordinal)


def loc(fn, node=None, line=None):
    if node is not None:
        return "%s:%d" % (fn.relfile, node.get("line", fn.line))
    return "%s:%d" % (fn.relfile, line or fn.line)


_SUM = {}


def summaries(prog):
    s = _SUM.get(id(prog))
    if s is None:
        s = _SUM[id(prog)] = Summaries(prog)
    return s


def need(ck, prog, rule, *names):
    """fetch functions; record an anchor loss for each missing one"""
    out = []
    ok = True
    for n in names:
        f = prog.fn(n)
        if f is None:
            ck.anchor_lost(rule, "function %s not found" % n)
            ok = False
        else:
            ck.analysed(f)
        out.append(f)
    return out if ok else None


def ordinal_sites(nodes):
    """stable ordinals: order of appearance in the source (line, col)"""
    return sorted(nodes, key=lambda n: (n.get("line", 0), n.get("col", 0), n.id))


def enum_name(prog, enum, value):
    e = prog.enums.get(enum)
    if not e:
        return str(value)
    for k, v in e["consts"].items():
        if v == value:
            return k
    return str(value)


def flag_definitions(fn):
    """locals assigned exactly once (declaration initialiser or one assignment) from a comparison / logical expression:
    {name: (defining node, expression)} - a later test of the flag is a test of that expression as long as the
    expression's operands have not been stored to in between"""
    cache = getattr(fn, "_flagdefs", None)
    if cache is not None:
        return cache
    count, defs = {}, {}
    for n in fn.nodes.values():
        if n.k == "DeclStmt":
            for d in n.get("decls", []):
                if d["type"].get("tk") in ("int", "bool"):
                    count[d["name"]] = count.get(d["name"], 0) + (1 if "init" in d else 0)
                    if "init" in d:
                        defs[d["name"]] = (n, fn.nodes[d["init"]])
        else:
            t = C.store_target(n)
            if t is not None and t.k == "DeclRefExpr" and t["decl"]["kind"] == "local":
                count[t["decl"]["name"]] = count.get(t["decl"]["name"], 0) + 1
                if n.get("op") == "=":
                    defs[t["decl"]["name"]] = (n, n.child(1))
    out = {}
    for name, (dn, ex) in defs.items():
        if count.get(name) != 1:
            continue
        e = ex.strip_all_casts()
        while e.k == "ParenExpr":
            e = e.child(0).strip_all_casts()
        if e.k == "BinaryOperator" and e.get("op") in ("<", ">", "<=", ">=", "==", "!=", "&&", "||") or \
                (e.k == "UnaryOperator" and e.get("op") == "!"):
            out[name] = (dn, e)
    fn._flagdefs = out
    return out


def facts_at(S, fn, node, point=None):
    """branch facts (atom node, polarity) that must hold just before `node` is evaluated (or at the CFG point `point`); a
    fact about a flag local (`more = (r < len)` ... `if (more)`) is expanded into the facts of its defining expression when
    no operand of that expression can have been stored to between the definition and `node`"""
    pg, st = S.branch_facts(fn)
    p = pg.before(node) if point is None else point
    if p is None or p not in st:
        return None
    facts = [(fn.nodes[nid], pol) for nid, pol in st[p]]
    defs = flag_definitions(fn)
    if defs:
        extra = []
        for a, pol in facts:
            if isinstance(pol, tuple):
                continue
            s_ = a.strip_all_casts()
            if s_.k == "DeclRefExpr" and s_.get("path") in defs:
                dn, ex = defs[s_["path"]]
                ops = {x.get("path") for x in ex.walk() if x.k in ("DeclRefExpr", "MemberExpr") and x.get("path")}
                q = pg.after(dn)
                if q is None:
                    continue
                stop = lambda e, dn=dn: e.kind == "elem" and e.node is dn      # passing the definition again refreshes the flag
                between = pg.reachable([q], blocked_edge=stop)
                dirty = False
                for n2, t2 in C.stores(fn):
                    if t2.get("path") in ops and n2 is not dn and pg.before(n2) in between and \
                            p in pg.reachable([pg.after(n2)] if pg.after(n2) else [], blocked_edge=stop):
                        dirty = True
                        break
                if not dirty:
                    extra += list(C.cond_facts(ex, bool(pol)))
        facts += extra
    return facts


def call_truth_edges(fn, pg, call):
    """(points reached when the result of `call` was found true / non-NULL, points reached when it was found false / NULL):
    the branch may test the call itself, or a local that holds its result - by truth, `!= 0`, `== NULL`, ..."""
    holders = set()
    par = fn.parent_of(call)
    while par is not None and par.k in ("ImplicitCastExpr", "ParenExpr", "CStyleCastExpr"):
        par = fn.parent_of(par)
    if par is not None and par.k == "BinaryOperator" and par.get("op") == "=":
        t = par.child(0).strip()
        if t.k == "DeclRefExpr" and t["decl"]["kind"] == "local":
            holders.add(t["decl"]["name"])
    for d in fn.nodes.values():
        if d.k == "DeclStmt":
            for dd in d.get("decls", []):
                if "init" in dd and fn.nodes[dd["init"]].strip_all_casts() is call:
                    holders.add(dd["name"])
    # a holder must not be assigned from anything else
    for h in list(holders):
        others = [n for n, t in C.stores(fn) if t.get("path") == h and not (n.get("op") == "=" and n.child(1).strip_all_casts() is call)]
        if others:
            holders.discard(h)
    true_dst, false_dst = [], []
    for p_, es in pg.out.items():
        for e in es:
            if e.kind != "edge" or not e.label or e.label[0] not in ("true", "false") or e.label[1] is None:
                continue
            for atom, pol in C.cond_facts(e.label[1], e.label[0] == "true"):
                if isinstance(pol, tuple):
                    continue
                a = atom.strip_all_casts()
                t = None
                if atom is call or a is call:
                    t = pol
                elif a.k == "DeclRefExpr" and a.get("path") in holders:
                    t = pol
                elif a.k == "BinaryOperator" and a.get("op") in ("==", "!="):
                    for xs, cs in ((a.child(0), a.child(1)), (a.child(1), a.child(0))):
                        x_ = xs.strip_all_casts()
                        if (x_ is call or (x_.k == "DeclRefExpr" and x_.get("path") in holders)) and (C.const_of(cs) == 0 or C.is_null(cs)):
                            t = pol if a["op"] == "!=" else (not pol)
                if t is True:
                    true_dst.append(e.dst)
                elif t is False:
                    false_dst.append(e.dst)
    return true_dst, false_dst, holders


def committed_exits(S, fn, value=0):
    """Points from which the function is committed to returning the constant `value`, whatever the spelling: the point in
    front of `return <value>`, and - when the function returns a result variable - every first point at which that
    variable is known to hold `value` and cannot be stored to any more before the return (`goto done;`, `break;` out of a
    do-while(0), falling through to `return result;`).  Returns [(point, node for the location)]."""
    pg = S.pg(fn)
    out = []
    rets = [n for n in fn.nodes.values() if n.k == "ReturnStmt" and n.ch and n.id in fn.where]
    rvars = set()
    for r in rets:
        c = C.const_of(r.child(0))
        e = r.child(0).strip_all_casts()
        if c is not None and e.k not in ("DeclRefExpr",):
            if c == value:
                out.append((pg.before(r), r))
        elif e.k == "DeclRefExpr" and e["decl"]["kind"] == "local":
            rvars.add(e["decl"]["name"])
    for v in sorted(rvars):
        def transfer(state, e, v=v):
            if e.kind != "elem":
                return state
            n_ = e.node
            if n_.k == "DeclStmt":
                for d in n_.get("decls", []):
                    if d["name"] == v:
                        c_ = C.const_of(fn.nodes[d["init"]]) if "init" in d else None
                        return frozenset({c_}) if c_ is not None else frozenset()
                return state
            t = C.store_target(n_)
            if t is not None and t.get("path") == v:
                c_ = C.const_of(n_.child(1)) if n_.get("op") == "=" and len(n_.ch) > 1 else None
                return frozenset({c_}) if c_ is not None else frozenset()
            return state
        st = pg.must(transfer)
        stores = [n for n, t in C.stores(fn) if t.get("path") == v]
        dirty = set()                       # points from which a store to v is still reachable
        for n in stores:
            b = pg.before(n)
            if b is not None:
                dirty.add(b)
        # backward closure
        work = list(dirty)
        while work:
            q = work.pop()
            for e in pg.inn.get(q, []):
                if e.src not in dirty:
                    dirty.add(e.src)
                    work.append(e.src)
        retpts = {pg.before(r) for r in rets if r.child(0).strip_all_casts().get("path") == v}
        reach_ret = set(retpts)
        work = list(retpts)
        while work:
            q = work.pop()
            for e in pg.inn.get(q, []):
                if e.src not in reach_ret:
                    reach_ret.add(e.src)
                    work.append(e.src)
        region = {p_ for p_ in pg.points if p_ in st and value in st[p_] and p_ not in dirty and p_ in reach_ret}
        for p_ in sorted(region):
            ins = pg.inn.get(p_, [])
            if not ins or any(e.src not in region for e in ins):
                b = fn.blocks[p_[0]]
                node = b.elems[p_[1]] if p_[1] < len(b.elems) else (b.elems[-1] if b.elems else None)
                out.append((p_, node))
    return out


def breakpoints(prog, fn, lo, hi, _seen=None):
    """Every integer the function (and the functions / const tables it reaches) can compare an argument with, each with
    its two neighbours, plus the ends of [lo, hi]: between two consecutive breakpoints a function that only compares its
    argument with these constants behaves uniformly.  Used to evaluate a classification over its whole integer domain by
    its finitely many regions (quick tier); the thorough tier enumerates the domain itself where that is affordable."""
    _seen = _seen if _seen is not None else set()
    vals = set()
    if fn.name in _seen:
        return vals
    _seen.add(fn.name)

    def ints(v):
        if isinstance(v, bool):
            return
        if isinstance(v, int):
            vals.add(v)
        elif isinstance(v, dict):
            for x in v.values():
                ints(x)
        elif isinstance(v, list):
            for x in v:
                ints(x)
    for n in fn.nodes.values():
        if n.k in ("IntegerLiteral", "CharacterLiteral"):
            ints(n.get("val"))
        if "cv" in n:
            ints(n["cv"])
        if n.k == "CaseStmt":
            ints(n.get("case_lo"))
            ints(n.get("case_hi"))
        if n.k == "DeclRefExpr":
            d = n.get("decl", {})
            if d.get("kind") == "enumconst":
                ints(d.get("val"))
            elif d.get("kind") == "global":
                g = prog.global_var(d.get("name"))
                if g is not None:
                    ints(g.get("init"))
            elif d.get("kind") == "static_local":
                for tu in prog.tus:
                    for sl in tu.static_locals:
                        if sl.get("name") == d.get("name") and sl.get("function") == fn.name:
                            ints(sl.get("init"))
        if n.k == "CallExpr" and n.get("callee"):
            g = prog.fn(n["callee"])
            if g is not None:
                vals |= breakpoints(prog, g, lo, hi, _seen)
    for b in fn.blocks.values():
        if b.label and b.label.get("k") == "CaseStmt":
            ints(b.label.get("lo"))
            ints(b.label.get("hi"))
    out = {lo, hi}
    for v in vals:
        for w in (v - 1, v, v + 1, -v - 1, -v, -v + 1):
            if lo <= w <= hi:
                out.add(w)
    return out


def path_to(fn, target_block_ids, start=None):
    """any block path from entry to one of the target blocks, for reports"""
    pass


def arg(call, i):
    a = C.call_args(call)
    return a[i] if i < len(a) else None


def describe(node):
    return "%s:%d `%s`" % (node.fn.relfile, node.get("line", 0), node.src)


class RuleProxy:
    """records another property's rule instances under this property's rule ids (shared necessary conditions)"""

    def __init__(self, ck, mapping, default=None):
        self.ck, self.mapping, self.default = ck, mapping, default

    def __getattr__(self, k):
        return getattr(self.ck, k)

    def _r(self, rule):
        return self.mapping.get(rule, self.default)

    def holds(self, rule, *a, **kw):
        r = self._r(rule)
        if r:
            self.ck.holds(r, *a, **kw)

    def violated(self, rule, *a, **kw):
        r = self._r(rule)
        if r:
            self.ck.violated(r, *a, **kw)

    def undecided(self, rule, *a, **kw):
        r = self._r(rule)
        if r:
            self.ck.undecided(r, *a, **kw)

    def advisory(self, rule, *a, **kw):
        r = self._r(rule)
        if r:
            self.ck.advisory(r, *a, **kw)

    def anchor_lost(self, rule, *a, **kw):
        r = self._r(rule)
        if r:
            self.ck.anchor_lost(r, *a, **kw)

    def floor(self, rule, n):
        r = self._r(rule)
        if r:
            self.ck.floor(r, n)


def table_signature(fn, max_visits=2):
    """configuration-independent signature of a function's decision table: per path, the branch
    decisions (as source text), the error codes queued, the calls made and the returned value"""
    from sa import paths as P_
    def atom_sig(a):
        out = []
        stack = [a]
        while stack:
            n = stack.pop()
            if "cv" in n and n.k not in ("DeclRefExpr", "MemberExpr"):
                out.append(("c", n["cv"]))      # folded constant: spelling (TRUE, NULL, enum names) does not matter
                continue
            if n.k == "CallExpr":
                out.append(("call", n.get("callee") or "<indirect>"))
            elif n.k in ("DeclRefExpr", "MemberExpr") and n.get("path"):
                out.append(("p", n["path"]))
                if n.k == "MemberExpr":
                    continue
            elif n.k in ("BinaryOperator", "UnaryOperator"):
                out.append(("op", n.get("op")))
            stack.extend(n.ch)
        return tuple(sorted(out, key=repr))
    rows = set()
    for ps in P_.summarize(fn, max_visits=max_visits, limit=50000):
        facts = tuple((atom_sig(a), pol if not isinstance(pol, tuple) else (pol[0], pol[1] if len(pol) > 1 and isinstance(pol[1], int) else None))
                      for a, pol in ps.facts)
        calls = tuple(c.get("callee") or "<indirect>" for c in ps.calls)
        r = ps.ret
        ret = None if r is None else ((r.kind, r.v) if r.kind in ("const", "ge") else (r.kind, (r.node.get("callee") if r.node is not None else None), r.pol))
        rows.add((facts, calls, ret))
    return rows


def cross_config(ck, fb, rule, names):
    """thorough tier: the decision tables of configuration-independent functions must be identical in
    every build configuration that was analysed"""
    cfgs = list(fb.configs)
    if len(cfgs) < 2:
        return
    ref_cfg = cfgs[0]
    for name in names:
        sigs = {}
        for cfg in cfgs:
            f = fb[cfg].fn(name)
            if f is None:
                sigs[cfg] = None
                continue
            try:
                sigs[cfg] = table_signature(f)
            except Exception as e:   # too many paths etc.
                sigs[cfg] = "error: %s" % e
        ck.config = ref_cfg
        f0 = fb[ref_cfg].fn(name)
        st = site(name, "cross-configuration", 0)
        where = loc(f0) if f0 is not None else "libscpi/src:0"
        diff = [c for c in cfgs[1:] if sigs[c] != sigs[ref_cfg]]
        if sigs[ref_cfg] is None:
            ck.anchor_lost(rule, "function %s" % name)
        elif diff:
            c = diff[0]
            a, b = sigs[ref_cfg], sigs[c]
            ex = None
            if isinstance(a, set) and isinstance(b, set):
                only = sorted(a ^ b)[:1]
                ex = str(only[0])[:300] if only else None
            ck.violated(rule, st, where, "the decision table of %s differs between configurations %s and %s although the function "
                        "does not depend on the configuration (e.g. %s)" % (name, ref_cfg, c, ex))
        else:
            ck.holds(rule, st, where, "identical decision table (%d rows) in configurations %s"
                     % (len(sigs[ref_cfg]) if isinstance(sigs[ref_cfg], set) else 0, "".join(cfgs)))


NEG = {"<": ">=", "<=": ">", ">": "<=", ">=": "<", "==": "!=", "!=": "=="}
FLIP = {"<": ">", "<=": ">=", ">": "<", ">=": "<=", "==": "==", "!=": "!="}


def operand_key(n):
    """path of a variable operand, ('c', value) of a constant operand, else None"""
    s = n.strip_all_casts()
    c = C.const_of(s)
    if c is not None and s.k not in ("DeclRefExpr", "MemberExpr"):
        return ("c", c)
    if s.k == "DeclRefExpr" and s["decl"]["kind"] == "enumconst":
        return ("c", s["decl"]["val"])
    p = s.get("path")
    if p:
        return p
    if s.k == "CallExpr" and s.get("callee"):
        return "call:%s(%s)" % (s["callee"], ",".join(str(operand_key(a)) for a in C.call_args(s)))
    return None


def rel_facts(facts):
    """normalised relational facts (lhs, op, rhs) that hold, from (atom, polarity) branch facts:
    comparisons with the polarity applied (both orientations), and truth values as `x != 0` / `x == 0`"""
    out = set()
    for atom, pol in facts:
        if isinstance(pol, tuple):
            continue
        a = atom.strip_all_casts()
        if a.k == "BinaryOperator" and a.get("op") in NEG:
            l, r = operand_key(a.child(0)), operand_key(a.child(1))
            if l is None or r is None:
                continue
            op = a["op"] if pol else NEG[a["op"]]
            out.add((l, op, r))
            out.add((r, FLIP[op], l))
        else:
            k = operand_key(a)
            if k is not None:
                out.add((k, "!=" if pol else "==", ("c", 0)))
                out.add((("c", 0), "!=" if pol else "==", k))
    return out


def holds_rel(facts, lhs, op, rhs):
    """does one of the branch facts state (or trivially imply) lhs OP rhs ?  lhs/rhs: path or int"""
    l = ("c", lhs) if isinstance(lhs, int) else lhs
    r = ("c", rhs) if isinstance(rhs, int) else rhs
    rf = rel_facts(facts) if not isinstance(facts, set) else facts
    if (l, op, r) in rf:
        return True
    implied = {"<=": ["<", "=="], ">=": [">", "=="], "!=": ["<", ">"]}
    for o2 in implied.get(op, []):
        if (l, o2, r) in rf:
            return True
    # integer neighbours against constants: x > 0  <=>  x >= 1 ; x != 0 for unsigned handled by callers
    if isinstance(rhs, int):
        if op == ">" and (l, ">=", ("c", rhs + 1)) in rf:
            return True
        if op == ">=" and (l, ">", ("c", rhs - 1)) in rf:
            return True
        if op == "<" and (l, "<=", ("c", rhs - 1)) in rf:
            return True
        if op == "<=" and (l, "<", ("c", rhs + 1)) in rf:
            return True
    return False


def effect_sites(prog, S, f, pred, depth=0, any_linkage=False):
    """nodes of f that stand for an effect: direct calls satisfying pred, plus calls to static helpers (any library
    function with any_linkage) on every path of which such a call happens (so the helper call is the effect as far as
    f's CFG goes)"""
    out = []
    for c in f.calls():
        if pred(c):
            out.append((c, c, f))
            continue
        g = prog.fn(c.get("callee") or "")
        if g is None or not (g.static or any_linkage) or depth > 2 or g.name == f.name:
            continue
        inner = effect_sites(prog, S, g, pred, depth + 1, any_linkage)
        if not inner:
            continue
        pg = S.pg(g)
        nodes = [x[0] for x in inner]
        reach = pg.reachable([pg.entry], blocked_edge=lambda e: e.kind == "elem" and e.node in nodes)
        if pg.exit not in reach:
            out.append((c, inner[0][1], g))   # (representative node in f, the real call, its host)
    return out


def arg_through(prog, rep, real, host, i):
    """argument i of the real call expressed in the caller: itself when rep is real, else the caller's
    argument that feeds the helper parameter used there"""
    a = arg(real, i)
    if rep is real or a is None:
        return a
    p = a.strip_all_casts().get("path")
    names = [q["name"] for q in host.params]
    if p in names:
        return arg(rep, names.index(p))
    return None


def casefold_rule(ck, prog, rule, tier="quick"):
    """the library's own case-insensitive comparison (builds without strncasecmp) treats two bytes as equal
    exactly when they are equal after folding 'A'..'Z' onto 'a'..'z' - decided for every byte pair of the
    checked rows by evaluating the comparison loop's body over the enumerated byte domain"""
    from sa import charset as CS
    from sa import cfg as C
    f = prog.fn("OUR_strncasecmp")
    if f is None:
        return False
    ck.analysed(f)
    st = site(f, "byte-equality", 0)
    loops = C.loops(f)
    cands = []
    for b in f.blocks.values():
        c = b.cond
        if c is not None and c.k == "BinaryOperator" and c.get("op") in ("!=", "==") and \
                C.const_of(c.child(0)) is None and C.const_of(c.child(1)) is None:
            cands.append((b, c))
    if len(loops) != 1 or len(cands) != 1:
        ck.anchor_lost(rule, "OUR_strncasecmp: expected one loop and one byte comparison (found %d, %d)" % (len(loops), len(cands)))
        return True
    head, body = loops[0]
    start = head
    params = [p["name"] for p in f.params]
    cmpb, cmpn = cands[0]
    fold = CS.CFUN["tolower"]
    special = [0, 1, 64, 65, 66, 89, 90, 91, 96, 97, 98, 121, 122, 123, 127, 128, 192, 193, 218, 224, 255]
    bad = None
    npairs = 0
    try:
        for a in range(256):
            row = range(256) if tier == "thorough" else sorted(set(special + [a, fold(a), CS.CFUN["toupper"](a), a ^ 32]))
            for b_ in row:
                env = {"*" + params[0]: a if a < 128 else a - 256, "*" + params[1]: b_ if b_ < 128 else b_ - 256, params[2]: 5}
                v = CS.run_to_branch(f, start, env, cmpn, prog)
                equal = (not v) if cmpn["op"] == "!=" else bool(v)
                npairs += 1
                if equal != (fold(a) == fold(b_)):
                    bad = bad or (a, b_, equal)
    except CS.CannotEvaluate as ex:
        ck.undecided(rule, st, loc(f, cmpn), "comparison loop not evaluable: %s" % ex)
        return True
    if bad:
        ck.violated(rule, st, loc(f, cmpn),
                    "OUR_strncasecmp treats bytes 0x%02x (%r) and 0x%02x (%r) as %s: mnemonics, units and special values "
                    "containing that letter match (or fail to match) depending on the case they are typed in"
                    % (bad[0], chr(bad[0]), bad[1], chr(bad[1]), "equal" if bad[2] else "different"))
    else:
        ck.holds(rule, st, loc(f, cmpn), "%d byte pairs: equal exactly when equal after A-Z -> a-z" % npairs)
    return True


NARROWING_WHITELIST = {
    ("scpi_ecvt", "store", "w2"): "w2 = bufsize: the only caller passes SCPI_DTOSTRE_BUFFER_SIZE - 1 = 31",
}


_NARROW_SELFTEST = []


def _narrowing_positive_example():
    from sa import facts as F_
    try:
        tu = F_.extract_fixture(os.path.join(os.path.dirname(os.path.dirname(os.path.abspath(__file__))), "selftest", "fixtures", "narrowing.c"))
    except Exception:
        return -1

    class P_:
        functions = tu.functions

        @staticmethod
        def fn(name):
            return tu.functions.get(name)

    class CK_:
        n = 0

        def violated(self, *a, **k):
            self.n += 1

        def holds(self, *a, **k):
            pass

        def analysed(self, *a):
            pass

        def anchor_lost(self, *a):
            pass
    c = CK_()
    _NARROW_SELFTEST.append(3)          # re-entrancy guard while the example itself is analysed
    try:
        narrowing_rule(c, P_, "selftest", lambda f_: True)
    finally:
        _NARROW_SELFTEST.pop()
    return c.n


def narrowing_rule(ck, prog, rule, in_scope, floor_scope=1):
    """No integer travels through this property's functions into a narrower type by an IMPLICIT conversion:
    (a) a parameter handed on unchanged to a callee's narrower parameter, (b) a parameter stored into a narrower struct field or
    local, (c) a field returned through a wider return type than the field itself (the API promises bits the storage does not
    have).  Expected count on a healthy tree: zero (one reviewed exception); every instance comes with the value that is lost."""
    nscope = 0
    bad = 0
    for f in sorted(prog.functions.values(), key=lambda f_: (f_.relfile, f_.line)):
        if not in_scope(f):
            continue
        nscope += 1
        ck.analysed(f)
        ptypes = {p["name"]: p["type"] for p in f.params}

        def through(x):
            implicit = True
            while x.k in ("ImplicitCastExpr", "ParenExpr", "CStyleCastExpr") and x.ch:
                if x.k == "CStyleCastExpr":
                    implicit = False
                x = x.child(0)
            return x, implicit
        k = 0
        for c in f.calls():
            g = prog.fn(c.get("callee") or "")
            if g is None:
                continue
            for i, a in enumerate(C.call_args(c)):
                if i >= len(g.params):
                    break
                x, implicit = through(a)
                if x.k == "DeclRefExpr" and x["decl"]["kind"] == "param" and x["decl"]["name"] in ptypes and implicit:
                    st_, gt = ptypes[x["decl"]["name"]], g.params[i]["type"]
                    if st_.get("tk") == "int" and gt.get("tk") == "int" and (gt.get("bits") or 0) < (st_.get("bits") or 0):
                        if (f.name, "arg", x["decl"]["name"]) in NARROWING_WHITELIST:
                            continue
                        ck.violated(rule, site(f, "narrowing-argument(%s)" % x["decl"]["name"], k), loc(f, c),
                                    "`%s` (%d bits) is handed to %s's parameter `%s` of %d bits by an implicit conversion: the value "
                                    "2^%d arrives as 0" % (x["decl"]["name"], st_["bits"], g.name, g.params[i]["name"], gt["bits"], gt["bits"]))
                        k += 1
                        bad += 1
        for n, t in C.stores(f):
            if n.get("op") != "=":
                continue
            x, implicit = through(n.child(1))
            if x.k == "DeclRefExpr" and x["decl"]["kind"] == "param" and x["decl"]["name"] in ptypes and implicit:
                st_ = ptypes[x["decl"]["name"]]
                if st_.get("tk") == "int" and t.get("tk") == "int" and (t.get("bits") or 0) < (st_.get("bits") or 0):
                    if (f.name, "store", t.get("path")) in NARROWING_WHITELIST:
                        continue
                    ck.violated(rule, site(f, "narrowing-store(%s)" % (t.get("path") or "?"), 0), loc(f, n),
                                "`%s` stores the %d-bit parameter `%s` into %d bits: the value 2^%d is kept as 0"
                                % (n.src[:60], st_["bits"], x["decl"]["name"], t["bits"], t["bits"]))
                    bad += 1
        if f.ret.get("tk") == "int":
            for r in f.nodes.values():
                if r.k == "ReturnStmt" and r.ch:
                    x, implicit = through(r.child(0))
                    if x.k == "MemberExpr" and x.get("tk") == "int" and x.get("bits") and f.ret.get("bits") and x["bits"] < f.ret["bits"] \
                            and not x.get("bitfield"):
                        ck.violated(rule, site(f, "narrow-field-behind-wide-accessor", 0), loc(f, r),
                                    "%s returns %d bits but reads them from the %d-bit field `%s`: values that need more than %d bits "
                                    "cannot come back" % (f.name, f.ret["bits"], x["bits"], x.src, x["bits"]))
                        bad += 1
    if not _NARROW_SELFTEST:
        _NARROW_SELFTEST.append(_narrowing_positive_example())
    if _NARROW_SELFTEST[0] != 3:
        ck.anchor_lost(rule, "the positive example selftest/fixtures/narrowing.c yields %s reports instead of 3: the rule has gone blind" % _NARROW_SELFTEST[0])
    if nscope < floor_scope:
        ck.anchor_lost(rule, "only %d functions in the scope of the narrowing rule" % nscope)
    elif bad == 0:
        ck.holds(rule, "narrowing/scope#0", "libscpi/src", "%d functions: no parameter is narrowed implicitly on its way to a callee, a field or a caller" % nscope)


def field_aliases(f, suffix):
    """Locals of f that stand for the context field whose access path ends in `suffix` (`size_t remaining =
    context->arbitrary_remaining; ...; context->arbitrary_remaining = remaining;`): initialised or assigned from the field,
    the field itself only ever stored from that local, and on every path a modification of the local is followed by the
    write-back.  A test of such a local after the write-back is a test of the field."""
    from sa import paths as P_
    from sa import cfg as C_
    cand = set()
    for dn in f.nodes.values():
        if dn.k == "DeclStmt":
            for dd in dn.get("decls", []):
                if "init" in dd and (f.nodes[dd["init"]].strip_all_casts().get("path") or "").endswith(suffix):
                    cand.add(dd["name"])
    for n, t in C_.stores(f):
        if n.get("op") == "=" and t.k == "DeclRefExpr" and (n.child(1).strip_all_casts().get("path") or "").endswith(suffix):
            cand.add(t.get("path"))
    out = set()
    for name in cand:
        fstores = [n for n, t in C_.stores(f) if (t.get("path") or "").endswith(suffix)]
        if not fstores or any(n.get("op") != "=" or n.child(1).strip_all_casts().get("path") != name for n in fstores):
            continue
        ok = True
        try:
            sums = P_.summarize(f)
        except Exception:
            continue
        for ps in sums:
            last_mod = last_wb = None
            for i, e in enumerate(ps.events):
                if e[0] != "store":
                    continue
                t = C_.store_target(e[1])
                if t.get("path") == name and not (e[1].get("op") == "=" and
                                                  (e[1].child(1).strip_all_casts().get("path") or "").endswith(suffix)):
                    last_mod = i
                elif (t.get("path") or "").endswith(suffix):
                    last_wb = i
            if last_mod is not None and (last_wb is None or last_wb < last_mod):
                ok = False
        if ok:
            out.add(name)
    return out
