"""C07 — every value the library formats as a result decodes back to the same value (format agreement)."""
import re

from sa import cfg as C
from sa import charset as CS
from sa import paths as P
from . import common as K

CONFIGS_QUICK = ["A", "D"]
CONFIGS_THOROUGH = ["A", "B", "C", "D", "E"]

EXPLANATION = (
    "Static, clause-level decision of C07: READER/WRITER FORMAT AGREEMENT ONLY (the round-trip "
    "equality itself needs execution and is not decided). Decided: (R1) the radix prefixes the "
    "writer emits (2:#B, 8:#Q, 16:#H, other: none) and the reader's letter -> token class -> radix "
    "chain are inverse maps (composed from the writer's decision table, the lexer's exact letter "
    "sets and the decoders' class->radix tables); (R2) signedness/width wiring of the scalar "
    "writers: Int32/Int64 pass (10, signed), UInt*Base pass (base, unsigned), Bool writes 0/1 "
    "unsigned decimal, the prefix is chosen from the same base that is formatted; (R3) quote "
    "agreement: SCPI_ResultText wraps in '\"' and doubles exactly '\"'; SCPI_ParamCopyText "
    "un-doubles exactly the delimiter of the token class it was given, and the lexer accepts a "
    "doubled delimiter inside a string; (R4) the block header writer can never produce '#0' (at "
    "least one length digit is always formatted) while the reader requires a non-zero digit "
    "count; (R5) every local buffer a scalar writer formats into is large enough for the longest "
    "text its format can produce (else the text is silently cut and decodes to another value).")

RULES = {
    "C07-R1": "writer radix prefixes and reader letter->class->radix are inverse maps",
    "C07-R2": "scalar writers: (10, signed) for Int32/Int64, (base, unsigned) for UInt*Base, Bool -> 0/1; prefix from the formatted base",
    "C07-R3": "text: writer wraps in and doubles '\"'; reader un-doubles exactly the delimiter of its token class",
    "C07-R4": "block header always has >= 1 length digit (never '#0'); the reader demands a non-zero digit count",
    "C07-R6": "floating results are emitted with 15 (double) / 6 (float) significant digits in %g style (shared with C16-G1); the own formatter reports its decimal exponent through its out-parameter (C16-G4)",
    "C07-R7": "reader side: each width/sign decodes with the matching libc converter whose result is stored unmodified (shared with C04-N4)",
    "C07-R5": "result buffers hold the longest text their format can produce (no silent truncation)",
}


def rule_r1(ck, prog, S):
    f = prog.fn("getBasePrefix")
    if f is None:
        ck.anchor_lost("C07-R1", "getBasePrefix")
        return
    # the prefix for each radix, by evaluating the function on the radix (switch, if-chain or table: all the same)
    from sa import interp as I
    writer = {}
    for b in (2, 8, 10, 16, 7):
        try:
            writer[b] = I.as_text(I.call(prog, f.name, [b])[0])
        except I.Stuck as e:
            ck.undecided("C07-R1", K.site(f, "prefix-inverse", 0), K.loc(f), "getBasePrefix(%d) cannot be evaluated: %s" % (b, e))
            return
    # reader: letter sets -> class (byte-wise reachability in the lexer) -> radix
    from .lexmodel import LexModel
    from . import c13
    lex = prog.fn("scpiLex_NondecimalNumericData")
    dec = prog.fn("ParamSignToUInt32")
    if lex is None or dec is None:
        ck.anchor_lost("C07-R1", "lexer / decoder")
        return
    lc = c13.nondecimal_letter_classes(prog, S, LexModel(prog, S)) or {}
    letters = {}
    cls_of = {}
    for cls, ent_ in lc.items():
        bs, rec = ent_[0], ent_[1]
        key = K.enum_name(prog, "_scpi_token_type_t", cls)
        letters[key] = bs or set()
        cls_of[key] = cls
    if len(letters) < 3:
        ck.anchor_lost("C07-R1", "letter -> class map of the nondecimal recogniser (%d classes)" % len(letters))
        return
    radix_of = {}
    for ps in P.summarize(dec):
        cls = None
        for a, pol in ps.facts:
            if isinstance(pol, tuple) and pol[0] == "case":
                cls = pol[1]
        conv = [c for c in ps.calls if (c.get("callee") or "").startswith("strBaseTo")]
        if cls is not None and conv:
            radix_of[cls] = C.const_of(K.arg(conv[0], 2))
    st = K.site(f, "prefix-inverse", 0)
    probs = []
    for b in (2, 8, 16):
        pre = writer.get(b)
        if not pre or len(pre) != 2 or pre[0] != "#":
            probs.append("base %d is written with prefix %r" % (b, pre))
            continue
        L = ord(pre[1])
        hit = [p for p, s_ in letters.items() if L in s_]
        if len(hit) != 1:
            probs.append("prefix letter %r is accepted by %s" % (pre[1], hit))
            continue
        rb = radix_of.get(cls_of.get(hit[0]))
        if rb != b:
            probs.append("a base-%d result is written as %s... and read back with radix %s" % (b, pre, rb))
    for b in (10, 7):
        if writer.get(b) is not None:
            probs.append("base %d is written with a prefix %r" % (b, writer.get(b)))
    if probs:
        ck.violated("C07-R1", st, K.loc(f), "; ".join(probs))
    else:
        ck.holds("C07-R1", st, K.loc(f), "2:#B 8:#Q 16:#H, decimal bare; reader letters %s decode with the same radix"
                 % {k: sorted(chr(c) for c in v) for k, v in letters.items()})
    ck.analysed(f, lex, dec)


def rule_r2(ck, prog):
    """Scalar writers, decided on the calls each of them ends in (sa/interp.py: the writer is evaluated with its value
    argument as a named unknown and, where it takes one, each radix; helpers are entered, the converter and the output
    primitives are logged with their evaluated arguments).  Independent of how many helpers sit in between, what they are
    called and how they are parameterised."""
    from sa import interp as I
    conv_bits = {"UInt32ToStrBaseSign": 32, "UInt64ToStrBaseSign": 64}
    leaves = {k: "fresh" for k in ("writeData", "writeDelimiter", "UInt32ToStrBaseSign", "UInt64ToStrBaseSign")}
    prefixes = {2: "#B", 8: "#Q", 16: "#H", 10: None}
    want = (("SCPI_ResultInt32", 32, None, 1), ("SCPI_ResultUInt32Base", 32, "param", 0),
            ("SCPI_ResultInt64", 64, None, 1), ("SCPI_ResultUInt64Base", 64, "param", 0), ("SCPI_ResultBool", 8, None, 0))
    for name, bits, basemode, sign in want:
        f = prog.fn(name)
        if f is None:
            ck.anchor_lost("C07-R2", name)
            continue
        ck.analysed(f)
        st = K.site(f, "wiring", 0) if name != "SCPI_ResultBool" else K.site(f, "bool", 0)
        probs = []
        npaths = 0
        for base in ((2, 8, 10, 16) if basemode == "param" else (10,)):
            ctx = I.zero_object(prog, {"tk": "record", "ct": "struct _scpi_t"})
            args = [I.Ptr([ctx], 0), I.Sym("val", bits)] + ([base] if basemode == "param" else [])
            try:
                outs, _m = I.explore(prog, name, args, follow=lambda n_: prog.fn(n_) is not None, effects=leaves)
            except I.Stuck as e:
                ck.undecided("C07-R2", st, K.loc(f), "%s cannot be evaluated: %s" % (name, e))
                probs = None
                break
            for _ret, fr in outs:
                npaths += 1
                log = fr.plog
                conv = [(n_, a) for n_, a in log if n_ in conv_bits]
                if len(conv) != 1:
                    probs.append("base %d: %d converter calls on a path" % (base, len(conv)))
                    continue
                cn, ca = conv[0]
                v = ca[0]
                if name == "SCPI_ResultBool":
                    if v not in (0, 1):
                        probs.append("booleans are not written as 1/0 (the converter receives %r)" % (v,))
                else:
                    if conv_bits[cn] != bits:
                        probs.append("the %d-bit value is formatted by the %d-bit converter %s" % (bits, conv_bits[cn], cn))
                    if not (isinstance(v, I.Sym) and v.name == "val"):
                        probs.append("base %d: the converter does not receive the value argument itself (%r)" % (base, v))
                    elif not v.intact():
                        probs.append("the value is narrowed on its way to the converter (widths %s)" % [b_ for b_, _s in v.trail])
                if len(ca) < 5 or ca[3] != base or (ca[4] != sign if isinstance(ca[4], int) else True):
                    probs.append("base %d: the converter is called with (base %r, sign %r), expected (%d, %d)"
                                 % (base, ca[3] if len(ca) > 3 else None, ca[4] if len(ca) > 4 else None, base, sign))
                wr = [(n_, a) for n_, a in log if n_ == "writeData"]
                dl = [i_ for i_, (n_, a) in enumerate(log) if n_ == "writeDelimiter"]
                w0 = [i_ for i_, (n_, a) in enumerate(log) if n_ == "writeData"]
                if not dl or (w0 and dl[0] > w0[0]):
                    probs.append("base %d: no delimiter call in front of the output" % base)
                pre = prefixes[base]
                texts = []
                for n_, a in wr:
                    t_ = None
                    if len(a) >= 3 and isinstance(a[1], I.Ptr) and isinstance(a[2], int):
                        try:
                            t_ = I.cstring(a[1])[:a[2]].decode("latin-1")
                        except I.Stuck:
                            t_ = None
                    texts.append(t_)
                digits = [(n_, a) for (n_, a), t_ in zip(wr, texts) if t_ is None]
                lits = [t_ for t_ in texts if t_ is not None]
                if lits != ([pre] if pre else []):
                    probs.append("base %d is written with prefix %s, expected %s" % (base, lits or None, pre))
                if len(digits) != 1 or len(digits[0][1]) < 3 or not (isinstance(digits[0][1][1], I.Ptr) and digits[0][1][1] == ca[1]) or \
                        not (isinstance(digits[0][1][2], I.Sym) and digits[0][1][2].name.startswith("ret:" + cn)):
                    probs.append("base %d: the digits written are not (converter buffer, converter result)" % base)
                elif pre and texts and texts[0] is None:
                    probs.append("base %d: the prefix is written after the digits" % base)
                cobj = fr.vars[f.params[0]["name"]][0]
                cobj = cobj.load() if isinstance(cobj, I.Ptr) else None
                if not isinstance(cobj, dict) or cobj.get("output_count") != 1:
                    probs.append("base %d: the result counter is not incremented exactly once" % base)
        if probs is None:
            continue
        if probs:
            ck.violated("C07-R2", st, K.loc(f), "; ".join(sorted(set(probs))[:4]))
        else:
            ck.holds("C07-R2", st, K.loc(f), "%d paths: value -> %d-bit converter with (base, %s), prefix of the same base, digits = converter "
                     "buffer/result, one result counted" % (npaths, bits, "signed" if sign else "unsigned"))


def rule_r3(ck, prog, S):
    f = prog.fn("SCPI_ResultText")
    if f is None:
        ck.anchor_lost("C07-R3", "SCPI_ResultText")
    else:
        pg = S.pg(f)
        wr = K.ordinal_sites(list(f.calls("writeData")))
        lit = lambda c: K.arg(c, 1).strip_all_casts().get("str")
        q = [c for c in wr if lit(c) == '"']
        find = list(f.calls("strnpbrk"))
        st = K.site(f, "wrap-and-double", 0)
        probs = []
        if len(q) != 3 or not find:
            probs.append("expected opening, doubling and closing quote writes and a quote search")
        else:
            if str_arg(find[0], 2) != '"':
                probs.append("the writer searches for %r, not for the double quote" % str_arg(find[0], 2))
            opening, dbl, closing = q
            content = [c for c in wr if lit(c) is None]
            r0 = pg.reachable([pg.entry], blocked_edge=lambda e: e.kind == "elem" and e.node is opening)
            if any(pg.before(c) in r0 for c in content):
                probs.append("text is written before the opening quote")
            r1 = pg.reachable([pg.after(opening)], blocked_edge=lambda e: e.kind == "elem" and e.node is closing)
            if pg.exit in r1:
                probs.append("a path ends without the closing quote")
            # chunk up to and including the found quote, then one more quote, on every cycle
            chunk = [c for c in content if any(x.get("path") == "quote" for x in K.arg(c, 2).walk())]
            if not chunk:
                probs.append("no chunk write up to the found quote")
            else:
                ln = K.arg(chunk[0], 2).strip_all_casts().src.replace(" ", "")
                if ln != "quote-data+1":
                    probs.append("the chunk before a doubled quote has length `%s`, not quote - data + 1" % ln)
                r2 = pg.reachable([pg.after(chunk[0])], blocked_edge=lambda e: e.kind == "elem" and e.node is dbl)
                if pg.before(find[0]) in r2 or pg.before(closing) in r2:
                    probs.append("an inner quote can be written without its double")
        if probs:
            ck.violated("C07-R3", st, K.loc(f), "; ".join(probs))
        else:
            ck.holds("C07-R3", st, K.loc(f), "\"...\" with every inner '\"' doubled")
        ck.analysed(f)
    g = prog.fn("SCPI_ParamCopyText")
    if g is None:
        ck.anchor_lost("C07-R3", "SCPI_ParamCopyText")
        return
    st = K.site(g, "undouble-own-delimiter", 0)
    sq, dq = prog.enumconst.get("SCPI_TOKEN_SINGLE_QUOTE_PROGRAM_DATA"), prog.enumconst.get("SCPI_TOKEN_DOUBLE_QUOTE_PROGRAM_DATA")
    asg = [n for n, t in C.stores(g) if t.get("path") == "quote" and n.get("op") == "="]
    probs = []
    want = {sq: ord("'"), dq: ord('"')}

    def pinned_type(ps):
        """the token classes a path is restricted to by its facts on param.type (None: unrestricted)"""
        vals = None
        for a, pol in ps.facts:
            if isinstance(pol, tuple) and pol[0] == "case" and (a.get("path") or "") == "param.type":
                vs = set(range(pol[1], pol[2] + 1)) if pol[2] - pol[1] < 64 else {pol[1], pol[2], None}
                vals = vs if vals is None else (vals & vs)
            elif not isinstance(pol, tuple) and pol and a.k == "BinaryOperator" and a.get("op") == "==" and \
                    (a.child(0).strip_all_casts().get("path") or "").endswith(".type") and C.const_of(a.child(1)) is not None:
                vs = {C.const_of(a.child(1))}
                vals = vs if vals is None else (vals & vs)
        return vals
    if not asg:
        probs.append("the delimiter is not selected from the token class")
    else:
        sums_g = P.summarize(g, max_visits=2)
        seen_store = False
        for one in asg:
            e = one.child(1).strip_all_casts()
            cond_form = False
            if e.k == "ConditionalOperator":
                okq = False
                c = e.child(0).strip_all_casts()
                if c.k == "BinaryOperator" and c.get("op") == "==" and (c.child(0).strip_all_casts().get("path") or "").endswith(".type"):
                    k = C.const_of(c.child(1))
                    t_, e_ = C.const_of(e.child(1)), C.const_of(e.child(2))
                    if (k == sq and t_ == ord("'") and e_ == ord('"')) or (k == dq and t_ == ord('"') and e_ == ord("'")):
                        okq = True
                if not okq:
                    probs.append("delimiter selection `%s` does not map SINGLE_QUOTE to ' and DOUBLE_QUOTE to \"" % e.src)
                cond_form = True
            elif C.const_of(e) is None:
                probs.append("delimiter selection `%s` is not decided by the token class" % e.src)
                continue
            # the store is only reached for the string class(es) it is right for
            for ps in sums_g:
                if any(ev[0] == "store" and ev[1] is one for ev in ps.events):
                    seen_store = True
                    vals = pinned_type(ps)
                    if cond_form:
                        if not vals or not vals <= {sq, dq}:
                            probs.append("the copy loop is not restricted to the two string token classes")
                    elif not vals or len(vals) != 1 or want.get(next(iter(vals))) != C.const_of(e):
                        probs.append("delimiter %s is selected on a path that is not restricted to the token class it delimits" % e.src)
        if not seen_store:
            probs.append("the copy loop is not restricted to the two string token classes")
        # every path that copies a character has selected the delimiter before
        for ps in sums_g:
            idx_q = next((i for i, ev in enumerate(ps.events) if ev[0] == "store" and any(ev[1] is one for one in asg)), None)
            idx_c = next((i for i, ev in enumerate(ps.events) if ev[0] == "store" and C.store_target(ev[1]).k == "ArraySubscriptExpr"
                          and C.store_target(ev[1]).child(0).strip_all_casts().get("path") == g.params[1]["name"]
                          and C.const_of(ev[1].child(1)) is None), None)
            if idx_c is not None and g.calls() and (idx_q is None or idx_q > idx_c) and \
                    any("quote" in (x.get("path") or "") for b_ in g.blocks.values() if b_.cond is not None for x in b_.cond.walk()):
                probs.append("a path copies text before the delimiter is selected")
        probs = sorted(set(probs))
    S2 = K.summaries(prog)
    guarded = False
    hosts = [g] + [prog.fn(c.get("callee")) for c in g.calls() if prog.fn(c.get("callee") or "") is not None and prog.fn(c.get("callee")).static]
    for h in hosts:
        # a step of the source index guarded by `source[index] == delimiter` (delimiter: the local `quote` or the
        # helper parameter that receives it)
        qnames = {"quote"} | {p_["name"] for p_ in h.params if p_["type"].get("ct") == "char"}
        for n, t in C.stores(h):
            is_step = (n.k == "UnaryOperator" and n.get("op") == "++") or (n.get("op") == "+=" and C.const_of(n.child(1)) == 1)
            if n.get("op") == "+=" and t.get("path") and n.child(1).strip_all_casts().k == "ConditionalOperator":
                # one step of `cond ? 2 : 1`: the guard is the condition of the conditional itself
                ce = n.child(1).strip_all_casts()
                a = ce.child(0).strip_all_casts()
                if a.k == "BinaryOperator" and a.get("op") == "==" and C.const_of(ce.child(1)) == 2 and C.const_of(ce.child(2)) == 1:
                    sides = [a.child(0).strip_all_casts(), a.child(1).strip_all_casts()]
                    if any(x.get("path") in qnames for x in sides) and any(("[%s]" % t["path"]) in (x.get("path") or "") for x in sides):
                        guarded = True
                continue
            if not is_step or not t.get("path"):
                continue
            iv = t["path"]
            for a, pol in (K.facts_at(S2, h, n) or []):
                if not isinstance(pol, tuple) and pol and a.k == "BinaryOperator" and a.get("op") == "==":
                    sides = [a.child(0).strip_all_casts(), a.child(1).strip_all_casts()]
                    if any(x.get("path") in qnames for x in sides) and any(("[%s]" % iv) in (x.get("path") or "") for x in sides):
                        guarded = True
    if not guarded:
        probs.append("no step over the second character of a doubled delimiter (`param.ptr[i_from] == quote` => i_from++)")
    if probs:
        ck.violated("C07-R3", st, K.loc(g), "; ".join(probs))
    else:
        ck.holds("C07-R3", st, K.loc(g), "delimiter by token class; a doubled delimiter is copied once")
    # the copy may stop early only because the DESTINATION is full: the source index runs ahead of the destination index by one
    # for every doubled delimiter, so a test of the source index against the buffer length cuts text that still fits
    st2 = K.site(g, "copy-limited-by-destination", 0)
    cap = g.params[2]["name"]
    bufname = g.params[1]["name"]
    dst = src = None
    host = g
    for h in hosts:
        # in a helper the buffer and its capacity are the parameters that receive them
        bn, cn = bufname, cap
        if h is not g:
            for c_ in g.calls(h.name):
                ap = [a_.strip_all_casts().get("path") for a_ in C.call_args(c_)]
                if bufname in ap and cap in ap and len(h.params) >= len(ap):
                    bn, cn = h.params[ap.index(bufname)]["name"], h.params[ap.index(cap)]["name"]
        for n, t in C.stores(h):
            if t.k == "ArraySubscriptExpr" and t.child(0).strip_all_casts().get("path") == bn and n.get("op") == "=":
                r = n.child(1).strip_all_casts()
                if r.k == "ArraySubscriptExpr":
                    dst = t.child(1).strip_all_casts().get("path")
                    src = r.child(1).strip_all_casts().get("path")
                    host, cap = h, cn
    g_copy = host
    if not dst or not src or dst == src:
        ck.undecided("C07-R3", st2, K.loc(g), "copy statement `buffer[i_to] = token[i_from]` not found")
    else:
        bad = good = None
        loops_ = C.loops(g_copy)
        for b in g_copy.blocks.values():
            c = b.cond
            if c is None or c.k != "BinaryOperator" or c.get("op") not in ("<", "<=", ">", ">=", "==", "!="):
                continue
            if not any(b.id in bd for h, bd in loops_):
                continue
            names = {x.get("path") for x in c.walk() if x.k == "DeclRefExpr"}
            if cap in names:
                if src in names and dst not in names:
                    bad = c
                elif dst in names:
                    good = c
        if bad is not None:
            ck.violated("C07-R3", st2, K.loc(g, bad),
                        "the copy stops on `%s`, a test of the SOURCE index: every doubled delimiter advances it twice, so a text that "
                        "fits is cut (`\"a\"\"b\"\"c\"\"d\"` into 8 bytes yields `a\"b\"c`, 5 of 7 characters)" % bad.src)
        elif good is not None:
            ck.holds("C07-R3", st2, K.loc(g, good), "the copy stops on `%s` (destination index)" % good.src)
        else:
            ck.undecided("C07-R3", st2, K.loc(g), "no test against the buffer length inside the copy loop")
    ck.analysed(g)


def str_arg(call, i):
    a = K.arg(call, i)
    s = a.strip_all_casts() if a is not None else None
    return s.get("str") if s is not None and s.k == "StringLiteral" else None


def rule_r4(ck, prog):
    for name in ("UInt32ToStrBaseSign",):
        f = prog.fn(name)
        if f is None:
            ck.anchor_lost("C07-R4", name)
            return
        st = K.site(f, "at-least-one-digit", 0)
        buf, cap = f.params[1]["name"], f.params[2]["name"]
        bad = None
        n = 0
        for ps in P.summarize(f, max_visits=2):
            n += 1
            stores = [e[1] for e in ps.events if e[0] == "store" and C.store_target(e[1]).k == "ArraySubscriptExpr"
                      and C.store_target(e[1]).child(0).strip_all_casts().get("path") == buf and C.const_of(e[1].child(1)) != 0]
            full = [pol for a, pol in ps.facts if not isinstance(pol, tuple) and a.k == "BinaryOperator" and a.get("op") == "<" and
                    a.child(1).strip_all_casts().get("path") == cap]
            if not stores and not (full and full[0] is False):
                bad = ps
        if bad is not None:
            ck.violated("C07-R4", st, K.loc(f, bad.ret_node), "a path formats no digit although the buffer has room: the block header "
                        "would read '#0', which the reader rejects", {"path": bad.describe()[:6]})
        else:
            ck.holds("C07-R4", st, K.loc(f), "%d paths: at least one character whenever len >= 1 (zero is written as '0')" % n)
    g = prog.fn("isNonzeroDigit")
    if g is not None:
        st = K.site(g, "reader-demands-nonzero", 0)
        got = CS.predicate_set(g, prog)
        if got == set(range(ord("1"), ord("9") + 1)):
            ck.holds("C07-R4", st, K.loc(g), "digit count 1..9")
        else:
            ck.violated("C07-R4", st, K.loc(g), "the reader accepts digit counts %s" % sorted(chr(c) for c in got))


def required_len(fmt=None, prec=None):
    """longest text of a %g-style format with `prec` significant digits: sign, digit, point, prec-1 digits,
    'e', exponent sign, 3 exponent digits; plus the terminating NUL"""
    if fmt is not None:
        m = re.search(r"%\.?(\d*)l?[gG]", fmt)
        if not m:
            return None
        prec = int(m.group(1)) if m.group(1) else 6
    if prec is None:
        return None
    return 1 + 1 + 1 + (prec - 1) + 1 + 1 + 3 + 1


def rule_r5(ck, prog):
    # integer writers
    for name, conv, bits in (("resultUInt32BaseSign", "UInt32ToStrBaseSign", 32), ("resultUInt64BaseSign", "UInt64ToStrBaseSign", 64)):
        f = prog.fn(name)
        if f is None:
            continue
        st = K.site(f, "buffer-capacity", 0)
        cv = list(f.calls(conv))
        size = None
        if cv:
            a = C.call_args(cv[0])
            size = C.const_of(a[2])
            bufname = a[1].strip_all_casts().get("path")
            decl = [d["type"].get("n") for n in f.nodes.values() if n.k == "DeclStmt" for d in n.get("decls", []) if d["name"] == bufname]
        need = bits     # base 2: one character per bit (the sign only occurs in base 10: 1 + 10/20 digits)
        if size is not None and decl and size == decl[0] and size >= need:
            ck.holds("C07-R5", st, K.loc(f, cv[0]), "%d bytes for at most %d characters (base 2)" % (size, need))
        else:
            ck.violated("C07-R5", st, K.loc(f), "buffer of %s bytes for a conversion that can produce %d characters: the text is cut" % (size, need))
    # floating point writers
    for name, conv in (("SCPI_ResultFloat", "SCPI_FloatToStr"), ("SCPI_ResultDouble", "SCPI_DoubleToStr")):
        f = prog.fn(name)
        g = prog.fn(conv)
        if f is None or g is None:
            ck.anchor_lost("C07-R5", name)
            continue
        st = K.site(f, "buffer-capacity", 0)
        need = None
        for c in g.calls():
            if c.get("callee") == "snprintf":
                need = required_len(fmt=str_arg(c, 2))
            elif c.get("callee") == "SCPI_dtostre":
                need = required_len(prec=C.const_of(K.arg(c, 3)))
        cv = list(f.calls(conv))
        size = C.const_of(K.arg(cv[0], 2)) if cv else None
        bufname = K.arg(cv[0], 1).strip_all_casts().get("path") if cv else None
        decl = [d["type"].get("n") for n in f.nodes.values() if n.k == "DeclStmt" for d in n.get("decls", []) if d["name"] == bufname]
        if need is None:
            ck.undecided("C07-R5", st, K.loc(f), "cannot determine the format of %s" % conv)
        elif size is not None and decl and size == decl[0] and size >= need:
            ck.holds("C07-R5", st, K.loc(f, cv[0]), "%d bytes for at most %d (incl. NUL)" % (size, need))
        else:
            ck.violated("C07-R5", st, K.loc(f, cv[0]) if cv else K.loc(f),
                        "%s formats into %s bytes, the longest text of its format needs %d (e.g. -d.ddddddddddddddde-ddd): the last "
                        "characters are cut and the value decodes to a different number" % (name, size, need))
        ck.analysed(f, g)


def run(ck, fb, tier):
    for cfg in fb.configs:
        ck.config = cfg
        prog = fb[cfg]
        S = K.summaries(prog)
        if cfg == "A" or tier == "thorough":
            rule_r1(ck, prog, S)
            rule_r2(ck, prog)
            rule_r3(ck, prog, S)
            rule_r4(ck, prog)
        rule_r5(ck, prog)
        if cfg == "A" or tier == "thorough":
            # the reader's string class: every 7-bit character other than the delimiter (shared with C13-T4)
            from . import c13
            from .lexmodel import LexModel
            c13.rule_t4(K.RuleProxy(ck, {"C13-T4": "C07-R3"}), prog, S, LexModel(prog, S), only=("isascii7bit", "skipQuoteProgramData"))
        if cfg == "A" or tier == "thorough":
            from . import c04
            c04.rule_n4(K.RuleProxy(ck, {"C04-N4": "C07-R7"}), prog, K.load_spec("units_488_2.json"))
        from . import c16
        px = K.RuleProxy(ck, {"C16-G1": "C07-R6", "C16-G4": "C07-R6"})
        c16.rule_g1(px, prog, cfg)
        c16.rule_g4(px, prog, S)
    ck.trust("printf %g produces at most sign + precision digits + point + e+ddd")


TECHNIQUE = ("static analysis: composition of writer and reader decision tables (radix prefixes), call-wiring audit, "
             "must-pass-through for quote doubling, exact character sets, worst-case text length vs declared buffer size")
LEVEL_TEXT = ("Clause-level: reader and writer agree on prefixes, signedness, quoting and block header shape, and result "
              "buffers cannot truncate. These are necessary conditions of the round trip; the equality of values after the "
              "round trip is not decided statically.")
LEVEL_NOTE = "Trusted: clang CFG/constant evaluator, extractor, printf's %g length bound."
DESIGN_REF = "DESIGN.md section 5, C07"
