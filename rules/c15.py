"""C15 — no formatting or copying API writes past the buffer the caller gave it."""
from sa import cfg as C
from . import common as K
from . import boundsrules as BR

CONFIGS_QUICK = ["A", "D", "E"]
CONFIGS_THOROUGH = ["A", "B", "C", "D", "E"]

EXPLANATION = (
    "Static decision of C15 with the bounds engine: for SCPI_NumberToStr, SCPI_FloatToStr, "
    "SCPI_DoubleToStr, SCPI_dtostre (configurations with the library formatter), "
    "SCPI_ParamCopyText and the integer formatters, EVERY store into the caller's buffer and every "
    "call with a write extent (strncpy / strncat / snprintf / memmove / library formatters, by "
    "their contracts) is proved to stay inside [0, len) for every len >= 0 from linear facts that "
    "hold on all paths (dominating guards, assignments, call contracts, inductive loop "
    "invariants such as the lock-step i_to < i_from of the un-quoting copy), by Fourier-Motzkin "
    "entailment; size_t subtractions are used only where they provably do not wrap, otherwise "
    "both cases are followed. Every strlen of a caller buffer needs a NUL known to lie inside it. "
    "A violation is reported only with an integer witness (buffer length and string lengths). "
    "(N) on return, whenever the result is shorter than the buffer a NUL is known at the index "
    "returned. Listed undecided: the backward zero-trimming loop of SCPI_dtostre and what follows "
    "it (relies on the '.' sentinel), for precisions up to 15.")

RULES = {
    "C15-N": "no integer on this property's data path is narrowed by an implicit conversion (parameter handed to a narrower parameter, stored in a narrower field, or a narrow field behind a wider accessor)",
    "C15-W": "every store / write call into a caller-supplied (or local) buffer is in bounds for every buffer length, on all paths",
    "C15-N": "on return: a NUL is known at the returned index whenever the result is shorter than the buffer",
}

TARGETS = [("SCPI_NumberToStr", None, 5), ("SCPI_FloatToStr", None, 1), ("SCPI_DoubleToStr", None, 1),
           ("SCPI_ParamCopyText", None, 2), ("UInt32ToStrBaseSign", None, 3), ("UInt64ToStrBaseSign", None, 3)]


def strnlen_contract(ck, prog, g):
    """the bundled strnlen replacement is used under the contract `result <= maxlen, reads only s[0 .. maxlen-1]`
    (spec/bounds.json); in builds that compile it the contract is verified on the function itself"""
    from sa import bounds as B
    from sa.linear import le
    sp, mp = g.params[0]["name"], g.params[1]["name"]
    an = B.Analysis(prog, g, {sp: mp}, BR.spec()["contracts"], loads=True)
    orig = an.do_elem

    def hook(st, n, orig=orig, an=an):
        if n.k == "ReturnStmt" and n.ch:
            v = an.value(st, n.child(0))
            what = "the length returned does not exceed maxlen"
            if v is None:
                site = an.sites.setdefault(("ret", n.id), B.Site(n, "contract", what))
                site.results.append((False, False, True, "returned value not expressible", None, None))
            else:
                an.oblige_fact(st, n, "contract", le(v, an.cur(st, mp)), what, key=("ret", n.id))
        return orig(st, n)
    an.do_elem = hook
    sites = an.run()
    ck.analysed(g)
    k = 0
    for s_ in sites.values():
        v, r = s_.verdict()
        st = K.site(g, "%s:%s" % (s_.kind, s_.node.src.replace(" ", "")[:30]), k)
        k += 1
        if v == "HOLDS":
            ck.holds("C15-W", st, K.loc(g, s_.node), "%s (%d paths)" % (s_.what[:60], len(s_.results)))
        elif v == "VIOLATED":
            ck.violated("C15-W", st, K.loc(g, s_.node),
                        "BSD_strnlen breaks its contract: %s; witness %s - callers size their writes with this value "
                        "(SCPI_NumberToStr writes the terminator at str[strnlen(str, len - 1)])" % (r[3][:120], r[5]))
        else:
            ck.undecided("C15-W", st, K.loc(g, s_.node), "%s: %s" % (s_.what[:60], r[3][:160]))
    if k == 0:
        ck.anchor_lost("C15-W", "no obligations for BSD_strnlen")


def run(ck, fb, tier):
    for cfg in fb.configs:
        ck.config = cfg
        prog = fb[cfg]
        K.narrowing_rule(ck, prog, "C15-N", lambda f_: f_.name in ("UInt32ToStrBaseSign", "UInt64ToStrBaseSign", "SCPI_Int32ToStr", "SCPI_UInt32ToStrBase", "SCPI_Int64ToStr", "SCPI_UInt64ToStrBase", "SCPI_FloatToStr", "SCPI_DoubleToStr", "SCPI_dtostre", "scpi_ecvt", "SCPI_NumberToStr", "SCPI_ParamCopyText"))
        g_ = prog.fn("BSD_strnlen")
        if g_ is not None:
            strnlen_contract(ck, prog, g_)
        for name, assume, floor in TARGETS:
            if cfg != "A" and tier != "thorough" and name not in ("SCPI_FloatToStr", "SCPI_DoubleToStr"):
                continue
            f_ = prog.fn(name)
            caps_ = BR.caps_for(prog, name) if f_ is not None else {}
            rl = sorted(caps_)[0] if caps_ and name in ("SCPI_NumberToStr", "SCPI_FloatToStr", "SCPI_DoubleToStr") else None
            an = BR.check_function(ck, prog, "C15-W", name, assume=assume, min_sites=floor, returns_length_of=rl)
        if prog.fn("SCPI_dtostre") is not None and (cfg in ("D", "E") or tier == "thorough"):
            BR.check_function(ck, prog, "C15-W", "SCPI_dtostre", assume=[("__prec", "<=", 15)], min_sites=10)
            ck.assume("SCPI_dtostre is called with precision <= 15 (the library's call sites pass 6 and 15; C16's range)")
        elif cfg in ("D", "E"):
            ck.anchor_lost("C15-W", "SCPI_dtostre missing in configuration %s" % cfg)
    ck.trust("spec/bounds.json: capacity pairs and libc write-extent contracts (strncpy, strncat, snprintf, memmove, strlen)")


TECHNIQUE = ("static analysis: bounds engine - per write site, linear facts on all CFG paths (guards, assignments, call "
             "contracts, Houdini-verified loop invariants), Fourier-Motzkin entailment, wrap-aware size_t arithmetic; "
             "violations only with an integer witness")
LEVEL_TEXT = ("Per-site proof obligations `offset >= 0 and offset + extent <= capacity` discharged for every buffer length; "
              "this decides the memory-safety clause of C15 for all values and lengths. The 'returned length matches what "
              "was written' clause is decided only as 'NUL known at the returned index'.")
LEVEL_NOTE = ("Trusted: clang CFG, extractor, libc contracts, capacity pairs in spec/bounds.json. Undecided sites are listed "
              "one by one in spec/undecided_sites.json with the reason.")
DESIGN_REF = "DESIGN.md section 5, C15"
