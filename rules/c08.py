"""C08 — behaviour depends on the byte stream, not on how it is cut into input calls."""
from sa import cfg as C
from sa import paths as P
from sa import charset as CS
from . import common as K
from .lexmodel import LexModel, base_of_member, arg_base, EOS_TESTS
from . import lexpaths as LP
from . import c01, c09, c13

CONFIGS_QUICK = ["A"]
CONFIGS_THOROUGH = ["A", "B", "C", "D", "E"]

EXPLANATION = (
    "Static decision of NECESSARY conditions of chunk independence (equality of traces between "
    "segmentations is a schedule property and is not decided). (H1) sibling rule: every "
    "recogniser whose token body may contain a message-terminator byte (decided from the exact "
    "character set its body loop accepts: quoted string - 7-bit incl. LF/CR; definite-length "
    "block - any byte; expression - excluded, < 0x20 rejected) must, when the input ends inside "
    "the token, consume the rest of the input instead of rolling back; otherwise a terminator "
    "inside a half-received token is acted on. The block recogniser does; the string recogniser "
    "does not (known finding). (H2) a zero-length call parses exactly (data, position) and "
    "then empties the buffer. (H3) after a line is executed the consumed bytes are removed with "
    "equal amounts and scanning restarts at the remainder. (H4) the scanner never examines bytes "
    "beyond those received: every cursor read/advance is guarded by the end-of-input test "
    "(shared with C01-L1/L2) - a stale byte behind the valid data would make behaviour depend on "
    "what an earlier, longer message left in the buffer, i.e. on the chunking. (H5) the buffer "
    "is NUL-terminated after the last change of the fill level before every parse (shared with "
    "C01-I2), so conversions cannot run into stale bytes. (H6) whether a line is executed is "
    "decided only from the scanner's termination kind.")

RULES = {
    "C08-H1": "a recogniser whose token may contain a terminator byte swallows the rest of the input when the input ends inside the token",
    "C08-H2": "zero-length call: parse (data, position), then position = 0",
    "C08-H3": "executed bytes are removed with equal amounts; scanning restarts at the remainder",
    "C08-H4": "the scanner never examines bytes beyond the received data (cursor reads/advances guarded)",
    "C08-H5": "the buffer is NUL-terminated after the last change of the fill level before every parse",
    "C08-H7": "the text attached to -113 is cut before every trailing terminator byte (CR and LF alike), so it does not depend on whether CR and LF arrived in the same call",
    "C08-H10": "the overrun refusal is decided from the pending unterminated data, not from the length of the chunk handed in (else the outcome depends on the partition)",
    "C08-H12": "the unit scan over the buffer ends only when the detector finds no further terminated message: no exit of that loop is decided from the length of the chunk handed in",
    "C08-H13": "the message terminator is recognised from its own bytes: scpiLex_NewLine consumes [CR][LF] whatever follows (evaluated for the empty input, every single byte and every byte behind CR, behind LF and behind CR LF), so the verdict on a CR does not depend on whether the next byte has arrived",
    "C08-H14": "every call scans the buffered text from its beginning: the offset at which the unit detector is first run is 0 (every definition of the offset outside the scan loop is the constant 0), so what is found does not depend on which bytes were already there before this call",
    "C08-H11": "every byte of the chunk is appended: the append copies (data, len) as received, neither is modified before it",
    "C08-H8": "the overrun refusal is exact: a chunk is refused only if position + len + 1 > buffer length (data that fits is never discarded)",
    "C08-H9": "definite-length block: once the '#', the digit count and all length digits have been read the block is either complete or incomplete (rest swallowed) - never rejected, whatever the announced length",
    "C08-H6": "a line is executed exactly when the scanner reports a NL termination",
}

TERM = {10, 13}


def body_may_contain_terminator(prog, S, model, f):
    """does the token body loop of recogniser f (directly or through its skip helper) advance over LF/CR?"""
    spec = K.load_spec("char_classes.json")
    # definite-length jump: any byte
    if any(s["kind"] == "jump" for s in model.sites.get(f.name, [])):
        return True, "definite-length jump over arbitrary bytes"
    helpers = [f] + [prog.fn(c.get("callee")) for c in f.calls() if prog.fn(c.get("callee") or "") is not None]
    seen = set()
    for h in helpers:
        if h is None or h.name in seen:
            continue
        seen.add(h.name)
        for hh in [h] + [prog.fn(c.get("callee")) for c in h.calls() if prog.fn(c.get("callee") or "") is not None]:
            if hh is None or hh.name in seen and hh is not h:
                continue
            adv = [s["node"] for s in model.sites.get(hh.name, []) if s["kind"] == "advance"]
            for node in adv:
                # only advances inside a loop form a token body
                inloop = any(hh.where[node.id][0].id in body for hd, body in C.loops(hh))
                if not inloop:
                    continue
                for q in (34, 39):
                    try:
                        got = c13.char_atoms_set(prog, S, hh, node, q, model)
                    except CS.CannotEvaluate:
                        got = None
                    if got and (got & TERM):
                        return True, "%s advances over %s" % (hh.name, sorted(got & TERM))
    return False, "body characters exclude LF/CR"


def rule_h1(ck, prog, S, model):
    unknown = prog.enumconst.get("SCPI_TOKEN_UNKNOWN")
    n = 0
    for f in LP.recognisers(prog):
        may, why = body_may_contain_terminator(prog, S, model, f)
        st = K.site(f, "swallow-on-incomplete", 0)
        if not may:
            ck.holds("C08-H1", st, K.loc(f), "token cannot contain a terminator byte (%s): rolling back is harmless" % why, nontrivial=False)
            continue
        n += 1
        ck.analysed(f)
        sims = LP.simulate(model, f)
        bad = None
        cases = 0
        for sm in sims:
            ps = sm.ps
            failing = (sm.type_stored and sm.type_val == unknown) or (not sm.type_stored and ps.ret is not None and ps.ret.kind == "const" and ps.ret.v == 0)
            if not failing:
                continue
            # did the input end after the token had started?
            started = False
            ended_inside = False
            last_eos = None     # result of the end-of-input test since the last cursor change
            infeasible = False
            for ev in ps.trace:
                if ev[0] == "elem":
                    nd = ev[1]
                    t0 = C.store_target(nd)
                    if t0 is not None and t0.k == "MemberExpr" and base_of_member(t0) and base_of_member(t0)[1] == "pos":
                        last_eos = None
                    if nd.k == "CallExpr" and nd.get("callee") not in EOS_TESTS and any(arg_base(a) == sm.base for a in C.call_args(nd)):
                        mw0 = model.S.may_write(nd.get("callee")) if nd.get("callee") else {"*"}
                        if mw0 is None or mw0 & {"pos", "*"}:
                            last_eos = None
                    t = C.store_target(nd)
                    if t is not None and t.k == "MemberExpr":
                        bm = base_of_member(t)
                        if bm and bm[1] == "pos" and nd.get("op") in ("++", "+="):
                            started = True
                    if nd.k == "CallExpr" and any(arg_base(a) == sm.base for a in C.call_args(nd)) and nd.get("callee") not in EOS_TESTS:
                        mw = model.S.may_write(nd.get("callee")) if nd.get("callee") else {"*"}
                        if mw is None or mw & {"pos", "*"}:
                            started = True
                elif ev[0] == "branch":
                    for atom, pol in C.cond_facts(ev[1], ev[2]):
                        if atom.k == "CallExpr" and atom.get("callee") in EOS_TESTS:
                            if last_eos is not None and last_eos != pol:
                                infeasible = True     # same test, unchanged cursor, different answer
                            last_eos = pol
                            if pol is True and started:
                                ended_inside = True
            if infeasible or not ended_inside:
                continue
            cases += 1
            if not (sm.rel == "end" and not sm.wild):
                bad = sm
        if cases == 0:
            ck.undecided("C08-H1", st, K.loc(f), "no path on which the input ends inside the token")
        elif bad is not None:
            ck.violated("C08-H1", st, K.loc(f, bad.ps.ret_node),
                        "%s: when the input ends inside the token the cursor is rolled back to the token start instead of "
                        "swallowing the rest (%s): a terminator byte inside the half-received token is then taken for the end of the "
                        "message, so the result depends on where the stream was cut" % (f.name, why),
                        {"path": bad.ps.describe()[-6:]})
        else:
            ck.holds("C08-H1", st, K.loc(f), "%d incomplete-token paths leave the cursor at the end of input (%s)" % (cases, why))
    if n < 2:
        ck.anchor_lost("C08-H1", "only %d recognisers whose token may contain a terminator" % n)


def rule_h2_h6(ck, prog, S):
    got = K.need(ck, prog, "C08-H2", "SCPI_Input")
    if not got:
        return
    f = got[0]
    POS, DATA = "context->buffer.position", "context->buffer.data"
    nl = prog.enumconst.get("SCPI_MESSAGE_TERMINATION_NL")
    sums = P.summarize(f, max_visits=2)
    st = K.site(f, "flush", 0)
    flush = [ps for ps in sums if any(not isinstance(pol, tuple) and pol and a.k == "BinaryOperator" and a.get("op") == "==" and
                                      a.child(0).strip_all_casts().get("path") == f.params[2]["name"] and C.const_of(a.child(1)) == 0
                                      for a, pol in ps.facts)]
    probs = []
    if not flush:
        probs.append("no zero-length branch")
    for ps in flush:
        parses = [c for c in ps.calls if c.get("callee") == "SCPI_Parse"]
        if len(parses) != 1:
            probs.append("the zero-length call runs %d parses" % len(parses))
            continue
        a = C.call_args(parses[0])
        if a[1].strip_all_casts().get("path") != DATA or a[2].strip_all_casts().get("path") != POS:
            probs.append("the zero-length call parses (%s, %s), not (data, position)" % (a[1].src, a[2].src))
        evs = ps.events
        ip = next(i for i, e in enumerate(evs) if e[0] == "call" and e[1] is parses[0])
        reset = [i for i, e in enumerate(evs) if e[0] == "store" and C.store_target(e[1]).get("path") == POS and C.const_of(e[1].child(1)) == 0]
        if not reset or reset[-1] < ip:
            probs.append("the buffer is not emptied after the flush")
        if any(c.get("callee") == "memcpy" for c in ps.calls):
            probs.append("the zero-length call appends data")
    if probs:
        ck.violated("C08-H2", st, K.loc(f), "; ".join(sorted(set(probs))))
    else:
        ck.holds("C08-H2", st, K.loc(f), "SCPI_Parse(data, position); position = 0")
    # H6
    st = K.site(f, "execute-on-NL-only", 0)
    probs = []
    for ps in sums:
        if ps in flush:
            continue
        for i, e in enumerate(ps.events):
            if e[0] == "call" and e[1].get("callee") == "SCPI_Parse":
                before = [(x[1], x[2]) for x in ps.events[:i] if x[0] == "branch" and not isinstance(x[2], tuple)]
                term = [pol for a, pol in before if a.k == "BinaryOperator" and a.get("op") == "==" and C.const_of(a.child(1)) == nl
                        and "termination" in a.child(0).src]
                if not term or term[-1] is not True:
                    probs.append("a buffered line is executed without the scanner having reported a NL termination")
    pg = S.pg(f)
    if probs:
        ck.violated("C08-H6", st, K.loc(f), sorted(set(probs))[0])
    else:
        ck.holds("C08-H6", st, K.loc(f), "in the append branch SCPI_Parse runs only on termination == NL")
    ck.analysed(f)


def rule_h7(ck, prog, S):
    from sa import charset as CS
    parse, nl = prog.fn("SCPI_Parse"), prog.fn("scpiLex_NewLine")
    if parse is None or nl is None:
        ck.anchor_lost("C08-H7", "SCPI_Parse / scpiLex_NewLine")
        return
    term = {C.const_of(C.call_args(c)[1]) for c in nl.calls("skipChr")} - {None}
    if not term:
        # the recogniser does not go through the one-character skipper: the bytes it consumes, by evaluation over all bytes
        from sa import interp as I
        try:
            term = {b for b in range(256) if I.lex_on(prog, nl.name, bytes([b]))[2] == 1}
        except I.Stuck:
            term = set()
    pushes = [c for c in parse.calls("SCPI_ErrorPushEx") if C.const_of(K.arg(c, 1)) == -113]
    if not pushes:
        # the push may live in a static helper of the parser: analyse it where it is
        for g in prog.functions.values():
            if g.static and g.relfile.endswith("parser.c"):
                ps_ = [c for c in g.calls("SCPI_ErrorPushEx") if C.const_of(K.arg(c, 1)) == -113]
                if ps_:
                    pushes, parse = ps_, g
                    break
    if not term or len(pushes) != 1:
        ck.anchor_lost("C08-H7", "terminator bytes of scpiLex_NewLine (%s) / the -113 push with text (%d)" % (sorted(term), len(pushes)))
        return
    push = pushes[0]
    ck.analysed(parse, nl)
    st = K.site(parse, "undefined-header-text-trimmed", 0)
    a = C.call_args(push)
    from sa.linear import Lin

    def lin(e):
        """pointer/integer expression as a linear form over access paths (None when not linear)"""
        e = e.strip_all_casts()
        while e.k == "ParenExpr":
            e = e.child(0).strip_all_casts()
        cv = C.const_of(e)
        if cv is not None:
            return Lin.const(cv)
        if e.get("path") and e.k in ("DeclRefExpr", "MemberExpr"):
            return Lin.sym(e.get("path"))
        if e.k == "BinaryOperator" and e.get("op") in ("+", "-"):
            l, r_ = lin(e.child(0)), lin(e.child(1))
            if l is None or r_ is None:
                return None
            return l + r_ if e["op"] == "+" else l - r_
        return None
    txtL, lnL = lin(a[2]), lin(a[3])
    if txtL is None or lnL is None:
        ck.undecided("C08-H7", st, K.loc(parse, push), "the -113 text (`%s`, `%s`) is not a linear pointer/length pair" % (a[2].src, a[3].src))
        return
    endL = txtL + lnL                                   # one past the last byte of the text
    deps = set(endL.syms()) | set(txtL.syms()) | set(lnL.syms())
    ln = a[3].strip_all_casts().get("path")
    # pointers known to lie at or behind the unit start: locals whose only definition is the header token's pointer
    def unit_geometry(fn_):
        det_ = list(fn_.calls("scpiParser_detectProgramMessageUnit"))
        us = C.call_args(det_[0])[1].strip_all_casts().get("path") if det_ else None
        bh = set()
        for d in fn_.nodes.values():
            if d.k == "DeclStmt":
                for dd in d.get("decls", []):
                    if "init" in dd and (fn_.nodes[dd["init"]].strip_all_casts().get("path") or "").endswith("programHeader.ptr") and \
                            not [n for n, t in C.stores(fn_) if t.get("path") == dd["name"]]:
                        bh.add(dd["name"])
        return us, bh
    unit_start, behind = unit_geometry(parse)
    if unit_start is None:
        # the push lives in a helper: what its parameters are is known at its (single) call site
        sites_ = list(prog.callers(parse.name))
        if len(sites_) == 1:
            host, call_ = sites_[0]
            us, bh = unit_geometry(host)
            stored = {t.get("path") for n, t in C.stores(parse)}
            for prm, a_ in zip(parse.params, C.call_args(call_)):
                ap = a_.strip_all_casts().get("path")
                if ap is None or prm["name"] in stored and prm["type"].get("tk") == "ptr":
                    continue
                if ap == us:
                    unit_start = prm["name"]
                elif ap in bh:
                    behind.add(prm["name"])

    def empty_when_zero(v):
        """with the variable v == 0, is the text length provably <= 0 ?"""
        z = lnL.subst({v: Lin.const(0)}) if v in lnL.syms() else None
        if z is None:
            return False
        if z.is_const():
            return z.k <= 0
        if unit_start is not None and len(z.c) == 2 and z.k <= 0 and z.c.get(unit_start) == 1 and \
                any(z.c.get(b) == -1 for b in behind):
            return True                                  # unit start - header pointer <= 0
        return False

    def last_byte_reads(expr):
        out = []
        for x in expr.walk():
            if x.k == "ArraySubscriptExpr":
                bl, il = lin(x.child(0)), lin(x.child(1))
                if bl is not None and il is not None and (bl + il + Lin.const(1)) == endL:
                    out.append(x)
        return out
    pg = S.pg(parse)

    def is_last_byte_init(e):
        e = e.strip_all_casts()
        return e.k == "ArraySubscriptExpr" and bool(last_byte_reads(e))

    def transfer(state, e):
        if e.kind == "elem":
            n_ = e.node
            t = C.store_target(n_)
            if t is not None and t.get("path") in deps:
                return frozenset()
            if n_.k == "DeclStmt":
                if any(d["name"] in deps for d in n_.get("decls", [])):
                    return frozenset()
                for d in n_.get("decls", []):
                    if "init" in d and is_last_byte_init(parse.nodes[d["init"]]):
                        state = state | frozenset({("alias", d["name"])})     # a local copy of the last byte
                return state
            if t is not None and t.k == "DeclRefExpr":
                state = frozenset(x for x in state if x != ("alias", t.get("path")))
                if n_.get("op") == "=" and is_last_byte_init(n_.child(1)):
                    state = state | frozenset({("alias", t.get("path"))})
            return state
        lab = e.label
        if not lab or lab[0] not in ("true", "false") or lab[1] is None:
            return state
        add = set()
        for atom, pol in C.cond_facts(lab[1], lab[0] == "true"):
            if isinstance(pol, tuple):
                continue
            a_ = atom.strip_all_casts() if hasattr(atom, "strip_all_casts") else atom
            reads = last_byte_reads(a_)
            if a_.k == "BinaryOperator" and a_.get("op") in (">", "!=") and a_.child(0).strip_all_casts().get("path") \
                    and C.const_of(a_.child(1)) == 0 and pol is False and empty_when_zero(a_.child(0).strip_all_casts().get("path")):
                add |= set(range(256))                      # the text is empty
            elif a_.get("path") and pol is False and empty_when_zero(a_.get("path")):
                add |= set(range(256))
            elif reads or any(("alias", x.get("path")) in state for x in a_.walk() if x.k == "DeclRefExpr"):
                names = {x.get("path") for x in a_.walk() if x.k == "DeclRefExpr" and ("alias", x.get("path")) in state}
                for b in range(256):
                    try:
                        env_ = {"$expr": {r_.src.replace(" ", ""): CS.byte_as_char(b) for r_ in reads}}
                        env_.update({nm: CS.byte_as_char(b) for nm in names})
                        v = CS.ceval(a_, env_, prog)
                    except CS.CannotEvaluate:
                        break
                    if bool(v) != bool(pol):
                        add.add(b)                          # this edge cannot be taken when the last byte is b
        return state | frozenset(add) if add else state
    stt = pg.must(transfer)
    best = stt.get(pg.before(push))
    best = {x for x in best if not isinstance(x, tuple)} if best is not None else None
    trims = [n for n, t in C.stores(parse) if t.get("path") in deps and (n.get("op") in ("--", "-="))]
    if best is not None and best >= term:
        extra = best - term
        if extra:
            ck.violated("C08-H7", st, K.loc(parse, push), "the -113 text is also cut before bytes %s that are not terminators" % sorted(extra)[:8])
        else:
            ck.holds("C08-H7", st, K.loc(parse, push), "at the push: the text (`%s`, `%s`) is empty or its last byte is not in %s" % (a[2].src, a[3].src, sorted(term)))
    elif trims or ln is None:
        ck.violated("C08-H7", st, K.loc(parse, push),
                    "at the -113 push the last byte of the attached text can still be a terminator byte (guaranteed stripped: %s of %s): "
                    "`NOPE\\r` + `\\n` in two calls queues a different text than `NOPE\\r\\n` in one call"
                    % (sorted(best or []), sorted(term)))
    else:
        ck.undecided("C08-H7", st, K.loc(parse, push), "trimming of the -113 text not found in SCPI_Parse (length argument `%s`)" % a[3].src)


def rule_h9(ck, prog):
    f = prog.fn("scpiLex_ArbitraryBlockProgramData")
    if f is None:
        ck.anchor_lost("C08-H9", "scpiLex_ArbitraryBlockProgramData")
        return
    ck.analysed(f)
    st = K.site(f, "header-complete-never-rejected", 0)
    unk = prog.enumconst.get("SCPI_TOKEN_UNKNOWN")
    blk = prog.enumconst.get("SCPI_TOKEN_ARBITRARY_BLOCK_PROGRAM_DATA")
    # the counter of outstanding length digits: the local that is decremented in a loop and compared with 0
    cnt = None
    for n, t in C.stores(f):
        if n.k == "UnaryOperator" and n.get("op") == "--" and t.k == "DeclRefExpr":
            cnt = t.get("path")
    if cnt is None:
        ck.undecided("C08-H9", st, K.loc(f), "digit counter of the block header not found")
        return
    bad = None
    ncomplete = 0
    try:
        sums = P.summarize(f, max_visits=2)
    except P.TooManyPaths:
        ck.undecided("C08-H9", st, K.loc(f), "too many paths")
        return
    for ps in sums:
        done = None
        for a, pol in ps.facts:
            if isinstance(pol, tuple) or a.k != "BinaryOperator":
                continue
            l, r = a.child(0).strip_all_casts(), a.child(1).strip_all_casts()
            if l.get("path") == cnt and C.const_of(r) == 0:
                if a.get("op") == "==":
                    done = pol
                elif a.get("op") == ">":
                    done = (not pol) if done is None or pol else done
        if done is not True:
            continue
        ncomplete += 1
        # outcome: token type stored last / cursor stores
        types = [C.const_of(e[1].child(1)) for e in ps.events if e[0] == "store" and (C.store_target(e[1]).get("path") or "").endswith("->type")]
        stores_pos = [e[1] for e in ps.events if e[0] == "store" and (C.store_target(e[1]).get("path") or "").endswith("->pos")]
        rolled_back = bool(stores_pos) and stores_pos[-1].get("op") == "=" and \
            (stores_pos[-1].child(1).strip_all_casts().get("path") or "").endswith("->ptr")
        if types and types[-1] == unk and rolled_back:
            bad = bad or ps
    if ncomplete == 0:
        ck.anchor_lost("C08-H9", "no path on which all length digits were read (%s == 0)" % cnt)
    elif bad is not None:
        ck.violated("C08-H9", st, K.loc(f, bad.ret_node),
                    "a block whose header was read completely can still be rejected and the cursor rolled back (for instance because "
                    "its announced length exceeds what has arrived so far): a line terminator inside the partly received payload then "
                    "ends the message, and the same bytes fed in one piece are accepted", {"path": bad.describe()[-8:]})
    else:
        ck.holds("C08-H9", st, K.loc(f), "%d header-complete paths: complete token or everything swallowed" % ncomplete)


def rule_h8(ck, prog, S):
    f = prog.fn("SCPI_Input")
    if f is None:
        return
    cps = list(f.calls("memcpy"))
    if len(cps) != 1:
        ck.anchor_lost("C08-H8", "the append in SCPI_Input")
        return
    POS, LEN = "context->buffer.position", "context->buffer.length"
    lenp = C.call_args(cps[0])[2].strip_all_casts().get("path")
    st = K.site(f, "overrun-guard-exact", 0)
    ks = []
    for atom, pol in K.facts_at(S, f, cps[0]) or []:
        if isinstance(pol, tuple) or atom.k != "BinaryOperator" or atom.get("op") not in (">", ">=", "<", "<="):
            continue
        k = c01.guard_slack(f, atom, pol, lenp, POS, LEN)
        if k is not None:
            ks.append((k, atom))
    if not ks:
        ck.undecided("C08-H8", st, K.loc(f, cps[0]), "no linear overrun guard found in front of the append")
        return
    k, atom = max(ks, key=lambda x: x[0])
    if k > 1:
        ck.violated("C08-H8", st, K.loc(f, atom),
                    "the guard `%s` refuses chunks for which position + len + 1 <= length still holds (slack %d): input that "
                    "exactly fills the buffer is discarded with -363 although nothing overran" % (atom.src, k - 1))
    else:
        ck.holds("C08-H8", st, K.loc(f, atom), "accepted iff position + len + 1 <= length (`%s`)" % atom.src)


def rule_h10(ck, prog, S):
    """The refusal (-363, buffer reset) must depend on the pending unterminated data only.  A refusal decided from the
    length of the chunk being handed in makes the outcome a function of the partition: a chunk that holds several complete
    messages but is longer than the free space is thrown away whole, although fed in smaller pieces every message of it
    is executed and nothing ever overruns."""
    f = prog.fn("SCPI_Input")
    if f is None:
        return
    over = prog.enumconst.get("SCPI_ERROR_INPUT_BUFFER_OVERRUN", -363)
    pushes = [c for c in f.calls() if (c.get("callee") or "").startswith("SCPI_ErrorPush") and C.const_of(K.arg(c, 1)) == over]
    if len(pushes) != 1 or len(f.params) < 3:
        ck.anchor_lost("C08-H10", "the -363 push in SCPI_Input (%d found)" % len(pushes))
        return
    lenp = f.params[2]["name"]
    st = K.site(f, "refusal-independent-of-chunk-length", 0)
    facts = K.facts_at(S, f, pushes[0]) or []
    dep = [a for a, pol in facts if not isinstance(pol, tuple) and
           any(x.k == "DeclRefExpr" and x.get("path") == lenp for x in a.walk()) and
           not (a.k == "BinaryOperator" and a.get("op") in ("==", "!=") and C.const_of(a.child(1)) == 0)]
    if dep:
        ck.violated("C08-H10", st, K.loc(f, pushes[0]),
                    "the buffer is reset and -363 queued under `%s`, a condition on the length of the chunk handed in: a chunk "
                    "that contains complete messages but exceeds the free space is discarded whole, the same bytes in smaller "
                    "chunks are all executed" % dep[0].src,
                    {"witness": "16-byte input buffer, stream \"A?\\nB?\\nA?\\nB?\\nA?\\nB?\\n\" (18 bytes, never more than 2 "
                                "unterminated bytes pending): one call -> no handler, -363, FALSE; byte by byte -> six responses, no error"})
    else:
        ck.holds("C08-H10", st, K.loc(f, pushes[0]), "the refusal does not depend on the chunk length `%s`" % lenp)


def rule_h12(ck, prog, S):
    """Every call rescans the buffered text from its start, one program message unit per pass.  The number of passes needed
    is the number of units buffered so far, which has nothing to do with the size of the chunk that happened to complete
    the message; a scan loop bounded by (something computed from) the chunk length stops early for short chunks, so whether
    a complete message is executed depends on where the stream was cut."""
    f = prog.fn("SCPI_Input")
    if f is None or len(f.params) < 3:
        return
    lenp = f.params[2]["name"]
    det = list(f.calls("scpiParser_detectProgramMessageUnit"))
    if not det:
        return      # H1 reports the lost anchor
    loops_ = [(h, body) for h, body in C.loops(f) if any(f.where[c.id][0].id in body for c in det)]
    st = K.site(f, "scan-ends-with-the-buffered-text", 0)
    if not loops_:
        ck.anchor_lost("C08-H12", "SCPI_Input: the unit detector is not called in a loop")
        return
    # locals computed from the chunk length
    tainted = {lenp}
    changed = True
    while changed:
        changed = False
        for n_, t in C.stores(f):
            tp = t.get("path")
            if t.k == "DeclRefExpr" and tp not in tainted and n_.k == "BinaryOperator" and \
                    any(x.k == "DeclRefExpr" and x.get("path") in tainted for x in n_.child(1).walk()):
                tainted.add(tp)
                changed = True
        for n_ in f.nodes.values():
            if n_.k == "DeclStmt":
                for d in n_.get("decls", []):
                    if "init" in d and d["name"] not in tainted and \
                            any(x.k == "DeclRefExpr" and x.get("path") in tainted for x in f.nodes[d["init"]].walk()):
                        tainted.add(d["name"])
                        changed = True
    bad = None
    nexits = 0
    for h, body in loops_:
        for bid in body:
            b = f.blocks[bid]
            outs = [s_ for s_ in b.succs if s_ is not None and s_.id not in body]
            if not outs or b.cond is None:
                continue
            nexits += 1
            dep = [x for x in b.cond.walk() if x.k == "DeclRefExpr" and x.get("path") in tainted]
            if dep and bad is None:
                bad = (b.cond, dep[0])
    if bad:
        ck.violated("C08-H12", st, K.loc(f, bad[0]),
                    "the unit scan leaves its loop under `%s`, which depends on the chunk length (`%s`): a terminator that arrives in "
                    "a chunk shorter than the number of units buffered in front of it is not reached, the complete message stays "
                    "unexecuted (`A?;B?\\n` byte by byte), the same bytes in one call are executed" % (bad[0].src, bad[1].src))
    elif not nexits:
        ck.anchor_lost("C08-H12", "SCPI_Input: the scan loop has no conditional exit")
    else:
        ck.holds("C08-H12", st, K.loc(f, det[0]), "%d exit condition(s) of the scan loop, none computed from `%s`" % (nexits, lenp))


def rule_h14(ck, prog, S):
    f = prog.fn("SCPI_Input")
    if f is None:
        return
    det = list(f.calls("scpiParser_detectProgramMessageUnit"))
    loops_ = [(h, body) for h, body in C.loops(f) if any(f.where[c.id][0].id in body for c in det)]
    if not det or not loops_:
        return          # H12 reports the lost anchor
    st = K.site(f, "scan-starts-at-buffer-start", 0)
    body = set().union(*[b for _h, b in loops_])
    a = C.call_args(det[0])
    off = None
    e1 = a[1].strip_all_casts()
    if e1.k == "BinaryOperator" and e1.get("op") == "+":
        for side in (e1.child(1), e1.child(0)):
            sd = side.strip_all_casts()
            if sd.k == "DeclRefExpr" and sd.get("decl", {}).get("kind") == "local":
                off = sd.get("path")
    if off is None:
        if (e1.get("path") or "").endswith("buffer.data"):
            ck.holds("C08-H14", st, K.loc(f, det[0]), "the detector is run on the buffer itself")
        else:
            ck.undecided("C08-H14", st, K.loc(f, det[0]), "the detector's start `%s` is not buffer + local offset" % a[1].src)
        return
    defs = []
    for n_ in f.nodes.values():
        if n_.k == "DeclStmt":
            for d in n_.get("decls", []):
                if d["name"] == off:
                    defs.append((n_, f.nodes[d["init"]] if "init" in d else None, "decl"))
    for n_, t in C.stores(f):
        if t.get("path") == off:
            defs.append((n_, n_.child(1) if n_.k == "BinaryOperator" and n_.get("op") == "=" else None, n_.get("op")))
    outside = [(n_, v, op) for n_, v, op in defs if n_.id not in f.where or f.where[n_.id][0].id not in body]
    bad = [(n_, v, op) for n_, v, op in outside if not (op in ("decl", "=") and v is not None and C.const_of(v) == 0)]
    # a declaration without initialiser is fine when an assignment of 0 follows outside the loop
    bad = [(n_, v, op) for n_, v, op in bad if not (op == "decl" and v is None and
                                                  any(o2 == "=" and v2 is not None and C.const_of(v2) == 0 for _n2, v2, o2 in outside))]
    if bad:
        ck.violated("C08-H14", st, K.loc(f, bad[0][0]),
                    "the scan offset `%s` is set by `%s` before the scan loop: the detector starts inside the buffered text, at a place "
                    "computed from bytes of earlier calls (a `;` inside a string or block), so the same stream cut differently is "
                    "split into different units" % (off, bad[0][0].src[:70]))
    elif not outside:
        ck.anchor_lost("C08-H14", "SCPI_Input: no definition of the scan offset `%s` outside the loop" % off)
    else:
        ck.holds("C08-H14", st, K.loc(f, det[0]), "`%s` is 0 when the scan loop is entered (%d definition(s) outside the loop)" % (off, len(outside)))


def rule_h13(ck, prog):
    from sa import interp as I
    f = prog.fn("scpiLex_NewLine")
    if f is None:
        ck.anchor_lost("C08-H13", "scpiLex_NewLine")
        return
    ck.analysed(f)
    st = K.site(f, "terminator-from-its-own-bytes", 0)
    nl = prog.enumconst.get("SCPI_TOKEN_NL")
    CR, LF = 13, 10
    inputs = [b""]
    for a in range(256):
        inputs.append(bytes([a]))
    for a in (CR, LF):
        for b in range(256):
            inputs.append(bytes([a, b]))
    for b in range(256):
        inputs.append(bytes([CR, LF, b]))
    for x in (b"x\r", b"x\n", b"x\r\n", b"\n\r", b"\r\rx", b"\n\nx"):
        inputs.append(x)
    bad = None
    n = 0
    for data in inputs:
        want = 0
        if want < len(data) and data[want] == CR:
            want += 1
        if want < len(data) and data[want] == LF:
            want += 1
        try:
            r, tok, used = I.lex_on(prog, f.name, data)
        except I.Stuck as e:
            ck.undecided("C08-H13", st, K.loc(f), "cannot evaluate scpiLex_NewLine on %r: %s" % (data, e))
            return
        n += 1
        got_t = tok.get("type")
        if (r, used) != (want, want) or (want > 0 and got_t != nl) or (want == 0 and got_t == nl):
            bad = bad or (data, r, used, want)
    if bad:
        data, r, used, want = bad
        ck.violated("C08-H13", st, K.loc(f),
                    "on input %r the terminator recogniser consumes %s byte(s) (returns %s), [CR][LF] is %d: what counts as the end of the "
                    "message depends on the bytes behind the terminator, i.e. on whether they arrived in the same call"
                    % (data, used, r, want))
    else:
        ck.holds("C08-H13", st, K.loc(f), "%d inputs: consumes exactly [CR][LF], independent of what follows" % n)


def rule_h11(ck, prog, S):
    """Every byte handed in is appended: the append copies exactly (data, len) as received.  Dropping or skipping bytes of
    the chunk before they reach the buffer (leading blanks while the buffer is empty, ...) makes the content of the
    buffer depend on where the stream was cut."""
    f = prog.fn("SCPI_Input")
    if f is None or len(f.params) < 3:
        return
    cps = list(f.calls("memcpy"))
    if len(cps) != 1:
        return          # H8 reports the lost anchor
    cp = cps[0]
    datap, lenp = f.params[1]["name"], f.params[2]["name"]
    st = K.site(f, "chunk-appended-unchanged", 0)
    a = C.call_args(cp)
    pg = S.pg(f)
    probs = []
    if a[1].strip_all_casts().get("path") != datap or a[2].strip_all_casts().get("path") != lenp:
        probs.append("the append copies (`%s`, `%s`), not the chunk (`%s`, `%s`) as received" % (a[1].src, a[2].src, datap, lenp))
    for n_, t in C.stores(f):
        if t.get("path") in (datap, lenp):
            after = pg.after(n_)
            if after is not None and pg.before(cp) in pg.reachable([after]):
                probs.append("`%s` changes the chunk before it is appended: bytes of the stream are dropped depending on the state "
                             "of the buffer at the time of the call, i.e. on the partition" % n_.src)
                break
    if probs:
        ck.violated("C08-H11", st, K.loc(f, cp), "; ".join(probs))
    else:
        ck.holds("C08-H11", st, K.loc(f, cp), "memcpy(&buffer[position], %s, %s) with both parameters untouched" % (datap, lenp))


def run(ck, fb, tier):
    for cfg in fb.configs:
        ck.config = cfg
        prog = fb[cfg]
        S = K.summaries(prog)
        model = LexModel(prog, S)
        rule_h1(ck, prog, S, model)
        rule_h10(ck, prog, S)
        rule_h11(ck, prog, S)
        rule_h12(ck, prog, S)
        rule_h13(ck, prog)
        rule_h14(ck, prog, S)
        rule_h2_h6(ck, prog, S)
        # shared rules, recorded under this property's ids
        c09_h3(ck, prog)
        c01.rule_l1_l2(ck, prog, S, model, "C08-H4", "C08-H4")
        h5(ck, prog, S)
        rule_h7(ck, prog, S)
        rule_h8(ck, prog, S)
        rule_h9(ck, prog)
        c09.rule_h4(K.RuleProxy(ck, {"C09-H4": "C08-H3"}), prog)
        c13.rule_t5_detector(K.RuleProxy(ck, {"C13-T5": "C08-H6"}), prog, S)
    ck.assume("the stream never leaves more unterminated data pending than the input buffer holds (the property's precondition)")


def c09_h3(ck, prog):
    # re-run C09-H3 under the C08 id
    class Proxy:
        def __init__(self, ck):
            self.ck = ck

        def __getattr__(self, k):
            return getattr(self.ck, k)

        def holds(self, rule, *a, **kw):
            self.ck.holds("C08-H3", *a, **kw)

        def violated(self, rule, *a, **kw):
            self.ck.violated("C08-H3", *a, **kw)

        def anchor_lost(self, rule, *a, **kw):
            self.ck.anchor_lost("C08-H3", *a, **kw)
    c09.rule_h3(Proxy(ck), prog)


def h5(ck, prog, S):
    class Proxy:
        def __init__(self, ck):
            self.ck = ck

        def __getattr__(self, k):
            return getattr(self.ck, k)

        def _map(self, rule):
            return "C08-H5" if rule == "C01-I2" else None

        def holds(self, rule, *a, **kw):
            r = self._map(rule)
            if r:
                self.ck.holds(r, *a, **kw)

        def violated(self, rule, *a, **kw):
            r = self._map(rule)
            if r:
                self.ck.violated(r, *a, **kw)

        def undecided(self, rule, *a, **kw):
            r = self._map(rule)
            if r:
                self.ck.undecided(r, *a, **kw)

        def anchor_lost(self, rule, *a, **kw):
            self.ck.anchor_lost("C08-H5", *a, **kw)
    c01.rule_input(Proxy(ck), prog, S)


TECHNIQUE = ("static analysis: sibling rule over the recognisers driven by exact body character sets and path-sensitive cursor "
             "simulation (incomplete token => swallow), decision table of SCPI_Input (flush / execute-on-NL), symbolic amount "
             "pairing, end-of-input guard dataflow, NUL-termination must-pass")
LEVEL_TEXT = ("Necessary structural conditions of chunk independence on all CFG paths. Trace equality between segmentations is "
              "not decided. One sibling (the quoted-string recogniser) violates H1 as the code stands and is recorded as a known "
              "finding.")
LEVEL_NOTE = "Trusted: clang CFG, extractor, spec/char_classes.json. H3/H4/H5 are shared with C09-H3, C01-L1/L2 and C01-I2."
DESIGN_REF = "DESIGN.md section 5, C08"
