"""C11 — the status byte always equals the summary of the registers behind it."""
from sa import cfg as C
from sa import bits as B
from . import common as K
from .regset import RegSetModel, class_names, truth_of, eval_bits

CONFIGS_QUICK = ["A", "B", "E"]
CONFIGS_THOROUGH = ["A", "B", "C", "D", "E"]

EXPLANATION = (
    "Static, clause-level decision of C11. The invariant STB.bit = summary(registers) can only "
    "hold if (S1) registers[] has a single writer, (S2) every register that is an input of a "
    "summary (event, enable, condition of a group with a parent; STB and SRE for MSS - computed "
    "from the two register tables) leads, on every path of its switch arm in SCPI_RegSet on which "
    "the stored value changed, to a recomputation of the parent summary bit, (S3) the tables wire "
    "the groups as the standard says, (S4) the recomputed value is, by truth table over all bit "
    "values, parent | bit when (event & enable) != 0 and parent & ~bit otherwise, and MSS is "
    "((STB&~0x40)&(SRE&~0x40)) != 0, (S5) every insertion into the error queue sets STB.QMA and "
    "every removal is followed, before returning, by the conditional clear (count == 0), and (S6) "
    "in configurations where scpi_bool_t is not _Bool no implicit conversion to it can drop set "
    "bits. These are decided for all register values and all histories because no rule depends on "
    "a runtime value. NOT decided: that user code never writes registers[] behind the API.")

RULES = {
    "C11-S1": "context->registers[] is stored only inside SCPI_RegSet (and zero-filled by SCPI_Init); its address does not escape",
    "C11-S2": "every register class that is an input of a summary reaches a store of the dependent register on every path of its arm",
    "C11-S3": "register/group tables wire ESR/OPER/QUES/STB groups and parent bits as IEEE 488.2 / SCPI prescribe, with fully initialised rows",
    "C11-S4": "recomputed summary == parent|bit iff (event & enable) != 0 (truth table); MSS == ((STB&~0x40)&(SRE&~0x40)) != 0",
    "C11-S7": "bit 2 follows the queue: every queue operation evaluated from every consistent state of a two-entry queue leaves bit 2 set iff the queue is not empty",
    "C11-S5": "error queue insertion is followed by set(STB.QMA); every removal is followed by the conditional clear before returning",
    "C11-S6": "no implicit integral conversion to scpi_bool_t of a value that is not 0/1 where scpi_bool_t is not _Bool",
}


# ------------------------------------------------------------------------------------------
def rule_s1(ck, prog):
    n = 0
    found = 0
    for f in sorted(prog.functions.values(), key=lambda f: (f.relfile, f.line)):
        for m in K.ordinal_sites([x for x in f.nodes.values()
                                  if x.k == "MemberExpr" and x.get("member") == "registers"]):
            found += 1
            # climb through parens / array decay
            cur = m
            par = f.parent_of(cur)
            while par is not None and par.k in ("ParenExpr", "ImplicitCastExpr"):
                cur, par = par, f.parent_of(par)
            st = K.site(f, "registers", n)
            n += 1
            if par is not None and par.k == "ArraySubscriptExpr":
                elem = par
                up = f.parent_of(elem)
                while up is not None and up.k in ("ParenExpr",):
                    elem, up = up, f.parent_of(up)
                if up is not None and C.store_target(up) is not None and C.store_target(up).id == elem.strip().id:
                    if f.name == "SCPI_RegSet":
                        ck.holds("C11-S1", st, K.loc(f, m), "store inside SCPI_RegSet")
                    else:
                        ck.violated("C11-S1", st, K.loc(f, m),
                                    "registers[] written outside SCPI_RegSet: `%s` bypasses summary propagation" % up.src)
                elif up is not None and up.k == "UnaryOperator" and up.get("op") == "&":
                    ck.violated("C11-S1", st, K.loc(f, m), "address of a status register escapes: `%s`" % up.src)
                else:
                    ck.holds("C11-S1", st, K.loc(f, m), "read")
            else:
                ck.violated("C11-S1", st, K.loc(f, m),
                            "registers array used as a whole (`%s`): possible writer outside SCPI_RegSet"
                            % (par.src if par is not None else m.src))
    ck.floor("C11-S1", 3)


def tables(ck, prog, rule):
    d = prog.global_var("scpi_reg_details")
    g = prog.global_var("scpi_reg_group_details")
    if not d or not g or not isinstance(d.get("init"), list) or not isinstance(g.get("init"), list):
        ck.anchor_lost(rule, "register tables scpi_reg_details / scpi_reg_group_details")
        return None
    return d, g


def rule_s3(ck, prog):
    t = tables(ck, prog, "C11-S3")
    if not t:
        return
    d, g = t
    spec = K.load_spec("status_model.json")
    ec = prog.enumconst
    where = "%s:%d" % (d["file"].replace(K.VERIF, ""), d["line"])
    relf = "libscpi/src/ieee488.c"
    nreg, ngrp = ec.get("SCPI_REG_COUNT"), ec.get("SCPI_REG_GROUP_COUNT")
    none = ec.get("SCPI_REG_NONE")
    # complete initialisation
    st = "scpi_reg_details/rows#0"
    rows = d["init"]
    fillers = [i for i, r in enumerate(rows) if not isinstance(r, dict) or r.get("filler") or r.get("zero")]
    if len(rows) != nreg or fillers:
        ck.violated("C11-S3", st, "%s:%d" % (relf, d["line"]),
                    "scpi_reg_details has %d explicit rows for %d registers (rows %s zero-filled => class STB, group STB)"
                    % (len(rows) - len(fillers), nreg, fillers))
    else:
        ck.holds("C11-S3", st, "%s:%d" % (relf, d["line"]), "%d rows for %d registers" % (len(rows), nreg))
    grows = g["init"]
    gf = [i for i, r in enumerate(grows) if not isinstance(r, dict) or r.get("filler") or r.get("zero")]
    st = "scpi_reg_group_details/rows#0"
    if len(grows) != ngrp or gf:
        ck.violated("C11-S3", st, "%s:%d" % (relf, g["line"]), "group table has %d explicit rows for %d groups"
                    % (len(grows) - len(gf), ngrp))
    else:
        ck.holds("C11-S3", st, "%s:%d" % (relf, g["line"]), "%d rows for %d groups" % (len(grows), ngrp))
    if fillers or gf:
        return
    cls = {k: ec.get("SCPI_REG_CLASS_" + k) for k in ("STB", "SRE", "EVEN", "ENAB", "COND", "NTR", "PTR")}
    for gname, sg in spec["groups"].items():
        gi = ec.get("SCPI_REG_GROUP_" + gname)
        st = "scpi_reg_group_details/%s#0" % gname
        if gi is None or gi >= len(grows):
            ck.violated("C11-S3", st, "%s:%d" % (relf, g["line"]), "group %s missing" % gname)
            continue
        row = grows[gi]
        want = {
            "event": ec.get(sg["event"]),
            "enable": ec.get(sg["enable"]),
            "condition": ec.get(sg["condition"]) if sg["condition"] else none,
            "parent_reg": ec.get(sg["parent"]) if sg["parent"] else none,
            "parent_bit": sg["parent_bit"],
        }
        bad = {k: (row.get(k), v) for k, v in want.items() if row.get(k) != v}
        if bad:
            ck.violated("C11-S3", st, "%s:%d" % (relf, g["line"]),
                        "group %s wiring differs from the standard: %s (code, spec)" % (gname, bad))
        else:
            ck.holds("C11-S3", st, "%s:%d" % (relf, g["line"]),
                     "event/enable/condition/parent/parent bit 0x%02x as prescribed" % sg["parent_bit"])
        # back references
        roles = [("event", "EVEN" if gname != "STB" else "STB"),
                 ("enable", "ENAB" if gname != "STB" else "SRE"), ("condition", "COND")]
        for field, c in roles:
            r = row.get(field)
            if r is None or r == none:
                continue
            st2 = "scpi_reg_details/%s.%s#0" % (gname, field)
            if r >= len(rows):
                ck.violated("C11-S3", st2, "%s:%d" % (relf, d["line"]), "register %d out of table" % r)
                continue
            dr = rows[r]
            if dr.get("group") != gi or dr.get("type") != cls[c]:
                ck.violated("C11-S3", st2, "%s:%d" % (relf, d["line"]),
                            "register %s of group %s has (class %s, group %s), expected (%s, %s)"
                            % (K.enum_name(prog, "_scpi_reg_name_t", r), gname,
                               class_names(prog, [dr.get("type")])[0], dr.get("group"), "SCPI_REG_CLASS_" + c, gi))
            else:
                ck.holds("C11-S3", st2, "%s:%d" % (relf, d["line"]), "class %s, group %s" % (c, gname))
    # every register belongs to exactly the group that lists it
    for r, dr in enumerate(rows):
        gi = dr.get("group")
        st3 = "scpi_reg_details/row%d#0" % r
        if gi is None or gi >= len(grows):
            ck.violated("C11-S3", st3, "%s:%d" % (relf, d["line"]), "row %d names group %s" % (r, gi))
            continue
        listed = [k for k in ("event", "enable", "condition", "ptfilt", "ntfilt") if grows[gi].get(k) == r]
        if not listed:
            ck.violated("C11-S3", st3, "%s:%d" % (relf, d["line"]),
                        "register %d claims group %d, which does not list it" % (r, gi))
        else:
            ck.holds("C11-S3", st3, "%s:%d" % (relf, d["line"]), nontrivial=False)


def rule_s2_s4(ck, prog, model):
    fn = model.fn
    t = tables(ck, prog, "C11-S2")
    if not t:
        return
    d, g = t
    ec = prog.enumconst
    none = ec.get("SCPI_REG_NONE")
    stb, sre = ec.get("SCPI_REG_STB"), ec.get("SCPI_REG_SRE")
    cls = {k: ec.get("SCPI_REG_CLASS_" + k) for k in ("STB", "SRE", "EVEN", "ENAB", "COND", "NTR", "PTR")}
    # input classes computed from the tables
    inputs = {}
    for gi, row in enumerate(g["init"]):
        if not isinstance(row, dict):
            continue
        if row.get("parent_reg") not in (None, none):
            for field in ("event", "enable", "condition"):
                r = row.get(field)
                if r not in (None, none) and r < len(d["init"]):
                    inputs.setdefault(d["init"][r].get("type"), []).append(r)
        elif row.get("event") == stb:
            for r in (row.get("event"), row.get("enable")):
                if r not in (None, none):
                    inputs.setdefault(d["init"][r].get("type"), []).append(r)
    regn = lambda r: K.enum_name(prog, "_scpi_reg_name_t", r)
    # loop continuation
    do = [b for b in fn.blocks.values() if b.term_kind == "DoStmt"]
    loop_ok = False
    if len(do) == 1 and do[0].cond is not None:
        c = do[0].cond
        if c.k == "BinaryOperator" and c.get("op") == "!=" and \
                c.child(0).strip_all_casts().get("path") == "register_group.parent_reg" and C.const_of(c.child(1)) == none:
            loop_ok = True
    if not loop_ok:
        ck.undecided("C11-S2", K.site(fn, "loop-condition", 0), K.loc(fn),
                     "propagation loop does not continue on `register_group.parent_reg != SCPI_REG_NONE`")
        return
    # groups that have a condition register must have a parent, else COND -> event is cut
    for gi, row in enumerate(g["init"]):
        if isinstance(row, dict) and row.get("condition") not in (None, none) and row.get("parent_reg") in (None, none):
            ck.violated("C11-S2", K.site(fn, "group%d-condition-without-parent" % gi, 0), K.loc(fn),
                        "group %d has a condition register but no parent: the loop stops before the event is stored" % gi)
    for cval, regs in sorted(inputs.items(), key=lambda kv: str(kv[0])):
        cname = class_names(prog, [cval])[0]
        paths = [p for p in model.paths if cval in p.classes]
        st = K.site(fn, "arm(%s)" % cname, 0)
        if not paths:
            paths = [p for p in model.paths if p.classes in (["default"], ["none"])]
            if not paths:
                ck.violated("C11-S2", st, K.loc(fn),
                            "class %s (registers %s) feeds a summary but has no arm" % (cname, [regn(r) for r in regs]))
                continue
        bad = None
        for p in paths:
            where = K.loc(fn, p.edges[0][0].succs[p.edges[0][1]].label and fn.nodes[p.edges[0][0].succs[p.edges[0][1]].label["node"]]) \
                if p.edges[0][0].succs[p.edges[0][1]].label else K.loc(fn)
            if cval in (cls["STB"], cls["SRE"]):
                # must store STB (MSS) on the path
                if not any(k == "reg:%d" % stb for k, v, n in p.reg_stores):
                    bad = (where, "path leaves the arm without storing MSS into the status byte",
                           [(a.src, pol) for a, pol in p.facts])
            else:
                if p.ends != "loop":
                    bad = (where, "arm returns without recomputing the dependent register: a write to %s leaves "
                           "the status byte stale" % [regn(r) for r in regs], [(a.src, pol) for a, pol in p.facts])
                else:
                    dep = p.sym.get("name")
                    want = "register_group.event" if cval == cls["COND"] else "register_group.parent_reg"
                    if dep != want:
                        bad = (where, "arm continues with `%s`, expected %s" % (dep, want), None)
        if bad:
            ck.violated("C11-S2", st, bad[0], "class %s: %s" % (cname, bad[1]),
                        {"registers": [regn(r) for r in regs], "branches": bad[2]})
        else:
            ck.holds("C11-S2", st, K.loc(fn),
                     "class %s (%s): every path recomputes the dependent register" % (cname, [regn(r) for r in regs]))
    ck.floor("C11-S2", 5)

    # ---- S4 formulas ----
    SRQ = 0x40
    for cval, cname, evleaf, enleaf in (
            (cls["EVEN"], "EVEN", "val", "reg:register_group.enable"),
            (cls["ENAB"], "ENAB", "reg:register_group.event", "val")):
        paths = [p for p in model.paths if cval in p.classes and p.ends == "loop"]
        for n, p in enumerate(paths):
            st = K.site(fn, "summary(%s)" % cname, n)
            # which branch decided summary?
            dec = None
            for a, pol in p.facts:
                tv = p.btruth.get(a.id) or truth_of(p, a)
                if tv is not None and a.get("path") in p.truth or (tv is not None and a.k != "BinaryOperator"):
                    dec = (a, pol, tv)
            if dec is None:
                # take the last fact (its truth function as it was when the branch was taken)
                if p.facts:
                    a, pol = p.facts[-1]
                    tv = p.btruth.get(a.id) or truth_of(p, a)
                    dec = (a, pol, tv)
            if dec is None or dec[2] is None:
                ck.undecided("C11-S4", st, K.loc(fn), "cannot find the summary decision on this path")
                continue
            a, pol, (leaves, f) = dec
            no_enable = any(atom.k == "BinaryOperator" and atom.get("op") in ("!=", "==") and
                            atom.child(0).strip_all_casts().get("path") == "register_group.enable" and
                            ((atom["op"] == "!=") != apol)
                            for c0, p0 in p.facts for atom, apol in C.cond_facts(c0, p0))
            if no_enable and cname == "EVEN":
                specs = lambda x: x[evleaf]
            else:
                specs = lambda x: x[evleaf] & x[enleaf]
            okk, wit = B.equivalent(set(leaves) | {evleaf, enleaf}, f, specs)
            if not okk:
                ck.violated("C11-S4", st, K.loc(fn, a),
                            "%s arm: summary condition `%s` is not (event & enable) != 0" % (cname, a.src),
                            {"witness": wit})
                continue
            v = p.env.get("val")
            if v is None:
                ck.undecided("C11-S4", st, K.loc(fn, a), "value carried to the parent register is not bitwise")
                continue
            pl, pf = v
            par, bit = "reg:register_group.parent_reg", "register_group.parent_bit"
            if pol:
                spec2 = lambda x: x[par] | x[bit]
            else:
                spec2 = lambda x: x[par] & ~x[bit]
            ok2, wit2 = B.equivalent(set(pl) | {par, bit}, pf, spec2)
            if ok2:
                ck.holds("C11-S4", st, K.loc(fn, a),
                         "%s arm, summary %s: parent := parent %s bit" % (cname, pol, "|" if pol else "& ~"))
            else:
                ck.violated("C11-S4", st, K.loc(fn, a),
                            "%s arm, summary %s: value stored to the parent is not parent %s parent_bit"
                            % (cname, pol, "|" if pol else "& ~"), {"witness": wit2})
    # MSS
    for cval, cname in ((cls["STB"], "STB"), (cls["SRE"], "SRE")):
        for n, p in enumerate([p for p in model.paths if cval in p.classes]):
            st = K.site(fn, "MSS(%s)" % cname, n)
            mss = None
            for ev in p.events:
                if ev[0] == "branch":
                    a, pol = ev[1]
                    tv = truth_of(p, a)
                    if tv is None:
                        continue
                    leaves, f = tv
                    k1, k2 = "reg:%d" % stb, "reg:%d" % sre
                    okk, _ = B.equivalent(set(leaves) | {k1, k2}, f, lambda x: (x[k1] & ~SRQ) & (x[k2] & ~SRQ))
                    if okk:
                        mss = (a, pol)
                        break
            if mss is None:
                ck.violated("C11-S4", st, K.loc(fn),
                            "%s arm: no decision on ((STB & ~0x40) & (SRE & ~0x40)) != 0 on this path" % cname)
                continue
            # first store to STB after the decision, evaluated against the STB leaf
            stores = [(k, v, nn) for k, v, nn in p.reg_stores if k == "reg:%d" % stb]
            if not stores:
                continue  # reported by S2
            k, v, nn = stores[0]
            if v is None:
                ck.undecided("C11-S4", st, K.loc(fn, nn), "MSS store is not bitwise")
                continue
            leaves, f = v
            kk = "reg:%d" % stb
            spec3 = (lambda x: x[kk] | SRQ) if mss[1] else (lambda x: x[kk] & ~SRQ)
            okk, wit = B.equivalent(set(leaves) | {kk}, f, spec3)
            if okk:
                ck.holds("C11-S4", st, K.loc(fn, nn), "MSS %s on the %s edge" % ("set" if mss[1] else "cleared", mss[1]))
            else:
                ck.violated("C11-S4", st, K.loc(fn, nn),
                            "MSS is not %s on the %s edge of the summary test" % ("set" if mss[1] else "cleared", mss[1]),
                            {"witness": wit})
    ck.floor("C11-S4", 6)


def rule_s5(ck, prog, S):
    ec = prog.enumconst
    stb = ec.get("SCPI_REG_STB")
    QMA = 0x04
    got = K.need(ck, prog, "C11-S5", "SCPI_ErrorPushEx", "SCPI_ErrorEmit", "SCPI_ErrorEmitEmpty",
                 "SCPI_ErrorCount")
    if not got:
        return
    push, emit, empty, count = got

    def is_queue(call):
        a = C.call_args(call)
        return bool(a) and "error_queue" in (a[0].strip_all_casts().get("path") or "")

    # WHO: fifo_* on the error queue only from error.c
    n = 0
    for f in prog.functions.values():
        for call in f.calls():
            if (call.get("callee") or "").startswith("fifo_") and is_queue(call):
                if not f.relfile.endswith("error.c"):
                    ck.violated("C11-S5", K.site(f, call["callee"], n), K.loc(f, call),
                                "error queue manipulated outside error.c: QMA bookkeeping bypassed")
                    n += 1
    # SCPI_ErrorEmit sets QMA on every path
    pg = S.pg(emit)
    sets = [c for c in emit.calls("SCPI_RegSetBits")
            if C.const_of(K.arg(c, 1)) == stb and C.const_of(K.arg(c, 2)) == QMA]
    st = K.site(emit, "set(QMA)", 0)
    if not sets:
        ck.violated("C11-S5", st, K.loc(emit), "SCPI_ErrorEmit does not set STB.QMA")
    else:
        reach = pg.reachable([pg.entry], blocked_edge=lambda e: e.kind == "elem" and e.node in sets)
        if pg.exit in reach:
            ck.violated("C11-S5", st, K.loc(emit, sets[0]), "a path of SCPI_ErrorEmit skips set(STB.QMA)")
        else:
            ck.holds("C11-S5", st, K.loc(emit, sets[0]), "set(STB.QMA) on every path")
    # every insertion path reaches SCPI_ErrorEmit
    pgp = S.pg(push)
    emits = [c for c in push.calls("SCPI_ErrorEmit")]
    for i, a in enumerate(K.ordinal_sites(list(push.calls("SCPI_ErrorAddInternal")))):
        st = K.site(push, "insert->emit", i)
        reach = pgp.reachable([pgp.after(a)], blocked_edge=lambda e: e.kind == "elem" and e.node in emits)
        if pgp.exit in reach:
            ck.violated("C11-S5", st, K.loc(push, a), "an error can be queued without setting STB.QMA")
        else:
            ck.holds("C11-S5", st, K.loc(push, a), "SCPI_ErrorEmit on every path after the insertion")
    # SCPI_ErrorEmitEmpty: clear(QMA) reached whenever count == 0 (and QMA set)
    clears = [c for c in empty.calls("SCPI_RegClearBits")
              if C.const_of(K.arg(c, 1)) == stb and C.const_of(K.arg(c, 2)) == QMA]
    st = K.site(empty, "clear(QMA)", 0)
    if not clears:
        ck.violated("C11-S5", st, K.loc(empty), "SCPI_ErrorEmitEmpty does not clear STB.QMA")
    else:
        facts = K.facts_at(S, empty, clears[0]) or []
        rf = K.rel_facts(facts)
        cnt_key = "call:SCPI_ErrorCount(context)"
        okc = K.holds_rel(rf, cnt_key, "==", 0) or K.holds_rel(rf, cnt_key, "<=", 0)
        extra = []
        for atom, pol in facts:
            if isinstance(pol, tuple):
                extra.append(atom.src)
                continue
            mentions_count = any(x.k == "CallExpr" and x.get("callee") == "SCPI_ErrorCount" for x in atom.walk())
            mentions_qma = any(x.k == "CallExpr" and x.get("callee") == "SCPI_RegGet" for x in atom.walk()) and \
                any(C.const_of(x) == QMA for x in atom.walk() if x.k in ("IntegerLiteral", "ImplicitCastExpr", "DeclRefExpr", "ParenExpr"))
            if atom.k == "BinaryOperator" and atom.get("op") in ("&&", "||"):
                continue
            if mentions_count or mentions_qma:
                continue   # the count test itself (any spelling) / "QMA currently set" (clearing is a no-op otherwise)
            extra.append(atom.src)
        if okc and not extra:
            ck.holds("C11-S5", st, K.loc(empty, clears[0]), "clear(STB.QMA) guarded exactly by count == 0 [and QMA set]")
        else:
            ck.violated("C11-S5", st, K.loc(empty, clears[0]),
                        "clear(STB.QMA) is guarded by %s; it must happen exactly when the queue count is 0"
                        % ([a.src for a, p in facts]), {"unexpected": extra, "count_test": okc})
    # SCPI_ErrorCount returns the ring's count
    fc = list(count.calls("fifo_count"))
    st = K.site(count, "fifo_count", 0)
    if fc and is_queue(fc[0]):
        ck.holds("C11-S5", st, K.loc(count, fc[0]), "SCPI_ErrorCount reads the queue's count")
    else:
        ck.violated("C11-S5", st, K.loc(count), "SCPI_ErrorCount does not read the error queue's count")
    # removals: after the last removal on every path, SCPI_ErrorEmitEmpty before return
    n = 0
    for f in sorted(prog.functions.values(), key=lambda f: (f.relfile, f.line)):
        rem = [c for c in f.calls() if c.get("callee") in ("fifo_remove", "fifo_clear", "fifo_remove_last", "fifo_init")
               and is_queue(c)]
        if not rem:
            continue
        ck.analysed(f)
        pgf = S.pg(f)
        ee = [c for c in f.calls("SCPI_ErrorEmitEmpty")]
        adds = [c for c in f.calls("fifo_add") if is_queue(c)]
        for call in K.ordinal_sites(rem):
            st = K.site(f, call["callee"], n)
            n += 1
            if call["callee"] == "fifo_clear":
                facts = K.facts_at(S, f, call) or []
                drained = any(atom.k == "CallExpr" and atom.get("callee") == "fifo_remove" and pol is False
                              and is_queue(atom) for atom, pol in facts)
                if drained:
                    ck.holds("C11-S5", st, K.loc(f, call),
                             "fifo_clear on a queue already drained (false edge of the fifo_remove loop): no removal")
                    continue
            if call["callee"] == "fifo_remove_last":
                # replaced by an insertion on every path (overflow arm): count unchanged, QMA stays
                reach = pgf.reachable([pgf.after(call)], blocked_edge=lambda e: e.kind == "elem" and e.node in adds)
                if pgf.exit not in reach:
                    ck.holds("C11-S5", st, K.loc(f, call), "fifo_remove_last is always followed by fifo_add")
                    continue
            reach = pgf.reachable([pgf.after(call)], blocked_edge=lambda e: e.kind == "elem" and e.node in ee)
            if pgf.exit in reach:
                path = pgf.find_path([pgf.after(call)], lambda p: p == pgf.exit,
                                     blocked_edge=lambda e: e.kind == "elem" and e.node in ee)
                ck.violated("C11-S5", st, K.loc(f, call),
                            "%s can return after %s without re-evaluating STB.QMA (SCPI_ErrorEmitEmpty): the "
                            "error-available bit stays set on an empty queue" % (f.name, call["callee"]),
                            {"path": pgf.describe_path(path or [])})
            else:
                ck.holds("C11-S5", st, K.loc(f, call), "SCPI_ErrorEmitEmpty on every path after the removal")
    ck.floor("C11-S5", 6)


BOOL01_OPS = {"==", "!=", "<", ">", "<=", ">=", "&&", "||"}


def is01(n):
    s = n.strip()
    if "cv" in s and s["cv"] in (0, 1):
        return True
    if s.k == "BinaryOperator" and s.get("op") in BOOL01_OPS:
        return True
    if s.k == "UnaryOperator" and s.get("op") == "!":
        return True
    if s.get("t") in ("scpi_bool_t", "bool", "_Bool"):
        return True
    if s.k == "ConditionalOperator":
        return is01(s.child(1)) and is01(s.child(2))
    if s.k == "CStyleCastExpr" and s.get("t") in ("scpi_bool_t", "bool"):
        return is01(s.child(0))
    if s.k == "BinaryOperator" and s.get("op") in ("&", "|", "^") and is01(s.child(0)) and is01(s.child(1)):
        return True
    if s.k == "BinaryOperator" and s.get("op") == "&" and (is01(s.child(0)) or is01(s.child(1))):
        return True
    if s.k == "BinaryOperator" and s.get("op") == "=":
        return is01(s.child(1))
    return False


def rule_s6(ck, prog):
    bt = prog.typedefs.get("scpi_bool_t")
    if bt is None:
        ck.anchor_lost("C11-S6", "typedef scpi_bool_t")
        return
    if bt.get("tk") == "bool":
        ck.holds("C11-S6", "scpi_bool_t/_Bool#0", "libscpi/inc/scpi/types.h:0",
                 "scpi_bool_t is _Bool in this configuration: conversions compare with zero", nontrivial=False)
        return
    n = 0
    total = 0
    for f in sorted(prog.functions.values(), key=lambda f: (f.relfile, f.line)):
        ords = {}
        for c in K.ordinal_sites([x for x in f.nodes.values()
                                  if x.k == "ImplicitCastExpr" and x.get("ck") == "IntegralCast"
                                  and x.get("t") in ("scpi_bool_t", "bool")]):
            op = c.child(0)
            if op.get("bits", 0) <= c.get("bits", 8):
                continue
            total += 1
            k = ords.get(f.name, 0)
            ords[f.name] = k + 1
            st = K.site(f, "to-scpi_bool_t", k)
            if is01(op):
                ck.holds("C11-S6", st, K.loc(f, c), "operand `%s` is 0/1" % op.src)
            else:
                ck.violated("C11-S6", st, K.loc(f, c),
                            "`%s` (%d bits) is implicitly converted to scpi_bool_t = %s: only the low %d bits "
                            "survive, a value with bits above them reads as FALSE"
                            % (op.src, op.get("bits", 0), bt.get("ct"), c.get("bits", 8)), {"expr": op.src})
        ck.analysed(f)
    ck.floor("C11-S6", 5)


def rule_s7(ck, prog, tier):
    """Bit 2 follows the queue, as an inductive check by evaluation (sa/interp.py): from every consistent state of a
    two-entry queue (0, 1 or 2 errors queued, bit 2 set iff not empty) each queue operation - push of every error code,
    pop, clear, re-initialisation - is evaluated on the real register and queue objects, and the state it leaves must be
    consistent again.  Independent of how the set / conditional-clear helpers are split or named."""
    from sa import interp as I
    ec = prog.enumconst
    stb = ec.get("SCPI_REG_STB")
    push, pop, clr, init = (prog.fn(n_) for n_ in ("SCPI_ErrorPushEx", "SCPI_ErrorPop", "SCPI_ErrorClear", "SCPI_ErrorInit"))
    if stb is None or push is None or pop is None or clr is None or "_scpi_t" not in prog.records:
        return
    QMA = 0x04
    st = K.site(push, "error-available-follows-queue", 0)

    def mkctx(count):
        ctx = I.zero_object(prog, {"tk": "record", "ct": "struct _scpi_t"})
        q = ctx["error_queue"]
        q["size"], q["count"], q["wr"], q["rd"] = 2, count, count % 2, 0
        slots = [I.zero_object(prog, {"tk": "record", "ct": "struct _scpi_error_t"}) for _ in range(2)]
        for i_, e_ in enumerate(slots):
            e_["error_code"] = -100 - i_
        q["data"] = I.Ptr(slots, 0)
        ctx["registers"][stb] = QMA if count else 0
        return ctx

    def consistent(ctx):
        return bool(ctx["registers"][stb] & QMA) == (ctx["error_queue"]["count"] != 0)
    lo, hi = -32768, 32767
    codes = sorted(K.breakpoints(prog, push, lo, hi) | {0, 1, -1})
    bad = None
    nrun = 0
    try:
        for count in (0, 1, 2):
            for code in codes:
                ctx = mkctx(count)
                I.Machine(prog, max_steps=10 ** 8).run(push, [I.Ptr([ctx], 0), code, 0, 0])
                nrun += 1
                if not consistent(ctx):
                    bad = bad or "after SCPI_ErrorPushEx(ctx, %d) onto %d queued errors: %d queued, status byte 0x%02x" % (
                        code, count, ctx["error_queue"]["count"], ctx["registers"][stb])
            for fn_, label, mk in ((pop, "SCPI_ErrorPop", lambda c_: [I.Ptr([c_], 0), I.Ptr([I.zero_object(prog, {"tk": "record", "ct": "struct _scpi_error_t"})], 0)]),
                                   (clr, "SCPI_ErrorClear", lambda c_: [I.Ptr([c_], 0)])):
                ctx = mkctx(count)
                I.Machine(prog, max_steps=10 ** 8).run(fn_, mk(ctx))
                nrun += 1
                if not consistent(ctx):
                    bad = bad or "after %s with %d queued errors: %d queued, status byte 0x%02x" % (
                        label, count, ctx["error_queue"]["count"], ctx["registers"][stb])
            if init is not None:
                ctx = mkctx(count)
                fresh = [I.zero_object(prog, {"tk": "record", "ct": "struct _scpi_error_t"}) for _ in range(2)]
                I.Machine(prog, max_steps=10 ** 8).run(init, [I.Ptr([ctx], 0), I.Ptr(fresh, 0), 2])
                nrun += 1
                if not consistent(ctx):
                    bad = bad or "after SCPI_ErrorInit on a context with %d queued errors: %d queued, status byte 0x%02x" % (
                        count, ctx["error_queue"]["count"], ctx["registers"][stb])
    except I.Stuck as e:
        ck.assume("C11-S7: the queue operations could not be evaluated (%s); bit 2 is decided by the structural pairing rule S5 only" % e)
        return False
    ck.analysed(push, pop, clr)
    if bad:
        ck.violated("C11-S7", st, K.loc(push), "status-byte bit 2 does not follow the error queue: %s" % bad)
    else:
        ck.holds("C11-S7", st, K.loc(push), "%d evaluations from the three consistent states of a two-entry queue (push of %d codes, pop, "
                 "clear, init): bit 2 set iff the queue is not empty afterwards" % (nrun, len(codes)))
    return True


def run(ck, fb, tier):
    for cfg in fb.configs:
        ck.config = cfg
        prog = fb[cfg]
        S = K.summaries(prog)
        if cfg in ("A",) or tier == "thorough":
            rule_s1(ck, prog)
            rule_s3(ck, prog)
            got = K.need(ck, prog, "C11-S2", "SCPI_RegSet")
            if got:
                model = RegSetModel(got[0], prog)
                if model.problems:
                    for pr in model.problems:
                        ck.anchor_lost("C11-S2", pr)
                else:
                    rule_s2_s4(ck, prog, model)
        if cfg in ("A", "B") or tier == "thorough":
            evaluated = rule_s7(ck, prog, tier)
            # the structural pairing rule names the two helpers; when they are gone (merged, inlined) and the evaluation
            # above decided the same clause, their absence is not a lost anchor
            if evaluated and not all(prog.fn(n_) is not None for n_ in ("SCPI_ErrorEmit", "SCPI_ErrorEmitEmpty")):
                pass
            else:
                rule_s5(ck, prog, S)
        if cfg == "E" or tier == "thorough":
            rule_s6(ck, prog)
    ck.trust("spec/status_model.json transcribes IEEE 488.2 ch.11 / SCPI STATus wiring correctly")
    ck.assume("user code does not write context->registers[] directly (outside the property's history alphabet)")


TECHNIQUE = ("static analysis: who-may-write index, table audit, per-arm path enumeration of SCPI_RegSet with "
             "truth-table equivalence of the bitwise summary formulas, must-pass-through for QMA pairing, "
             "per-configuration type rule on conversions to scpi_bool_t")
LEVEL_TEXT = ("Clause-level static decision: necessary structural conditions of the STB invariant (single writer, "
              "propagation completeness per register class computed from the tables, wiring, summary/MSS formulas by "
              "truth table for all bit values, QMA set/clear pairing on all paths, no truncating bool conversion in "
              "the c89 configuration). Not a proof of the invariant over histories, but each rule is independent of "
              "runtime values, so a violation of any is a violation for some history and a pass covers all histories "
              "for that clause.")
LEVEL_NOTE = ("Trusted: clang front end/CFG, extractor, spec/status_model.json. Assumes user code does not write "
              "registers[] directly. fifo internals are covered under C10.")
DESIGN_REF = "DESIGN.md section 5, C11"
