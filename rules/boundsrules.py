"""Driver for the bounds engine: runs sa/bounds.py on one function and records one rule instance
per write site."""
from sa import bounds as B
from . import common as K

_SPEC = None


def spec():
    global _SPEC
    if _SPEC is None:
        _SPEC = K.load_spec("bounds.json")
    return _SPEC


def caps_for(prog, fname, extra=None):
    caps = {}
    for k, v in spec()["capacities"].get(fname, {}).items():
        if isinstance(v, str) and v in prog.enumconst:
            v = prog.enumconst[v]
        elif isinstance(v, str) and v in prog.macros and prog.macros[v].isdigit():
            v = int(prog.macros[v])
        caps[k] = v
    caps.update(extra or {})
    return caps


def check_function(ck, prog, rule, fname, extra_caps=None, assume=None, min_sites=1, only=None, _depth=0, returns_length_of=None):
    f = prog.fn(fname)
    if f is None:
        ck.anchor_lost(rule, "function %s not found" % fname)
        return None
    ck.analysed(f)
    an = B.Analysis(prog, f, caps_for(prog, fname, extra_caps), spec()["contracts"], assume=assume)
    delegated = set()
    if returns_length_of:
        # the value returned is the length of the string left in that buffer, whenever the engine knows that length exactly
        from sa.linear import le as _le
        orig = an.do_elem

        def hook(st, n, orig=orig, an=an, key=returns_length_of):
            if n.k == "ReturnStmt" and n.ch:
                e_ = n.child(0).strip_all_casts()
                g_ = prog.fn(e_.get("callee") or "") if e_.k == "CallExpr" else None
                if g_ is not None and g_.static and key in [a_.strip_all_casts().get("path") for a_ in B.C.call_args(e_)]:
                    # `return helper(..., buf, cap)`: the helper owes the same obligation for its own parameter (checked below)
                    delegated.add(g_.name)
                    return orig(st, n)
                v = an.value(st, n.child(0))
                cur = st.slen.get(key)
                if v is not None and cur is not None and cur[0] == "eq":
                    what = "the length returned equals the length of the string written"
                    an.oblige_fact(st, n, "return", _le(v, cur[1]), what, key=("retlen", n.id))
                    an.oblige_fact(st, n, "return", _le(cur[1], v), what, key=("retlen", n.id))
                elif v is not None and cur is not None and cur[0] == "le":
                    what = "the length returned does not exceed the length the string can have"
                    an.oblige_fact(st, n, "return", _le(v, cur[1]), what, key=("retlen", n.id))
                elif v is not None and cur is None:
                    # nothing is known about a NUL in the buffer: fine only if the result cannot be shorter than the buffer
                    # (paths taken because an argument pointer is NULL are not calls the property speaks about)
                    cap = an.cap_of(st, key)
                    nullpath = False
                    for nid, pol in st.decisions.items():
                        nd = f.nodes.get(nid)
                        if nd is None:
                            continue
                        x = nd.strip_all_casts()
                        neg = False
                        while x.k == "UnaryOperator" and x.get("op") == "!":
                            neg = not neg
                            x = x.child(0).strip_all_casts()
                        if x.k == "DeclRefExpr" and x.get("decl", {}).get("kind") == "param" and x.get("tk") == "ptr" and (pol == neg):
                            nullpath = True
                    if cap is not None and not nullpath:
                        what = "a NUL terminates the result whenever it is shorter than the buffer"
                        an.oblige_fact(st, n, "return", _le(cap, v), what, key=("retnul", n.id))
            return orig(st, n)
        an.do_elem = hook
    try:
        sites = an.run()
    except RecursionError:
        ck.undecided(rule, K.site(f, "bounds", 0), K.loc(f), "path explosion")
        return None
    ordered = sorted(sites.values(), key=lambda s: (s.node.get("line", 0), s.node.get("col", 0), s.node.id))
    n = 0
    occ = {}
    for i, s in enumerate(ordered):
        if only is not None and not only(s):
            continue
        v, r = s.verdict()
        label = "%s:%s" % (s.kind, s.what.replace(" ", "")[:48])
        k = occ.get(label, 0)
        occ[label] = k + 1
        st = K.site(f, label, k)
        n += 1
        if v == "HOLDS":
            ck.holds(rule, st, K.loc(f, s.node), "`%s` stays inside its buffer on all %d paths reaching it" % (s.what[:70], len(s.results)))
        elif v == "VIOLATED" and s.kind in ("return", "arith", "contract", "exit"):
            ck.violated(rule, st, K.loc(f, s.node), "not guaranteed: %s; witness %s" % (r[3], r[5]),
                        {"obligation": r[3], "facts": r[4], "witness": r[5]})
        elif v == "VIOLATED":
            ck.violated(rule, st, K.loc(f, s.node),
                        "`%s` can %s outside its buffer: %s; witness %s" % (s.what[:80], "read" if s.kind in ("load", "read") else "write", r[3], r[5]),
                        {"obligation": r[3], "facts": r[4], "witness": r[5]})
        elif v == "UNDECIDED":
            ck.undecided(rule, st, K.loc(f, s.node), "`%s`: %s" % (s.what[:80], r[3]), {"facts": r[4]})
    # static helpers that receive one of the tracked (buffer, capacity) pairs are part of this function's obligation
    if _depth < 2:
        caps = caps_for(prog, fname, extra_caps)
        for c in f.calls():
            g = prog.fn(c.get("callee") or "")
            if g is None or not g.static or g.name == f.name or c.get("callee") in spec()["contracts"]:
                continue
            args = [a.strip_all_casts().get("path") for a in B.C.call_args(c)]
            sub = {}
            for key, cap in caps.items():
                if key in args and isinstance(cap, str) and cap in args and len(g.params) >= len(args):
                    sub[g.params[args.index(key)]["name"]] = g.params[args.index(cap)]["name"]
                elif key in args and isinstance(cap, int):
                    sub[g.params[args.index(key)]["name"]] = cap
            if sub:
                before = len(ck.instances)
                pre = []
                for i_, flags in an.call_lb.get(c.id, {}).items():
                    if flags and all(flags) and i_ < len(g.params) and g.params[i_]["type"].get("tk") in ("int", "enum", "bool"):
                        pre.append((g.params[i_]["name"], ">=", 1))
                rl = None
                if g.name in delegated and returns_length_of in args:
                    rl = g.params[args.index(returns_length_of)]["name"]
                check_function(ck, prog, rule, g.name, extra_caps=sub, assume=pre or None, min_sites=0, only=only, _depth=_depth + 1,
                               returns_length_of=rl)
                n += sum(1 for i in ck.instances[before:] if i.rule == rule)
    if n < min_sites:
        ck.anchor_lost(rule, "%s: only %d write sites found (expected >= %d)" % (fname, n, min_sites))
    return an
