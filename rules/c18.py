"""C18 — the error query always yields one well-formed, bounded error response."""
from sa import cfg as C
from sa import bounds as B
from sa import paths as P
from sa.linear import Lin, le
from . import common as K
from . import boundsrules as BR
from .c10 import typestate_function

CONFIGS_QUICK = ["A", "C", "E", "H"]
CONFIGS_THOROUGH = ["A", "B", "C", "D", "E", "H"]

EXPLANATION = (
    "Static, clause-level decision of C18. (K1) every path of SCPI_ErrorTranslate returns a string "
    "literal (default arm: the fall-back description). (K2) budget accounting in SCPI_ResultError, "
    "decided with the bounds engine and a ghost counter W of the bytes handed to the output between "
    "the opening and the closing quote: the conservation invariant W + outputlimit <= 255 is "
    "verified inductive over the part loop and the quote loop, every decrement of the unsigned "
    "budget is proved not to wrap (a wrap would lift the limit), and W <= 255 holds at the closing "
    "quote - for every text and every position of quotes. (K3) quoting: the opening quote precedes "
    "every content write, every write of a chunk that ends in a found '\"' is followed on every "
    "continuing path by the write of one more '\"', and a closing quote is written on every path. "
    "(K4) SCPI_SystemErrorNextQ pops, prints, then releases on every path (ownership typestate "
    "shared with C10). Parts arrays are indexed below their declared size. NOT decided: 'cut as "
    "late as the limit allows' (optimality).")

RULES = {
    "C18-N": "no integer on this property's data path is narrowed by an implicit conversion (parameter handed to a narrower parameter, stored in a narrower field, or a narrow field behind a wider accessor)",
    "C18-K9": "SCPI_ErrorPushEx queues the text it was given, unshortened: the length that reaches the queue is the caller's, or - for length 0 - strnlen(text, SCPI_STD_ERROR_DESC_MAX_STRING_LENGTH); the only cut is the one SCPI_ResultError makes at the 255-character limit (so the text is cut as late as the limit allows)",
    "C18-K1": "SCPI_ErrorTranslate returns a non-NULL, non-empty string for every code; every code the header lists translates to its own text and every other code to the one fallback description",
    "C18-K2": "bytes written between the quotes never exceed the 255-character budget: conservation invariant, no unsigned wrap of the budget",
    "C18-K3": "opening quote first, every emitted inner quote doubled, closing quote on every path",
    "C18-K4": "SYSTem:ERRor? pops one entry, prints it, then releases its text, on every path",
    "C18-K6": "(static-heap build) the text handed to the response is the stored one: copies are consecutive pieces of the pushed text, the read-out measures each part up to the end of the heap (shared with C20-H2 / C20-H1c)",
    "C18-K7": "the ';' between description and text is written exactly for part index 1 (a text stored in two heap pieces gets no second separator)",
    "C18-K8": "(builds without strndup) the stored copy of a device-dependent text is terminated by the duplicator itself and stays inside its allocation (shared with C10-Q7)",
    "C18-K5": "description/length part arrays are indexed below their declared size",
}


def rule_k1(ck, prog):
    got = K.need(ck, prog, "C18-K1", "SCPI_ErrorTranslate")
    if not got:
        return
    f = got[0]
    st = K.site(f, "total", 0)
    # the description for every error code, by evaluating the function (a switch, an if-chain or a table with a search loop):
    # over the regions its constants cut the int16 domain into (quick) or over all 65536 codes (thorough)
    from sa import interp as I
    import re
    lo, hi = -32768, 32767

    def macro_int(name, depth=0):
        v = prog.macros.get(name)
        while v is not None and depth < 6:
            v = v.strip().strip("()")
            try:
                return int(v, 0)
            except ValueError:
                v, depth = prog.macros.get(v), depth + 1
        return None
    # the table the header lists (X-macro rows: name, code, text); XE rows belong to the full list only
    listed = {}
    body = prog.macros.get("LIST_OF_ERRORS")
    if body is None:
        ck.anchor_lost("C18-K1", "macro LIST_OF_ERRORS")
        return
    full = macro_int("USE_FULL_ERROR_LIST")
    rows = re.findall(r'\b(XE?)\(\s*(\w+)\s*,\s*(-?\d+)\s*,\s*"((?:[^"\\\\]|\\\\.)*)"\s*\)', body)
    if macro_int("USE_USER_ERROR_LIST"):
        rows += re.findall(r'\b(X)\(\s*(\w+)\s*,\s*(-?\d+)\s*,\s*"((?:[^"\\\\]|\\\\.)*)"\s*\)', prog.macros.get("LIST_OF_USER_ERRORS") or "")
    for kind, name, val, text in rows:
        if kind == "X" or full:
            listed.setdefault(int(val), text)
    if len(listed) < 10 or full is None:
        ck.anchor_lost("C18-K1", "rows of LIST_OF_ERRORS (%d parsed, USE_FULL_ERROR_LIST=%s)" % (len(listed), full))
        return
    if getattr(ck, "tier", "quick") == "thorough":
        dom = range(lo, hi + 1)
    else:
        pts = set(K.breakpoints(prog, f, lo, hi))
        for c in listed:
            pts.update(x for x in (c - 1, c, c + 1) if lo <= x <= hi)
        dom = sorted(pts)
    m = I.Machine(prog, max_steps=10 ** 9)
    bad = None
    n_ok = 0
    texts = {}
    for code in dom:
        try:
            v = m.run(f, [code])
            t = I.as_text(v)
        except I.Stuck as e:
            ck.undecided("C18-K1", st, K.loc(f), "SCPI_ErrorTranslate(%d) cannot be evaluated: %s" % (code, e))
            ck.analysed(f)
            return
        if t is None or t == "":
            bad = (code, t)
            break
        texts[code] = t
        n_ok += 1
    if bad:
        ck.violated("C18-K1", st, K.loc(f), "error code %d has %s description: the response to the error query has no text and "
                    "the length computation reads through it" % (bad[0], "a NULL" if bad[1] is None else "an empty"))
    else:
        ck.holds("C18-K1", st, K.loc(f), "%d codes evaluated (%s), %d distinct non-empty descriptions incl. the fallback"
                 % (n_ok, "whole int16 domain" if len(dom) == 65536 else "every region between the constants the function compares with, "
                    "every listed code and its neighbours", len(set(texts.values()))))
        # every listed code answers with its own text, every other code with the one fallback
        st2 = K.site(f, "table-entries-reachable", 0)
        wrong = [(c, texts[c], listed[c]) for c in sorted(listed, reverse=True) if c in texts and texts[c] != listed[c]]
        other = {}
        for c, t in texts.items():
            if c not in listed:
                other.setdefault(t, []).append(c)
        if wrong:
            c, got_, want_ = wrong[0]
            ck.violated("C18-K1", st2, K.loc(f), "code %d is listed with the description \"%s\" but translates to \"%s\"%s"
                        % (c, want_, got_, "" if len(wrong) == 1 else " (and %d more listed codes)" % (len(wrong) - 1)))
        elif len(other) > 1:
            ck.violated("C18-K1", st2, K.loc(f), "codes without a table entry do not share one fallback description: %s"
                        % {t: cs[:3] for t, cs in sorted(other.items())})
        else:
            ck.holds("C18-K1", st2, K.loc(f), "%d listed codes translate to their own text; every other evaluated code to %s"
                     % (len(listed), sorted(other)))
    ck.analysed(f)


def rule_k9(ck, prog, S):
    f = prog.fn("SCPI_ErrorPushEx")
    if f is None or len(f.params) < 4:
        ck.anchor_lost("C18-K9", "SCPI_ErrorPushEx")
        return
    ck.analysed(f)
    st = K.site(f, "text-queued-unshortened", 0)
    infop, lenp = f.params[2]["name"], f.params[3]["name"]
    try:
        limit = int(prog.macros.get("SCPI_STD_ERROR_DESC_MAX_STRING_LENGTH"))
    except (TypeError, ValueError):
        ck.anchor_lost("C18-K9", "macro SCPI_STD_ERROR_DESC_MAX_STRING_LENGTH")
        return
    # where the text is duplicated for the queue: in SCPI_ErrorPushEx itself or in a helper on every path of which it happens
    DUPS = {"strndup": (0, 1), "__strndup": (0, 1), "OUR_strndup": (0, 1), "scpiheap_strndup": (1, 2)}

    def find_dup(fn_, depth=0):
        """[(call chain from SCPI_ErrorPushEx down to the duplicator call)]"""
        out = []
        for c in fn_.calls():
            if c.get("callee") in DUPS:
                out.append([(fn_, c)])
            else:
                g = prog.fn(c.get("callee") or "")
                if g is not None and g.static and depth < 2 and g.name != fn_.name:
                    out += [[(fn_, c)] + ch for ch in find_dup(g, depth + 1)]
        return out
    chains = find_dup(f)
    if not chains:
        if prog.macros.get("USE_DEVICE_DEPENDENT_ERROR_INFORMATION", "1").strip() in ("0",):
            ck.holds("C18-K9", st, K.loc(f), "no device-dependent text in this configuration", nontrivial=False)
        else:
            ck.anchor_lost("C18-K9", "no text duplication reachable from SCPI_ErrorPushEx")
        return
    probs = []

    def back(chain, arg):
        """the duplicator argument expressed in SCPI_ErrorPushEx's terms (None when it is not a plain hand-down)"""
        node = arg
        for k in range(len(chain) - 1, 0, -1):
            host = chain[k][0]
            pth = node.strip_all_casts().get("path")
            names = [q["name"] for q in host.params]
            if pth not in names or any(t.get("path") == pth for _n, t in C.stores(host)):
                return None
            node = K.arg(chain[k - 1][1], names.index(pth))
            if node is None:
                return None
        return node
    for chain in chains:
        dup = chain[-1][1]
        ti, li = DUPS[dup["callee"]]
        t0, l0 = back(chain, K.arg(dup, ti)), back(chain, K.arg(dup, li))
        if t0 is None or t0.strip_all_casts().get("path") != infop:
            probs.append("the text duplicated for the queue is `%s`, not the text given" % K.arg(dup, ti).src)
        def length_helper_ok(e):
            """`h(info, info_len)` with a static h that returns its length parameter, or - only for a length of 0 - the
            length of its text parameter up to the limit"""
            e = e.strip_all_casts()
            h = prog.fn(e.get("callee") or "") if e.k == "CallExpr" else None
            if h is None or not h.static or C.loops(h):
                return False
            args_ = [x.strip_all_casts().get("path") for x in C.call_args(e)]
            if infop not in args_ or lenp not in args_:
                return False
            hn = [q["name"] for q in h.params]
            h_info, h_len = hn[args_.index(infop)], hn[args_.index(lenp)]
            if [1 for _n, t_ in C.stores(h) if t_.get("path") in (h_info, h_len)]:
                return False
            rets = [r_ for r_ in h.nodes.values() if r_.k == "ReturnStmt" and r_.ch]
            for r_ in rets:
                v = r_.child(0).strip_all_casts()
                if v.get("path") == h_len:
                    continue
                okc = v.k == "CallExpr" and v.get("callee") in ("strnlen", "BSD_strnlen", "strlen", "__builtin_strlen") and \
                    C.call_args(v)[0].strip_all_casts().get("path") == h_info and \
                    (len(C.call_args(v)) < 2 or (C.const_of(C.call_args(v)[1]) or 0) >= limit)
                if not okc or not K.holds_rel(K.facts_at(S, h, r_) or [], h_len, "==", 0):
                    return False
            return bool(rets)
        if l0 is None or (l0.strip_all_casts().get("path") != lenp and not length_helper_ok(l0)):
            probs.append("the length duplicated is `%s`, not the length given" % K.arg(dup, li).src)
    for n_, t in C.stores(f):
        if t.get("path") == infop:
            probs.append("`%s` changes the text pointer" % n_.src[:50])
        if t.get("path") != lenp:
            continue
        r = n_.child(1).strip_all_casts() if n_.k == "BinaryOperator" and n_.get("op") == "=" else None
        okk = r is not None and r.k == "CallExpr" and r.get("callee") in ("strnlen", "BSD_strnlen", "strlen", "__builtin_strlen") and \
            C.call_args(r)[0].strip_all_casts().get("path") == infop and \
            (len(C.call_args(r)) < 2 or (C.const_of(C.call_args(r)[1]) or 0) >= limit)
        facts = K.facts_at(S, f, n_) or []
        auto = K.holds_rel(facts, lenp, "==", 0)
        if not okk:
            probs.append("`%s` replaces the length by something other than the length of the text up to the %d-character limit"
                         % (n_.src[:60], limit))
        elif not auto:
            probs.append("`%s` also replaces a length the caller gave explicitly" % n_.src[:60])
    where = K.loc(f, chains[0][0][1])
    if probs:
        ck.violated("C18-K9", st, where, "; ".join(list(dict.fromkeys(probs))) + ": the response is cut earlier than the 255-character "
                    "limit requires (or reports text the caller did not hand over)")
    else:
        ck.holds("C18-K9", st, where, "%s duplicates (%s, %s); automatic length = strnlen(%s, %d) only for %s == 0"
                 % (chains[0][-1][1]["callee"], infop, lenp, infop, limit, lenp))


def rule_k2_k5(ck, prog, cfg):
    f = prog.fn("SCPI_ResultError")
    if f is None:
        ck.anchor_lost("C18-K2", "SCPI_ResultError")
        return
    ck.analysed(f)
    limit = prog.macros.get("SCPI_STD_ERROR_DESC_MAX_STRING_LENGTH")
    try:
        limit = int(limit)
    except (TypeError, ValueError):
        ck.anchor_lost("C18-K2", "macro SCPI_STD_ERROR_DESC_MAX_STRING_LENGTH")
        return
    writes = K.ordinal_sites([c for c in f.calls("writeData")])
    quote_lits = [c for c in writes if (K.arg(c, 1).strip_all_casts().get("str") == '"')]
    if len(quote_lits) < 3:
        ck.anchor_lost("C18-K2", "opening / doubling / closing quote writes in SCPI_ResultError")
        return
    opening, closing = quote_lits[0], quote_lits[-1]

    def ghost_write(an, st, n):
        if n is opening:
            st.env["$W"] = Lin.const(0)
            return
        amount = an.value(st, C.call_args(n)[2])
        if n is closing:
            w = st.env.get("$W")
            if w is not None:
                an.oblige_fact(st, n, "budget", le(w, Lin.const(limit)),
                               "the quoted content stays within %d characters" % limit)
            return
        if "$W" in st.env:
            st.env["$W"] = st.env["$W"] + amount if amount is not None else an.opaque(st, "$W", nonneg=True)

    def ghost_semi(an, st, n):
        if "$W" in st.env:
            s = an.new_sym(st, "semi", nonneg=True)
            st.cons.append(le(s, Lin.const(1)))
            st.env["$W"] = st.env["$W"] + s
            st.vals[n.id] = s

    an = B.Analysis(prog, f, BR.caps_for(prog, "SCPI_ResultError"), BR.spec()["contracts"], elem_scalars=True,
                    ghost={"writeData": ghost_write, "writeSemicolon": ghost_semi}, nowrap=True, loads=True, max_paths=20000)
    # the ghost variable is modified in the loops
    for hid in an.loop_mod:
        an.loop_mod[hid][0].add("$W")
    an.unsigned["$W"] = True
    import os
    an.debug = bool(os.environ.get("VERIF_DEBUG"))
    sites = an.run()
    occ = {}
    nb = na = nk5 = 0
    for s in sorted(sites.values(), key=lambda s: (s.node.get("line", 0), s.node.get("col", 0))):
        v, r = s.verdict()
        rule = "C18-K2" if s.kind in ("budget", "arith") else "C18-K5"
        label = "%s:%s" % (s.kind, s.node.src.replace(" ", "")[:40])
        k = occ.get(label, 0)
        occ[label] = k + 1
        st = K.site(f, label, k)
        if s.kind == "budget":
            nb += 1
        elif s.kind == "arith":
            na += 1
        else:
            nk5 += 1
        if v == "HOLDS":
            ck.holds(rule, st, K.loc(f, s.node), s.what if s.kind in ("budget", "arith") else "`%s` in bounds" % s.what[:60])
        elif v == "VIOLATED":
            ck.violated(rule, st, K.loc(f, s.node), "%s is NOT guaranteed: %s; witness %s" % (s.what, r[3], r[5]),
                        {"facts": r[4], "witness": r[5]})
        elif v == "UNDECIDED":
            ck.undecided(rule, st, K.loc(f, s.node), "%s: %s" % (s.what, r[3]), {"facts": r[4]})
    if nb < 1 or na < 3:
        ck.anchor_lost("C18-K2", "budget obligations (%d closing-quote, %d decrements)" % (nb, na))
    inv = {h: [repr(i) for i in v] for h, v in an.invariants.items()}
    ck.holds("C18-K2", K.site(f, "invariants", 0), K.loc(f), "verified loop invariants: %s" % inv, nontrivial=False)


def rule_k3(ck, prog, S):
    f = prog.fn("SCPI_ResultError")
    if f is None:
        return
    pg = S.pg(f)
    writes = K.ordinal_sites([c for c in f.calls("writeData")])
    lit = lambda c: K.arg(c, 1).strip_all_casts().get("str")
    quotes = [c for c in writes if lit(c) == '"']
    content = [c for c in writes if lit(c) is None]
    if len(quotes) < 3 or not content:
        ck.anchor_lost("C18-K3", "quote/content writes")
        return
    opening, closing = quotes[0], quotes[-1]
    inner = quotes[1:-1]
    st = K.site(f, "opening-quote", 0)
    reach = pg.reachable([pg.entry], blocked_edge=lambda e: e.kind == "elem" and e.node is opening)
    early = [c for c in content if pg.before(c) in reach]
    if early:
        ck.violated("C18-K3", st, K.loc(f, early[0]), "description text can be written before the opening quote")
    else:
        ck.holds("C18-K3", st, K.loc(f, opening), "opening quote precedes every content write")
    st = K.site(f, "closing-quote", 0)
    reach = pg.reachable([pg.after(opening)], blocked_edge=lambda e: e.kind == "elem" and e.node is closing)
    if pg.exit in reach:
        ck.violated("C18-K3", st, K.loc(f, closing), "a path returns after the opening quote without writing the closing quote")
    else:
        ck.holds("C18-K3", st, K.loc(f, closing), "closing quote on every path")
    # chunk ending at a found quote: content write whose length is the distance to the found quote
    # (the variable assigned from `quote - data[i] + 1`) must be followed by a doubling quote
    finder = [c for c in f.calls() if c.get("callee") == "strnpbrk"]
    chunk = []
    for c in content:
        ln = K.arg(c, 2).strip_all_casts()
        if ln.k == "DeclRefExpr":
            asg = [n for n, t in C.stores(f) if t.get("path") == ln["decl"]["name"] and n.get("op") == "="]
            if any(any(x.get("path") == "quote" for x in n.child(1).walk()) for n in asg):
                chunk.append(c)
    st = K.site(f, "inner-quote-doubled", 0)
    if not finder or not chunk or not inner:
        ck.anchor_lost("C18-K3", "quote search / chunk write / doubling write in the inner loop")
        return
    bad = None
    for c in chunk:
        # from after the chunk write, reaching the next chunk search (loop head) or the loop exit
        # without passing an inner quote write is a violation
        r = pg.reachable([pg.after(c)], blocked_edge=lambda e: e.kind == "elem" and e.node in inner)
        if any(pg.before(fc) in r for fc in finder) or pg.before(closing) in r:
            bad = c
    if bad is not None:
        ck.violated("C18-K3", st, K.loc(f, bad), "a chunk that ends with a double quote can be written without the doubling quote: the "
                    "response is no longer one well-formed string")
    else:
        ck.holds("C18-K3", st, K.loc(f, chunk[0]), "every chunk ending in '\"' is followed by one more '\"'")


def rule_k7(ck, prog, S, rule="C18-K7"):
    f = prog.fn("SCPI_ResultError")
    if f is None:
        return
    semis = list(f.calls("writeSemicolon"))
    st = K.site(f, "separator-part-index", 0)
    if len(semis) != 1:
        ck.violated(rule, st, K.loc(f), "expected one separator write in SCPI_ResultError, found %d" % len(semis))
        return
    try:
        parts = int(prog.macros.get("SCPIDEFINE_DESCRIPTION_MAX_PARTS"))
    except (TypeError, ValueError):
        ck.anchor_lost(rule, "macro SCPIDEFINE_DESCRIPTION_MAX_PARTS")
        return
    facts = K.facts_at(S, f, semis[0]) or []
    # the loop index: the variable compared with the number of parts in the loop condition
    idx = None
    for b in f.blocks.values():
        c = b.cond
        if c is not None and c.k == "BinaryOperator" and c.get("op") == "<" and C.const_of(c.child(1)) == parts:
            idx = c.child(0).strip_all_casts().get("path")
    if idx is None:
        ck.anchor_lost(rule, "part loop of SCPI_ResultError")
        return
    ok = set(range(parts))
    import operator
    ops = {"==": operator.eq, "!=": operator.ne, "<": operator.lt, "<=": operator.le, ">": operator.gt, ">=": operator.ge}
    for a, pol in facts:
        if isinstance(pol, tuple) or a.k != "BinaryOperator" or a.get("op") not in ops:
            continue
        l, r = a.child(0).strip_all_casts(), a.child(1).strip_all_casts()
        if l.get("path") == idx and C.const_of(r) is not None:
            ok = {v for v in ok if ops[a["op"]](v, C.const_of(r)) == bool(pol)}
        elif r.get("path") == idx and C.const_of(l) is not None:
            ok = {v for v in ok if ops[a["op"]](C.const_of(l), v) == bool(pol)}
    if ok == ({1} & set(range(parts))):
        ck.holds(rule, st, K.loc(f, semis[0]), "separator written for part index 1 only (of %d parts)" % parts)
    else:
        ck.violated(rule, st, K.loc(f, semis[0]),
                    "the ';' separator is written for part indices %s of %d: a device-dependent text that wraps around the end of the "
                    "static heap (parts 1 and 2) is reported with a ';' inserted at the wrap point" % (sorted(ok), parts))


def rule_k4(ck, prog, S, cfg):
    f = prog.fn("SCPI_SystemErrorNextQ")
    if f is None:
        ck.anchor_lost("C18-K4", "SCPI_SystemErrorNextQ")
        return
    pg = S.pg(f)
    pop = list(f.calls("SCPI_ErrorPop"))
    prt = list(f.calls("SCPI_ResultError"))
    st = K.site(f, "pop-print", 0)
    if len(pop) != 1 or len(prt) != 1:
        ck.violated("C18-K4", st, K.loc(f), "expected one pop and one print (found %d, %d)" % (len(pop), len(prt)))
        return
    same = C.call_args(pop[0])[1].strip_all_casts().get("path") == C.call_args(prt[0])[1].strip_all_casts().get("path")
    r1 = pg.reachable([pg.entry], blocked_edge=lambda e: e.kind == "elem" and e.node is pop[0])
    r2 = pg.reachable([pg.after(pop[0])], blocked_edge=lambda e: e.kind == "elem" and e.node is prt[0])
    if not same or pg.before(prt[0]) in r1 or pg.exit in r2:
        ck.violated("C18-K4", st, K.loc(f, prt[0]), "the entry printed is not the entry popped, on every path")
    else:
        ck.holds("C18-K4", st, K.loc(f, prt[0]), "pop then print of the same entry on every path")
    if cfg != "B":
        typestate_function(ck, prog, S, f, cfg, rule="C18-K4")
    ck.analysed(f)


def run(ck, fb, tier):
    for cfg in fb.configs:
        ck.config = cfg
        prog = fb[cfg]
        S = K.summaries(prog)
        if prog.fn("OUR_strndup") is not None:
            from . import c10
            c10.rule_q7(ck, prog, S, rule="C18-K8")
        if cfg == "E" and tier != "thorough":
            continue                     # the c89 build contributes its own duplicator; the rest equals configuration A
        rule_k1(ck, prog)
        if cfg == "H":
            continue                     # the user / minimal error lists change the translation table only
        rule_k2_k5(ck, prog, cfg)
        rule_k3(ck, prog, S)
        rule_k4(ck, prog, S, cfg)
        rule_k7(ck, prog, S)
        rule_k9(ck, prog, S)
        K.narrowing_rule(ck, prog, "C18-N", lambda f_: f_.relfile.endswith(("error.c", "fifo.c")) or f_.name in ("SCPI_ResultError", "SCPI_SystemErrorNextQ", "OUR_strndup", "scpiheap_strndup"))
        if cfg == "C":
            from . import c20
            c20.rule_h1_h2(K.RuleProxy(ck, {"C20-H2": "C18-K6", "C20-H1c": "C18-K6"}), prog)
    ck.trust("libc strlen/strnlen contracts; writeData emits exactly the number of bytes it is given")


TECHNIQUE = ("static analysis: bounds engine with a ghost byte counter and Houdini-verified conservation invariant "
             "(W + budget <= 255), no-wrap obligations for the unsigned budget, must-pass-through for quoting, ownership "
             "typestate for pop/print/release")
LEVEL_TEXT = ("The 255-character bound is a proof-like obligation over all texts (inductive invariant verified on the code's "
              "own loops); quoting and consume/release are decided on all CFG paths. 'Cut as late as possible' is not decided.")
LEVEL_NOTE = "Trusted: clang CFG, extractor, libc string contracts, writeData's byte count."
DESIGN_REF = "DESIGN.md section 5, C18"
