"""C03 — a header is accepted iff it spells the pattern (clause level: the building blocks of the matcher)."""
from sa import cfg as C
from sa import charset as CS
from sa import paths as P
from . import common as K

CONFIGS_QUICK = ["A", "E"]
CONFIGS_THOROUGH = ["A", "B", "C", "D", "E"]

EXPLANATION = (
    "Static, clause-level decision of C03. The accepted LANGUAGE of matchCommand (the 'if and only if' over all "
    "patterns and headers) is NOT decided - that needs an automaton extracted from the hand-written two-cursor "
    "loop and an equivalence proof, which is outside what these engines do. Decided are the building blocks whose "
    "failure breaks the behaviour for some pattern/header: (M1) character classes - the short form of a keyword "
    "ends at the first byte in a-z (computed over all 256 byte values), the pattern separators are exactly '?:[]' "
    "and the header separators ':?', the digits after a numeric-suffix keyword are 0-9, and strnpbrk returns the "
    "first byte of the string that is in the set, inside (str, size) and before a NUL; (M2) matchPattern is "
    "'long form or short form', on the keyword without its '#' through the numeric comparison when the keyword "
    "ends in '#', else through the length-exact comparison; (M3) decision tables of compareStr (length-exact, "
    "case-insensitive) and compareStrAndNum (prefix equal ignoring case; a suffix value must be decimal and use "
    "up all remaining characters; absent suffix leaves the caller's default; without a destination the rest "
    "must be digits); (M4) '?' agreement and the leading colon in matchCommand: a query pattern refuses a "
    "header without '?', a single leading ':' of the header is skipped, ':*' is refused; (M5) numeric-suffix "
    "bookkeeping: after EVERY keyword boundary search (patternSeparatorPos) in matchCommand the keyword is "
    "examined for '#', the default is stored under numbers != NULL && index < capacity and the index advances "
    "on both arms - also for keywords that are skipped; (M6) stores into the caller's numbers[] happen only "
    "below its capacity; (M7) comparisons are the case-insensitive ones and (builds without strncasecmp) the "
    "library's own fold is exactly A-Z -> a-z; (M8) every iteration of the matching loops consumes at least one "
    "pattern character.")

RULES = {
    "C03-M1": "character classes of the matcher: short form ends at a-z; separators '?:[]' / ':?'; suffix digits 0-9; strnpbrk finds the first member inside (str, size)",
    "C03-M2": "matchPattern: long form or short form; numeric comparison on the keyword without '#' iff the keyword ends in '#'",
    "C03-M3": "decision tables of compareStr and compareStrAndNum (length-exact / decimal suffix uses up the rest / default kept when absent)",
    "C03-M4": "matchCommand: '?' agreement, single leading ':' skipped, ':*' refused; the header ends at its terminator or at the maximum search length",
    "C03-M5": "after every keyword boundary search the keyword is examined for '#'; default stored under numbers && idx < capacity; index advances on both arms (skipped keywords included)",
    "C03-M6": "stores into numbers[] only below its capacity",
    "C03-M7": "comparisons are case-insensitive; the library's own fold is exactly A-Z -> a-z",
    "C03-M8": "every iteration of the matching loops consumes at least one pattern character",
}

CI = ("strncasecmp", "OUR_strncasecmp", "strnicmp", "_strnicmp")
LOWER = set(range(ord("a"), ord("z") + 1))
DIGITS = set(range(ord("0"), ord("9") + 1))


def byte_set(cond, key, prog):
    """bytes for which `cond` is true when the expression spelled `key` holds that byte"""
    out = set()
    for b in range(256):
        if CS.ceval(cond, {"$expr": {key: CS.byte_as_char(b)}}, prog):
            out.add(b)
    return out


def show(s):
    return "".join(chr(c) if 32 < c < 127 else "\\x%02x" % c for c in sorted(s))


def rule_m1(ck, prog):
    f = prog.fn("patternSeparatorShortPos")
    if f is None:
        ck.anchor_lost("C03-M1", "patternSeparatorShortPos")
    else:
        ck.analysed(f)
        st = K.site(f, "short-form-end", 0)
        par, lenp = f.params[0]["name"], f.params[1]["name"]
        # the function's result on the two-byte keyword (b, 'x') for every byte b - and on (b) alone: the short form ends at the
        # first lower-case letter, i.e. 0 if b is in a-z (or NUL), otherwise 1 (the 'x' / the end stops it)
        wrong = []
        try:
            for b in range(256):
                got2 = CS.run_with_strings(f, {lenp: 2}, {par: [b, ord("x")]}, prog)
                want2 = 0 if (b in LOWER or b == 0) else 1
                got1 = CS.run_with_strings(f, {lenp: 1}, {par: [b]}, prog)
                want1 = 0 if (b in LOWER or b == 0) else 1
                if got2 != want2 or got1 != want1:
                    wrong.append(b)
            if wrong:
                ck.violated("C03-M1", st, K.loc(f),
                            "the short form of a keyword does not end exactly at its first lower-case letter: for a keyword starting with "
                            "one of {%s} followed by a lower-case letter the short form has the wrong length (digits, '_' and '#' belong "
                            "to the short form: `RS232Config`, `CH_Aux#`)" % show(set(wrong))[:60])
            else:
                ck.holds("C03-M1", st, K.loc(f), "for all 256 first bytes: the short form ends at the first byte in {a-z} (or at NUL / the length)")
        except CS.CannotEvaluate as ex:
            ck.undecided("C03-M1", st, K.loc(f), "cannot evaluate patternSeparatorShortPos: %s" % ex)
    # separators: the keyword boundary searches of matchCommand, wherever the search helper(s) live and however the separator
    # set reaches strnpbrk (literal in the helper, or a parameter bound to a literal at the call)
    mc = prog.fn("matchCommand")
    searches = boundary_searches(prog, mc) if mc is not None else []
    if mc is None or not searches:
        ck.anchor_lost("C03-M1", "keyword boundary searches (a helper around strnpbrk) in matchCommand")
    else:
        from sa import interp as I
        want_of = {"pattern": "?:[]", "cmd": ":?"}
        seen = set()
        for sr in searches:
            role = "pattern" if (sr["subject"] or "").startswith("pattern") else ("cmd" if (sr["subject"] or "").startswith("cmd") else None)
            key = (sr["helper"].name, sr["set"], role)
            if key in seen:
                continue
            seen.add(key)
            h = sr["helper"]
            ck.analysed(h)
            st = K.site(h, "separator-set" if len({k_[0] for k_ in seen}) == len(seen) else "separator-set(%s)" % role, 0)
            probs = []
            if role is None:
                probs.append("searches `%s`, which is neither the pattern nor the header" % sr["subject"])
            elif sr["set"] is None or set(sr["set"]) != set(want_of[role]):
                probs.append("the %s keyword ends at the first of {%s}, expected {%s}" % (role, sr["set"], want_of[role]))
            if not sr["passthru"]:
                probs.append("the subject and its length are not handed to strnpbrk unchanged")
            # NULL -> len ; else offset: the helper evaluated with strnpbrk answering NULL / a pointer 3 bytes in
            buf = [0] * 8
            extra = [I.mkstring(sr["set"] or "")] * max(0, len(h.params) - 2)
            try:
                for answer, expect in ((0, "len"), (I.Ptr(buf, 3), 3)):
                    v, _l = I.call(prog, h.name, [I.Ptr(buf, 0), I.Sym("len", 64)] + extra, effects={"strnpbrk": answer})
                    okv = (isinstance(v, I.Sym) and v.name == "len") if expect == "len" else v == 3
                    if not okv:
                        probs.append("with strnpbrk answering %s the search returns %r, expected %s"
                                     % ("NULL" if answer == 0 else "subject + 3", v, "the length" if expect == "len" else "3"))
            except I.Stuck as e:
                ck.undecided("C03-M1", st, K.loc(h), "cannot evaluate %s: %s" % (h.name, e))
                continue
            if probs:
                ck.violated("C03-M1", st, K.loc(h, sr["inner"]), "; ".join(probs))
            else:
                ck.holds("C03-M1", st, K.loc(h, sr["inner"]), "%s keyword: first of {%s} inside (subject, length), else the length" % (role, sr["set"]))
    # strnpbrk
    f = prog.fn("strnpbrk")
    if f is None:
        ck.anchor_lost("C03-M1", "strnpbrk")
    else:
        ck.analysed(f)
        st = K.site(f, "first-member", 0)
        probs = []
        sums = P.summarize(f, max_visits=2)
        nfound = nnull = 0
        # how the scanned character is read decides what "its position" is: `c = *str++` -> str - 1 ; `c = str[i]` -> str + i
        sp, szp = f.params[0]["name"], f.params[1]["name"]
        expected_ret = set()
        for n, t in C.stores(f):
            if t.get("path") == "c" and n.get("op") == "=":
                r = n.child(1).strip_all_casts()
                if r.k == "UnaryOperator" and r.get("op") == "*":
                    inner = r.child(0).strip_all_casts()
                    if inner.k == "UnaryOperator" and inner.get("op") == "++" and inner.get("postfix") and inner.child(0).strip_all_casts().get("path") == sp:
                        expected_ret |= {"%s-1" % sp}
                elif r.k == "ArraySubscriptExpr" and r.child(0).strip_all_casts().get("path") == sp:
                    ix = r.child(1).strip_all_casts().get("path")
                    expected_ret |= {"%s+%s" % (sp, ix), "&%s[%s]" % (sp, ix)}
        for ps in sums:
            if ps.ret_node is None or not ps.ret_node.ch:
                continue
            isnull = C.is_null(ps.ret_node.child(0))
            eqs = [pol for a, pol in ps.facts if not isinstance(pol, tuple) and a.k == "BinaryOperator" and a.get("op") == "=="
                   and {a.child(0).strip_all_casts().get("path"), a.child(1).strip_all_casts().get("path")} == {"sc", "c"}]
            if isnull:
                nnull += 1
                if eqs and eqs[-1] is True:
                    probs.append("a path that found a member returns NULL")
            else:
                nfound += 1
                if not eqs or eqs[-1] is not True:
                    probs.append("a pointer is returned without a member having been found")
                src = ps.ret_node.child(0).strip_all_casts().src.replace(" ", "")
                while src.startswith("(") and src.endswith(")"):
                    src = src[1:-1]
                if src not in expected_ret:
                    probs.append("the pointer returned is `%s`, not the position of the member just compared (%s)" % (src, sorted(expected_ret)))
        # the scan is bounded by size and by NUL
        conds = " ".join(b.cond.src.replace(" ", "") for b in f.blocks.values() if b.cond is not None)
        bounded = any(x in conds for x in ("strend!=str", "str!=strend", "str<strend")) or \
            any(b.cond is not None and b.cond.k == "BinaryOperator" and b.cond.get("op") in ("!=", "<") and
                szp in (b.cond.child(0).strip_all_casts().get("path"), b.cond.child(1).strip_all_casts().get("path"))
                for b in f.blocks.values())
        if not bounded:
            probs.append("the scan is not bounded by str + size")
        if not expected_ret:
            probs.append("the scanned character is not read from the string (`c = *str++` or `c = str[i]`)")
        if not nfound or not nnull:
            ck.anchor_lost("C03-M1", "strnpbrk: found/NULL paths (%d, %d)" % (nfound, nnull))
        elif probs:
            ck.violated("C03-M1", st, K.loc(f), sorted(set(probs))[0], {"all": sorted(set(probs))})
        else:
            ck.holds("C03-M1", st, K.loc(f), "%d paths: returns the position of the first member before size/NUL, else NULL" % len(sums))
    # digits after a numeric-suffix keyword (no destination): the function is evaluated on ("AB", "AB" + b) for all 256 b
    f = prog.fn("compareStrAndNum")
    if f is not None:
        st = K.site(f, "suffix-digits", 0)
        names = [p_["name"] for p_ in f.params]
        try:
            acc = set()
            for b in range(256):
                r = CS.run_with_strings(f, {names[1]: 2, names[3]: 3, names[4]: 0},
                                        {names[0]: [65, 66], names[2]: [97, 98, b]}, prog)
                if r:
                    acc.add(b)
            acc &= set(range(1, 128))
            if acc == DIGITS:
                ck.holds("C03-M1", st, K.loc(f), "without a destination the character after the keyword must be in {0-9} (all 256 values tried)")
            else:
                ck.violated("C03-M1", st, K.loc(f), "characters {%s} are accepted after a numeric-suffix keyword (expected 0-9)" % show(acc)[:40])
        except CS.CannotEvaluate as ex:
            ck.undecided("C03-M1", st, K.loc(f), "cannot evaluate compareStrAndNum: %s" % ex)


def rule_m2(ck, prog):
    f = prog.fn("matchPattern")
    if f is None:
        ck.anchor_lost("C03-M2", "matchPattern")
        return
    ck.analysed(f)
    pat, plen, s, slen, num = [p["name"] for p in f.params[:5]]
    sums = P.summarize(f)
    probs = []
    nh = nn = 0
    inits = {}
    for n in f.nodes.values():
        if n.k == "DeclStmt":
            for d in n.get("decls", []):
                if "init" in d:
                    inits[d["name"]] = f.nodes[d["init"]].strip_all_casts().src.replace(" ", "")
    for n, t in C.stores(f):
        if n.get("op") == "=" and t.k == "DeclRefExpr":
            inits.setdefault(t.get("path"), set()) if False else None
    for ps in sums:
        hashf = [pol for a, pol in ps.facts if not isinstance(pol, tuple) and a.k == "BinaryOperator" and a.get("op") == "=="
                 and C.const_of(a.child(1)) == ord("#")]
        lenf = [pol for a, pol in ps.facts if not isinstance(pol, tuple) and a.k == "BinaryOperator" and a.get("op") == ">"
                and a.child(0).strip_all_casts().get("path") == plen and C.const_of(a.child(1)) == 0]
        is_hash = bool(hashf and hashf[-1] and lenf and lenf[-1])
        cmps = [c for c in ps.calls if c.get("callee") in ("compareStr", "compareStrAndNum")]
        shorts = [c for c in ps.calls if c.get("callee") == "patternSeparatorShortPos"]
        want = "compareStrAndNum" if is_hash else "compareStr"
        if is_hash:
            nh += 1
        else:
            nn += 1
        if not cmps or any(c["callee"] != want for c in cmps) or len(cmps) > 2:
            probs.append("keyword %s '#': compared with %s" % ("ending in" if is_hash else "without", [c["callee"] for c in cmps]))
            continue
        if len(shorts) != 1:
            probs.append("the short form is not computed exactly once")
            continue
        klen = C.call_args(cmps[0])[1].strip_all_casts()
        ksrc = klen.src.replace(" ", "")
        kdef = inits.get(ksrc, ksrc) if klen.k == "DeclRefExpr" else ksrc
        exp_len = "%s-1" % plen if is_hash else plen
        if kdef != exp_len:
            kdef = P.resolve_text(ps, klen)          # through locals and conditional operators, as decided on this path
        if kdef != exp_len:
            probs.append("the long form is compared over `%s` (= %s), expected %s" % (ksrc, kdef, exp_len))
        sa = C.call_args(shorts[0])
        slsrc = sa[1].strip_all_casts().src.replace(" ", "")
        if sa[0].strip_all_casts().get("path") != pat or (inits.get(slsrc, slsrc) != exp_len and P.resolve_text(ps, sa[1]) != exp_len):
            probs.append("the short form is searched in (%s, %s), expected (%s, %s)" % (sa[0].src, sa[1].src, pat, exp_len))
        for i_, c in enumerate(cmps):
            a = C.call_args(c)
            if a[0].strip_all_casts().get("path") != pat or a[2].strip_all_casts().get("path") != s or a[3].strip_all_casts().get("path") != slen:
                probs.append("comparison %d is not (pattern, <len>, str, str_len)" % i_)
            if is_hash and a[4].strip_all_casts().get("path") != num:
                probs.append("the suffix destination is not handed to comparison %d" % i_)
        if len(cmps) == 2:
            l2 = C.call_args(cmps[1])[1].strip_all_casts()
            # the second comparison uses the short-form length
            src2 = l2.get("path")
            sdef = [n for n, t in C.stores(f) if t.get("path") == src2 and n.child(1).strip_all_casts() is shorts[0]]
            sdecl = inits.get(src2, "")
            if not sdef and "patternSeparatorShortPos" not in sdecl:
                probs.append("the second comparison does not use the short-form length")
        # result: TRUE iff one of the comparisons is true
        res = [(a, pol) for a, pol in ps.facts if not isinstance(pol, tuple) and a.k == "CallExpr" and a.get("callee") == want]
        if ps.ret is not None:
            if ps.ret.kind == "const":
                exp = any(pol for a, pol in res)
                if bool(ps.ret.v) != exp:
                    probs.append("returns %s although the comparisons gave %s" % (ps.ret.v, [pol for a, pol in res]))
            elif ps.ret.kind in ("call", "callres"):
                if any(pol for a, pol in res):
                    probs.append("a successful comparison is followed by another one whose result is returned")
    st = K.site(f, "long-or-short", 0)
    if not nh or not nn:
        ck.anchor_lost("C03-M2", "paths of matchPattern with / without '#' (%d, %d)" % (nh, nn))
    elif probs:
        ck.violated("C03-M2", st, K.loc(f), sorted(set(probs))[0], {"all": sorted(set(probs))})
    else:
        ck.holds("C03-M2", st, K.loc(f), "%d paths: long || short; '#' keywords through compareStrAndNum without the '#'" % len(sums))


def ci_equal(ps):
    """truth of 'the case-insensitive comparison found the strings equal' on this path (None if not evaluated)"""
    out = None
    for a, pol in ps.facts:
        if isinstance(pol, tuple):
            continue
        s_ = a.strip_all_casts()
        if s_.k == "CallExpr" and s_.get("callee") in CI:
            out = not pol                    # bare call used as condition: non-zero means different
        elif s_.k == "BinaryOperator" and s_.get("op") in ("==", "!=") and C.const_of(s_.child(1)) == 0:
            c = s_.child(0).strip_all_casts()
            if c.k == "CallExpr" and c.get("callee") in CI:
                out = pol if s_["op"] == "==" else not pol
    return out


def eq_truth(ps, names):
    """truth of `a == b` for the two paths in `names` on this path, from == / != atoms"""
    out = None
    for a, pol in ps.facts:
        if isinstance(pol, tuple):
            continue
        if a.k == "BinaryOperator" and a.get("op") in ("==", "!=") and \
                {a.child(0).strip_all_casts().get("path"), a.child(1).strip_all_casts().get("path")} == set(names):
            out = pol if a["op"] == "==" else not pol
    return out


def rule_m3(ck, prog):
    g = prog.fn("compareStr")
    f = prog.fn("compareStrAndNum")
    if g is None or f is None:
        ck.anchor_lost("C03-M3", "compareStr / compareStrAndNum")
        return
    ck.analysed(g, f)
    # compareStr
    st = K.site(g, "length-exact", 0)
    probs = []
    l1, l2 = g.params[1]["name"], g.params[3]["name"]
    for ps in P.summarize(g):
        neq = [pol for a, pol in ps.facts if not isinstance(pol, tuple) and a.k == "BinaryOperator" and a.get("op") in ("!=", "==")
               and {a.child(0).strip_all_casts().get("path"), a.child(1).strip_all_casts().get("path")} == {l1, l2}]
        differ = None
        for a, pol in ps.facts:
            if not isinstance(pol, tuple) and a.k == "BinaryOperator" and a.get("op") in ("!=", "==") and \
                    {a.child(0).strip_all_casts().get("path"), a.child(1).strip_all_casts().get("path")} == {l1, l2}:
                differ = pol if a["op"] == "!=" else not pol
        cie = ci_equal(ps)
        t = ps.ret.truth() if ps.ret is not None else None
        if differ is None:
            probs.append("a path does not compare the lengths")
        elif differ and t is not False:
            probs.append("different lengths are not refused")
        elif not differ:
            if cie is None:
                probs.append("equal lengths: no case-insensitive comparison")
            elif t is not cie:
                probs.append("the result is not the outcome of the comparison")
    if probs:
        ck.violated("C03-M3", st, K.loc(g), sorted(set(probs))[0])
    else:
        ck.holds("C03-M3", st, K.loc(g), "len1 != len2 => FALSE; else strncasecmp(...) == 0")
    # compareStrAndNum
    st = K.site(f, "suffix-table", 0)
    s1, n1, s2, n2, num = [p["name"] for p in f.params[:5]]
    probs = []
    rows = set()
    for ps in P.summarize(f, max_visits=2):
        def fact(pred):
            out = None
            for a, pol in ps.facts:
                if not isinstance(pol, tuple) and pred(a):
                    out = pol
            return out
        shorter = None
        for a, pol in ps.facts:
            if isinstance(pol, tuple) or a.k != "BinaryOperator" or a.get("op") not in ("<", ">", "<=", ">="):
                continue
            l_, r_ = a.child(0).strip_all_casts().get("path"), a.child(1).strip_all_casts().get("path")
            if (l_, r_) == (n2, n1):
                shorter = {"<": pol, ">=": not pol}.get(a["op"], shorter)
            elif (l_, r_) == (n1, n2):
                shorter = {">": pol, "<=": not pol}.get(a["op"], shorter)
        pre = ci_equal(ps)
        hasnum = fact(lambda a: a.get("path") == num)
        same = eq_truth(ps, (n1, n2))
        allused = None          # truth of `consumed length != keyword end`
        for a, pol in ps.facts:
            if not isinstance(pol, tuple) and a.k == "BinaryOperator" and a.get("op") in ("!=", "==") and \
                    n2 in (a.child(0).strip_all_casts().get("path"), a.child(1).strip_all_casts().get("path")) and \
                    n1 not in (a.child(0).strip_all_casts().get("path"), a.child(1).strip_all_casts().get("path")):
                allused = pol if a["op"] == "!=" else not pol
        conv = [c for c in ps.calls if (c.get("callee") or "").startswith("strBaseTo")]
        stores = [e[1] for e in ps.events if e[0] == "store" and (C.store_target(e[1]).get("path") or "") == "*" + num]
        t = ps.ret.truth() if ps.ret is not None else None
        if shorter is None:
            probs.append("a path does not compare the lengths")
            continue
        if shorter:
            rows.add("shorter")
            if t is not False or stores:
                probs.append("a header keyword shorter than the pattern keyword is not refused")
            continue
        if pre is None:
            probs.append("no case-insensitive prefix comparison")
            continue
        if not pre:
            rows.add("prefix-differs")
            if t is not False or stores:
                probs.append("a differing keyword is not refused")
            continue
        if hasnum:
            if same:
                rows.add("no-suffix")
                if t is not True or stores:
                    probs.append("keyword without suffix: must be accepted and leave the caller's default (returns %s, stores %d)" % (t, len(stores)))
            elif same is False:
                if len(conv) != 1 or C.const_of(C.call_args(conv[0])[2]) != 10 or \
                        C.call_args(conv[0])[0].strip_all_casts().src.replace(" ", "") != "%s+%s" % (s2, n1):
                    probs.append("the suffix is not decoded as decimal from str2 + len1")
                if allused is None:
                    probs.append("the suffix decoder's consumed length is not compared with the keyword's end")
                elif allused:           # i != len2
                    rows.add("suffix-garbage")
                    if t is not False or stores:
                        probs.append("a suffix followed by other characters is accepted or stored")
                else:
                    rows.add("suffix-ok")
                    if t is not True or len(stores) != 1:
                        probs.append("a well-formed suffix is not stored exactly once / not accepted")
        elif hasnum is False:
            rows.add("no-destination")
    if probs:
        ck.violated("C03-M3", st, K.loc(f), sorted(set(probs))[0], {"all": sorted(set(probs))})
    elif not {"shorter", "prefix-differs", "no-suffix", "suffix-garbage", "suffix-ok", "no-destination"} <= rows:
        ck.anchor_lost("C03-M3", "rows of compareStrAndNum found: %s" % sorted(rows))
    else:
        ck.holds("C03-M3", st, K.loc(f), "rows %s as specified" % sorted(rows))


def rule_m4(ck, prog, S):
    f = prog.fn("matchCommand")
    if f is None:
        ck.anchor_lost("C03-M4", "matchCommand")
        return
    ck.analysed(f)
    Q, COLON, STAR = ord("?"), ord(":"), ord("*")

    def cmp_char(a, who, ch, idx_pred=None):
        """atom is <who>[...] ==/!= ch ; returns the operator or None"""
        if a.k != "BinaryOperator" or a.get("op") not in ("==", "!=") or C.const_of(a.child(1)) != ch:
            return None
        l = a.child(0).strip_all_casts()
        if l.k != "ArraySubscriptExpr" or l.child(0).strip_all_casts().get("path") != who:
            return None
        if idx_pred is not None and not idx_pred(l.child(1)):
            return None
        return a["op"]

    def truth(facts, who, ch, idx_pred=None):
        out = None
        for a, pol in facts:
            if isinstance(pol, tuple):
                continue
            op = cmp_char(a, who, ch, idx_pred)
            if op:
                out = pol if op == "==" else not pol
        return out
    last = lambda who, ln: (lambda i: i.strip_all_casts().src.replace(" ", "") == "%s-1" % ln)
    is0 = lambda i: C.const_of(i) == 0
    is1 = lambda i: C.const_of(i) == 1
    # every way of ending with FALSE: `return FALSE`, or a jump to the common exit while the result flag is still FALSE
    false_exits = [K.facts_at(S, f, None, point=p_) or [] for p_, _n in K.committed_exits(S, f, 0)]
    # '?' agreement
    st = K.site(f, "query-mark-agreement", 0)
    refuse = strip = False
    for facts in false_exits:
        if truth(facts, "pattern_ptr", Q, last("pattern_ptr", "pattern_len")) is True and \
                truth(facts, "cmd_ptr", Q, last("cmd_ptr", "cmd_len")) is False:
            refuse = True
    decs = {}
    blocks_ok = set()
    cand = [(n, t) for n, t in C.stores(f) if n.get("op") == "-=" and C.const_of(n.child(1)) == 1 and t.get("path") in ("cmd_len", "pattern_len")]
    for n, t in cand:
        facts = K.facts_at(S, f, n) or []
        if truth(facts, "pattern_ptr", Q, last("pattern_ptr", "pattern_len")) is True and \
                (truth(facts, "cmd_ptr", Q, last("cmd_ptr", "cmd_len")) is True):
            decs[t["path"]] = True
            blocks_ok.add(f.where[n.id][0].id)
    for n, t in cand:
        # the second decrement of the pair sits in the same basic block (the first one invalidates the facts it was taken under)
        if f.where[n.id][0].id in blocks_ok:
            decs[t["path"]] = True
    if refuse and decs.get("cmd_len") and decs.get("pattern_len"):
        ck.holds("C03-M4", st, K.loc(f), "pattern '?' and header '?': both shortened by one; pattern '?' without header '?': FALSE")
    else:
        ck.violated("C03-M4", st, K.loc(f),
                    "query-mark agreement is not established (refuses a header without '?': %s; strips both marks together: %s)"
                    % (refuse, sorted(decs)))
    # the header ends at its terminator or at len, whichever comes first (len is documented as the maximum search length)
    st = K.site(f, "header-extent", 0)
    defs = []
    for n in f.nodes.values():
        if n.k == "DeclStmt":
            for d in n.get("decls", []):
                if d["name"] == "cmd_len" and "init" in d:
                    defs.append((n, f.nodes[d["init"]]))
    for n, t in C.stores(f):
        if t.get("path") == "cmd_len" and n.get("op") == "=":
            defs.append((n, n.child(1)))
    hdr, mx = f.params[1]["name"], f.params[2]["name"]

    def is_extent(e, depth=0):
        e = e.strip_all_casts()
        if e.k == "DeclRefExpr" and e.get("decl", {}).get("kind") == "local" and depth < 2:
            # the length goes through a local: every definition of that local is the bounded length
            nm = e.get("path")
            ds = [f.nodes[d["init"]] for n_ in f.nodes.values() if n_.k == "DeclStmt" for d in n_.get("decls", [])
                  if d["name"] == nm and "init" in d]
            ds += [n_.child(1) for n_, t_ in C.stores(f) if t_.get("path") == nm and n_.get("op") == "="]
            others = [n_ for n_, t_ in C.stores(f) if t_.get("path") == nm and n_.get("op") != "="]
            return bool(ds) and not others and all(is_extent(x, depth + 1) for x in ds)
        if e.k != "CallExpr" or e.get("callee") not in ("strnlen", "BSD_strnlen"):
            return False
        a = C.call_args(e)
        return len(a) == 2 and a[0].strip_all_casts().get("path") == hdr and a[1].strip_all_casts().get("path") == mx
    if not defs:
        ck.anchor_lost("C03-M4", "matchCommand: no definition of the header length")
    elif all(is_extent(e) for _n, e in defs):
        ck.holds("C03-M4", st, K.loc(f, defs[0][0]), "header length = strnlen(%s, %s)" % (hdr, mx))
    else:
        bad = [(n_, e) for n_, e in defs if not is_extent(e)][0]
        ck.violated("C03-M4", st, K.loc(f, bad[0]),
                    "the header length is `%s`, not the length of the terminated header bounded by %s: with a maximum search "
                    "length beyond the terminator the NUL bytes are matched as part of the last mnemonic and the '?' test reads "
                    "%s[%s - 1]" % (bad[1].src, mx, hdr, mx))
    # leading colon / ':*'
    st = K.site(f, "leading-colon", 0)
    star_refused = False
    for facts in false_exits:
        if truth(facts, "cmd_ptr", COLON, is0) is True and truth(facts, "cmd_ptr", STAR, is1) is True:
            star_refused = True
    skip = False
    for n, t in C.stores(f):
        if t.get("path") == "cmd_ptr" and n.get("op") == "+=" and C.const_of(n.child(1)) == 1:
            facts = K.facts_at(S, f, n) or []
            loops_ = [h for h, body in C.loops(f) if f.where[n.id][0].id in body]
            if not loops_ and truth(facts, "cmd_ptr", COLON, is0) is True and truth(facts, "cmd_ptr", STAR, is1) is False:
                skip = True
    if star_refused and skip:
        ck.holds("C03-M4", st, K.loc(f), "':' + not '*': one byte skipped; ':*': FALSE")
    else:
        ck.violated("C03-M4", st, K.loc(f), "leading colon handling: ':*...' refused: %s; single ':' skipped before matching: %s" % (star_refused, skip))


def capacity_guard(f, S, numbers, idxvar, nlen):
    """returns (in_guard(node) -> bool, safe pointer variables): a node is 'in guard' when numbers != NULL && idx < capacity
    holds there, either as branch facts or because the store goes through a pointer that is non-NULL only under that guard"""
    def is_slot(e):
        src = e.strip_all_casts().src.replace(" ", "")
        return src in ("%s+%s" % (numbers, idxvar), "&%s[%s]" % (numbers, idxvar))

    def cond_ok(pairs):
        g1 = any(a.get("path") == numbers and pol is True for a, pol in pairs if not isinstance(pol, tuple))
        g2 = any(a.k == "BinaryOperator" and a.get("op") == "<" and pol is True and a.child(0).strip_all_casts().get("path") == idxvar
                 and a.child(1).strip_all_casts().get("path") == nlen for a, pol in pairs if not isinstance(pol, tuple))
        return g1 and g2

    def facts_ok(node):
        return cond_ok(K.facts_at(S, f, node) or [])
    safe = set()
    cands = {t.get("path") for n, t in C.stores(f) if t.k == "DeclRefExpr" and t.get("tk") == "ptr"}
    for v in cands:
        good = True
        some = False
        for n, t in C.stores(f):
            if t.get("path") != v or n.get("op") != "=":
                continue
            r = n.child(1).strip_all_casts()
            if C.is_null(n.child(1)):
                continue
            if is_slot(n.child(1)) and facts_ok(n):
                some = True
                continue
            if r.k == "ConditionalOperator" and C.is_null(r.child(2)) and is_slot(r.child(1)) and cond_ok(C.cond_facts(r.child(0), True)):
                some = True
                continue
            good = False
        if good and some:
            safe.add(v)

    def in_guard(node):
        if facts_ok(node):
            return True
        t = C.store_target(node)
        if t is not None and t.k == "UnaryOperator" and t.get("op") == "*":
            pv = t.child(0).strip_all_casts().get("path")
            if pv in safe:
                facts = K.facts_at(S, f, node) or []
                if any(a.get("path") == pv and pol is True for a, pol in facts if not isinstance(pol, tuple)):
                    return True
        return False
    return in_guard, safe, is_slot


def slot_helper(prog, S, call, numbers, idxvar, nlen, dflt):
    """a call to a static helper that receives (numbers, capacity, index, default): (stores_default_guarded, returns_safe_slot)
    judged inside the helper with its own parameter names; None if the call is not of that kind"""
    g = prog.fn(call.get("callee") or "")
    if g is None or not g.static:
        return None
    args = [a.strip_all_casts().get("path") for a in C.call_args(call)]
    byaddr = "&" + idxvar in args and idxvar not in args          # the index handed over by address: the helper works on *p
    if numbers not in args or (idxvar not in args and not byaddr) or nlen not in args:
        return None
    names = [p_["name"] for p_ in g.params]
    m = {numbers: names[args.index(numbers)], nlen: names[args.index(nlen)],
         idxvar: ("*" + names[args.index("&" + idxvar)]) if byaddr else names[args.index(idxvar)]}
    d2 = names[args.index(dflt)] if dflt in args else None
    in_guard, safe, is_slot = capacity_guard(g, S, m[numbers], m[idxvar], m[nlen])
    stores_ok = True
    stored_default = False
    for n, t in C.stores(g):
        p = t.get("path") or ""
        if p.replace("(", "").replace(")", "") == m[idxvar]:
            continue              # the index itself, advanced through its address
        if p.startswith(m[numbers] + "[") or (t.k == "UnaryOperator" and t.get("op") == "*"):
            if not in_guard(n):
                stores_ok = False
            elif d2 and n.get("op") == "=" and n.child(1).strip_all_casts().get("path") == d2:
                stored_default = True
    rets_ok = True
    for r in g.nodes.values():
        if r.k == "ReturnStmt" and r.ch and g.ret.get("tk") == "ptr":
            if C.is_null(r.child(0)):
                continue
            facts = K.facts_at(S, g, r) or []
            gd = any(a.get("path") == m[numbers] and pol is True for a, pol in facts if not isinstance(pol, tuple)) and \
                any(a.k == "BinaryOperator" and a.get("op") == "<" and pol is True and a.child(0).strip_all_casts().get("path") == m[idxvar]
                    and a.child(1).strip_all_casts().get("path") == m[nlen] for a, pol in facts if not isinstance(pol, tuple))
            if not (is_slot(r.child(0)) and gd) and r.child(0).strip_all_casts().get("path") not in safe:
                rets_ok = False       # (a local that is NULL or the slot taken under the guard is as good as the slot itself)
    return (stores_ok and stored_default, stores_ok and rets_ok and g.ret.get("tk") == "ptr")


def boundary_searches(prog, f):
    """calls in `f` that find the end of a keyword: a call of a small static helper that hands its first two parameters to
    strnpbrk together with a separator set - a string literal in the helper or a parameter bound to a literal at the call.
    [{call, helper, inner (the strnpbrk call), subject (path of the first argument), set, passthru}]"""
    out = []
    for c in K.ordinal_sites(list(f.calls())):
        h = prog.fn(c.get("callee") or "")
        if h is None or not h.static or h.name == f.name or len(h.blocks) > 12:
            continue
        inner = list(h.calls("strnpbrk"))
        if len(inner) != 1 or len(h.params) < 2:
            continue
        a = C.call_args(inner[0])
        s2 = a[2].strip_all_casts()
        lit = s2.get("str") if s2.k == "StringLiteral" else None
        if lit is None and s2.k == "DeclRefExpr" and s2["decl"]["kind"] == "param":
            idx = [i for i, p_ in enumerate(h.params) if p_["name"] == s2["decl"]["name"]]
            ca = C.call_args(c)
            if idx and idx[0] < len(ca):
                x = ca[idx[0]].strip_all_casts()
                lit = x.get("str") if x.k == "StringLiteral" else None
        passthru = a[0].strip_all_casts().get("path") == h.params[0]["name"] and a[1].strip_all_casts().get("path") == h.params[1]["name"]
        ca = C.call_args(c)
        out.append({"call": c, "helper": h, "inner": inner[0], "subject": ca[0].strip_all_casts().get("path") if ca else None,
                    "set": lit, "passthru": passthru})
    return out


def rule_m5_m6(ck, prog, S):
    f = prog.fn("matchCommand")
    if f is None:
        ck.anchor_lost("C03-M5", "matchCommand")
        return
    pg = S.pg(f)
    HASH = ord("#")
    numbers, nlen, dflt = f.params[3]["name"], f.params[4]["name"], f.params[5]["name"]
    seps = [sr["call"] for sr in boundary_searches(prog, f) if (sr["subject"] or "").startswith("pattern") and
            sr["set"] is not None and set(sr["set"]) == set("?:[]")]
    if len(seps) < 2:
        ck.anchor_lost("C03-M5", "keyword boundary searches in matchCommand (%d)" % len(seps))
        return
    skips = [n for n, t in C.stores(f) if t.get("path") == "pattern_ptr" and n.get("op") == "+="]

    def is_hash_test(a):
        if a.k != "BinaryOperator" or a.get("op") not in ("==", "!=") or C.const_of(a.child(1)) != HASH:
            return False
        l = a.child(0).strip_all_casts()
        return l.k == "ArraySubscriptExpr" and l.child(0).strip_all_casts().get("path") == "pattern_ptr" and \
            "-1" in l.child(1).strip_all_casts().src.replace(" ", "")
    hash_edges = []   # edges on which the '#' test was evaluated (either way)
    for p_, es in pg.out.items():
        for e in es:
            if e.kind == "edge" and e.label and e.label[0] in ("true", "false") and e.label[1] is not None:
                if any(is_hash_test(a) for a, pol in C.cond_facts(e.label[1], e.label[0] == "true")) or is_hash_test(e.label[1]):
                    hash_edges.append(e)
    idxvar = None
    for n, t in C.stores(f):
        if n.k == "UnaryOperator" and n.get("op") == "++" and t.get("path") and "idx" in t.get("path"):
            idxvar = t["path"]
    idx_calls = []          # calls that advance the index through its address (helper does `(*p)++` on every path)
    if idxvar is None:
        for c_ in f.calls():
            g_ = prog.fn(c_.get("callee") or "")
            if g_ is None or not g_.static:
                continue
            for prm, a_ in zip(g_.params, C.call_args(c_)):
                ap = a_.strip_all_casts().get("path") or ""
                if not ap.startswith("&") or "idx" not in ap:
                    continue
                incs_ = [n_ for n_, t_ in C.stores(g_) if n_.k == "UnaryOperator" and n_.get("op") == "++" and
                         (t_.get("path") or "").replace("(", "").replace(")", "") == "*" + prm["name"]]
                gp = S.pg(g_)
                if incs_ and gp.exit not in gp.reachable([gp.entry], blocked_edge=lambda e: e.kind == "elem" and e.node in incs_):
                    idxvar = ap[1:]
                    idx_calls.append(c_)
    for i, c in enumerate(seps):
        st = K.site(f, "suffix-examined-after-boundary", i)
        # from the boundary search, can the pattern be advanced (keyword consumed or skipped) without the '#' examination?
        # the keyword's own boundary may be re-tested by the length guard `pattern_sep_pos > 0` first: both edges of the
        # '#' test count as 'examined'; the short-circuit edge `pattern_sep_pos > 0` false means an empty keyword (no '#').
        def blocked(e):
            if e in hash_edges:
                return True
            if e.kind == "edge" and e.label and e.label[0] == "false" and e.label[1] is not None:
                a = e.label[1].strip_all_casts() if hasattr(e.label[1], "strip_all_casts") else e.label[1]
                if a.k == "BinaryOperator" and a.get("op") == ">" and C.const_of(a.child(1)) == 0 and \
                        "sep_pos" in (a.child(0).strip_all_casts().get("path") or ""):
                    return True
            if e.kind == "elem" and e.node in seps and e.node is not c:
                return True
            return False
        reach = pg.reachable([pg.after(c)], blocked_edge=blocked)
        hit = [n for n in skips if pg.before(n) in reach]
        if hit:
            ck.violated("C03-M5", st, K.loc(f, c),
                        "after this keyword boundary search the pattern is advanced (`%s`, line %s) on a path that never examined the "
                        "keyword for a numeric suffix '#': a skipped optional keyword `[:KEY#]` at the end of the pattern leaves "
                        "its entry of numbers[] unset instead of storing the caller's default, and later suffixes are not counted"
                        % (hit[0].src, hit[0].get("line")))
        else:
            ck.holds("C03-M5", st, K.loc(f, c), "every path to the next pattern advance examines pattern_ptr[pos - 1] == '#'")
    # on the '#' edges: default stored under numbers && idx < capacity; index advances on both arms
    true_edges = []
    for e in hash_edges:
        pol = None
        for a, p in C.cond_facts(e.label[1], e.label[0] == "true"):
            if is_hash_test(a):
                pol = p if a["op"] == "==" else not p
        if pol:
            true_edges.append(e)
    st = K.site(f, "default-and-index", 0)
    if not true_edges or idxvar is None:
        ck.anchor_lost("C03-M5", "'#' edges / suffix index of matchCommand")
    else:
        probs = []
        incs = [n for n, t in C.stores(f) if t.get("path") == idxvar and n.k == "UnaryOperator" and n.get("op") == "++"] + idx_calls
        in_guard, safe_ptrs, is_slot = capacity_guard(f, S, numbers, idxvar, nlen)
        for k, e in enumerate(true_edges):
            # must pass an increment of the index before the next advance of the pattern
            reach = pg.reachable([e.dst], blocked_edge=lambda x: x.kind == "elem" and x.node in incs)
            if any(pg.before(n) in reach for n in skips):
                probs.append("a numeric-suffix keyword can be consumed or skipped without advancing the suffix index (edge %d)" % k)
            # a store of the default reachable from this edge before the next advance, guarded by numbers && idx < capacity
            reach2 = pg.reachable([e.dst], blocked_edge=lambda x: x.kind == "elem" and x.node in skips)
            ok = False
            for n, t in C.stores(f):
                if n.get("op") == "=" and n.child(1).strip_all_casts().get("path") == dflt and pg.before(n) in reach2:
                    if in_guard(n):
                        ok = True
                    else:
                        ck.violated("C03-M6", K.site(f, "default-store-guard", k), K.loc(f, n),
                                    "`%s` is not guarded by %s != NULL && %s < %s: the caller's array is written past its capacity"
                                    % (n.src, numbers, idxvar, nlen))
            if not ok:
                for c_ in f.calls():
                    if pg.before(c_) in reach2:
                        sh = slot_helper(prog, S, c_, numbers, idxvar, nlen, dflt)
                        if sh and sh[0]:
                            ok = True
            if not ok:
                probs.append("no guarded store of the caller's default after the '#' test (edge %d)" % k)
        if probs:
            ck.violated("C03-M5", st, K.loc(f), sorted(set(probs))[0], {"all": sorted(set(probs))})
        else:
            ck.holds("C03-M5", st, K.loc(f), "%d '#' edges: default stored under %s && %s < %s, index advanced on every path"
                     % (len(true_edges), numbers, idxvar, nlen))
    # M6: who else stores through numbers / number_ptr
    if idxvar is None:
        return
    in_guard, safe_ptrs, is_slot = capacity_guard(f, S, numbers, idxvar, nlen)
    st = K.site(f, "numbers-stores", 0)
    bad = []
    nst = 0
    for n, t in C.stores(f):
        p = t.get("path") or ""
        if (p.startswith("*") and t.k == "UnaryOperator" and t.child(0).strip_all_casts().get("tk") == "ptr" and
                "int" in (t.get("ct") or "int") and t.child(0).strip_all_casts().get("path") not in (None,) and
                t.child(0).strip_all_casts().get("decl", {}).get("kind") == "local") or p.startswith(numbers + "["):
            nst += 1
            if not in_guard(n):
                bad.append(n)
    # the pointer handed to matchPattern is either NULL or numbers + idx taken under the same guard
    ptrvars = {t.get("path") for n, t in C.stores(f) if t.k == "DeclRefExpr" and t.get("tk") == "ptr" and
               any(is_slot(x) for x in n.walk() if x.k in ("BinaryOperator", "UnaryOperator"))} if idxvar else set()
    for n, t in C.stores(f):
        if t.get("path") in ptrvars and n.get("op") == "=" and not C.is_null(n.child(1)):
            nst += 1
            if t.get("path") not in safe_ptrs:
                bad.append(n)
    # the destination handed to matchPattern is decided afresh for every keyword (NULL or the keyword's own slot)
    mp = list(f.calls("matchPattern"))
    dest = None
    if mp and len(C.call_args(mp[0])) >= 5:
        dest = C.call_args(mp[0])[4].strip_all_casts().get("path")
    if dest and dest != numbers:
        dst_stores = [n for n, t in C.stores(f) if t.get("path") == dest]
        r_ = pg.reachable([pg.after(seps[0])], blocked_edge=lambda e: e.kind == "elem" and e.node in dst_stores)
        stt = K.site(f, "suffix-destination-per-keyword", 0)
        if pg.before(mp[0]) in r_:
            ck.violated("C03-M6", stt, K.loc(f, mp[0]),
                        "`%s` can reach matchPattern without having been set for this keyword: it still points at the previous "
                        "numeric-suffix keyword's slot, so a suffix beyond the capacity overwrites an earlier entry of numbers[]" % dest)
        else:
            ck.holds("C03-M6", stt, K.loc(f, mp[0]), "`%s` is assigned on every path from the keyword boundary to matchPattern" % dest)
    for n, t in C.stores(f):
        if t.k == "DeclRefExpr" and t.get("tk") == "ptr" and n.get("op") == "=":
            r_ = n.child(1).strip_all_casts()
            if r_.k == "CallExpr":
                sh = slot_helper(prog, S, r_, numbers, idxvar, nlen, dflt)
                if sh is not None:
                    nst += 1
                    if not sh[1]:
                        bad.append(n)
    for c_ in f.calls():
        sh = slot_helper(prog, S, c_, numbers, idxvar, nlen, dflt)
        if sh is not None:
            nst += 1
            if not (sh[0] or sh[1]):
                bad.append(c_)
    if nst == 0:
        ck.anchor_lost("C03-M6", "stores into numbers[] in matchCommand")
    elif bad:
        ck.violated("C03-M6", st, K.loc(f, bad[0]), "`%s` can address numbers[] at or beyond its capacity" % bad[0].src)
    else:
        ck.holds("C03-M6", st, K.loc(f), "%d stores/pointer formations, each under %s < %s" % (nst, idxvar, nlen))


def rule_m7(ck, prog, tier):
    for name in ("compareStr", "compareStrAndNum"):
        f = prog.fn(name)
        if f is None:
            continue
        st = K.site(f, "case-insensitive", 0)
        cs = [c for c in f.calls() if c.get("callee") in CI + ("strncmp", "memcmp", "strcmp")]
        if len(cs) == 1 and cs[0]["callee"] in CI:
            a = C.call_args(cs[0])
            ok = a[0].strip_all_casts().get("path") == f.params[0]["name"] and a[1].strip_all_casts().get("path") == f.params[2]["name"]
            if ok:
                ck.holds("C03-M7", st, K.loc(f, cs[0]), "%s(str1, str2, n)" % cs[0]["callee"])
            else:
                ck.violated("C03-M7", st, K.loc(f, cs[0]), "the comparison is not between the two strings handed in")
        else:
            ck.violated("C03-M7", st, K.loc(f), "%s compares with %s" % (name, [c["callee"] for c in cs]))
    return K.casefold_rule(ck, prog, "C03-M7", tier)


def rule_m8(ck, prog, S):
    f = prog.fn("matchCommand")
    if f is None:
        return
    pg = S.pg(f)
    adv = []
    for n, t in C.stores(f):
        if t.get("path") == "pattern_ptr" and n.get("op") == "+=":
            r = n.child(1).strip_all_casts()
            c = C.const_of(r)
            if c is not None and c >= 1:
                adv.append(n)
            elif r.k == "BinaryOperator" and r.get("op") == "+" and (C.const_of(r.child(1)) or 0) >= 1 and \
                    "sep_pos" in (r.child(0).strip_all_casts().get("path") or ""):
                adv.append(n)
    loops = C.loops(f)
    if not loops:
        ck.anchor_lost("C03-M8", "loops of matchCommand")
        return
    be = C.back_edges(f)
    for i, (head, body) in enumerate(sorted(loops, key=lambda hb: hb[0].id)):
        st = K.site(f, "loop-consumes-pattern", i)
        # a cycle head -> ... -> head inside the body that passes no advancing store
        start = (head.id, 0)
        reach = pg.reachable([start], blocked_edge=lambda e: (e.kind == "elem" and e.node in adv) or
                             (e.kind == "edge" and e.block.id not in body))
        # a back edge of this loop reachable from its head without passing an advancing store
        cyc = False
        for t_, si, h in be:
            if h.id != head.id:
                continue
            for p_, es in pg.out.items():
                for e in es:
                    if e.kind == "edge" and e.block.id == t_.id and e.si == si and p_ in reach:
                        cyc = True
        if cyc:
            ck.violated("C03-M8", st, K.loc(f, head.elems[0] if head.elems else None),
                        "an iteration of this loop can return to its head without consuming a pattern character: matchCommand does "
                        "not terminate for such a pattern/header pair")
        else:
            ck.holds("C03-M8", st, K.loc(f, head.elems[0] if head.elems else None), "every cycle passes `pattern_ptr += n`, n >= 1")


def run(ck, fb, tier):
    seen_fold = False
    for cfg in fb.configs:
        ck.config = cfg
        prog = fb[cfg]
        S = K.summaries(prog)
        if cfg == "A" or tier == "thorough":
            rule_m1(ck, prog)
            rule_m2(ck, prog)
            rule_m3(ck, prog)
            rule_m4(ck, prog, S)
            rule_m5_m6(ck, prog, S)
            rule_m8(ck, prog, S)
        if rule_m7(ck, prog, tier):
            seen_fold = True
    if "E" in fb.configs and not seen_fold:
        ck.anchor_lost("C03-M7", "OUR_strncasecmp is not compiled in the -std=c89 configuration")
    ck.trust("<ctype.h> classifiers by their C-locale definition", "libc strncasecmp where the build uses it")
    if tier == "thorough":
        K.cross_config(ck, fb, "C03-XC", ["matchCommand", "matchPattern", "strnpbrk"])


RULES["C03-XC"] = "(thorough) decision tables of the matcher functions are identical in every build configuration"

TECHNIQUE = ("static analysis: exact byte-set evaluation of the matcher's character tests, decision tables of the keyword "
             "comparisons by exhaustive path enumeration, must-examine (sibling) rule after every keyword boundary search, "
             "guard facts for the stores into the caller's suffix array, cycle-consumes-pattern reachability")
LEVEL_TEXT = ("Clause level: the building blocks of the matcher (character classes, short/long form, numeric-suffix decoding and "
              "defaults, '?' and leading-colon agreement, capacity of numbers[], progress) are decided on all CFG paths / all byte "
              "values. The accepted language of matchCommand as a whole (the property's 'if and only if') is NOT decided.")
LEVEL_NOTE = "Trusted: clang CFG, extractor, C-locale <ctype.h>, libc strncasecmp (where used)."
DESIGN_REF = "DESIGN.md section 5, C03"
